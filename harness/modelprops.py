"""
modelprops.py - projections of a built model onto the facts the model-level properties talk about
(C01, C04, C05, C07).  Every function takes a modelkit.Built whose main() ran and returns small
JSON-able structures (Booleans per period / per market), computed in exact rational arithmetic
from the exact-oracle series of the *emitted* equations.  Objects are inspected through the public
API only (CurrencyZoneList, GetSectors, HasF, GetVariableName, EquationBlock).
"""
from __future__ import annotations

import ast
import random
import re
from fractions import Fraction

from harness import project

_PLACEHOLDER = re.compile(r'(?<![A-Za-z0-9])_\d+__[A-Za-z_][A-Za-z0-9_]*')


def _series(b, name):
    return b.exact.series.get(name)


def zones(b):
    return list(b.model.CurrencyZoneList)


def zone_sectors(b, zone):
    """The sectors of a currency zone, derived from the countries (each country knows its zone and its sectors), not
    from CurrencyZone.GetSectors(): the membership the properties talk about must not depend on the very lookup the
    markets use."""
    out = []
    for c in b.model.CountryList:
        if c.CurrencyZone is zone:
            out.extend(list(c.GetSectors()))
    return out


def sfc_by_zone(b):
    """C01: for every currency zone that has a sector with financial assets:
    resid[k] = sum_s (F_s[k]-F_s[k-1]) + NET_zone[k], for k = 1..T.  -> {currency: [bool per k>=1]}, details"""
    T = b.exact.horizon
    out = {}
    detail = {}
    ext = b.model.ExternalSector
    for z in zones(b):
        secs = [s for s in zone_sectors(b, z) if s.HasF]
        if not secs:
            continue
        names = [s.GetVariableName('F') for s in secs]
        net = None
        if ext is not None:
            try:
                net = ext['FX'].GetVariableName('NET_' + z.Currency)
            except KeyError:
                net = None
        flags = []
        res = []
        for k in range(1, T + 1):
            tot = Fraction(0)
            for n in names:
                ser = _series(b, n)
                if ser is None:
                    raise KeyError('no series for ' + n)
                tot += ser[k] - ser[k - 1]
            if net is not None:
                tot += _series(b, net)[k]
            flags.append(tot == 0)
            res.append(str(tot))
        out[z.Currency] = flags
        detail[z.Currency] = res
    return out, detail


def numeraire_value(b):
    """C07: sum_c NET_c[k]*XR_c[k] over all registered currencies (incl. the numeraire itself, whose rate is its
    own XR variable) = 0 for k >= 1.  -> [bool per k>=1], NET_NUMERAIRE zero flags"""
    ext = b.model.ExternalSector
    T = b.exact.horizon
    fx = ext['FX']
    xr = ext['XR']
    curs = [v[4:] for v in fx.EquationBlock.GetEquationList() if v.startswith('NET_')]
    flags = []
    numflat = []
    vals = []
    for k in range(1, T + 1):
        tot = Fraction(0)
        for c in curs:
            tot += _series(b, fx.GetVariableName('NET_' + c))[k] * _series(b, xr.GetVariableName(c))[k]
        flags.append(tot == 0)
        vals.append(str(tot))
        numflat.append(_series(b, fx.GetVariableName('NET_NUMERAIRE'))[k] == 0)
    return flags, numflat, vals


def row_poly(b, fullname):
    node = b.system.endo.get(fullname)
    if node is None:
        return None
    try:
        return project.poly_of(node)
    except project.ProjectionError:
        return None


def coef_in_row(b, fullname, monomial_names):
    """coefficient of the monomial prod(monomial_names) in the emitted row of `fullname` (None if not polynomial)"""
    p = row_poly(b, fullname)
    if p is None:
        return None
    key = tuple(sorted((n, 1) for n in monomial_names))
    return p.get(key, Fraction(0))


def cross_credit(b, flows):
    """C07 credit clause for registered cross-currency flows.
    flows: list of (src_ref, dst_ref, var, count, total_out) - count flows to this receiver, total_out registered
    flows of that variable out of the sender (to any receiver).  Representation independent: in the receiver's emitted F row the
    monomials that contain the sender's flow variable are collected; the product of their *other* factors, evaluated
    on the exact series of period k and summed with the coefficients, is the amount credited per unit sent.  It must
    equal count * XR_src[k] / XR_tgt[k] for every k >= 1; the sender's own row must carry the flow with -count."""
    ext = b.model.ExternalSector
    T = b.exact.horizon
    out = []
    for src_ref, dst_ref, var, count, total_out in flows:
        rec = {'flow': [src_ref, dst_ref, var], 'ok': False, 'detail': ''}
        try:
            src, dst = b.sectors[src_ref], b.sectors[dst_ref]
            full = src.GetVariableName(var)
            c_src, c_dst = src.CurrencyZone.Currency, dst.CurrencyZone.Currency
            p = row_poly(b, dst.GetVariableName('F'))
            if p is None:
                rec['detail'] = 'receiver ledger is not polynomial'
                out.append(rec)
                continue
            ok = True
            for k in range(1, T + 1):
                per_unit = Fraction(0)
                for m, coef in p.items():
                    d = dict(m)
                    if d.get(full) != 1:
                        continue
                    val = Fraction(coef)
                    for n, e in m:
                        if n == full:
                            continue
                        val *= _series(b, n)[k] ** e
                    per_unit += val
                xs = _series(b, ext['XR'].GetVariableName(c_src))[k]
                xt = _series(b, ext['XR'].GetVariableName(c_dst))[k]
                if xt == 0 or per_unit != count * xs / xt:
                    ok = False
                    rec['detail'] = 'k=%d credited %s per unit sent, expected %s' % (k, per_unit, count * xs / xt if xt else 'n/a')
                    break
            debit = coef_in_row(b, src.GetVariableName('F'), [full])
            if debit is None or debit != -total_out:
                ok = False
                rec['detail'] += ' sender debit coefficient %s' % debit
            rec['ok'] = ok
        except Exception as e:  # noqa - anything the code under test makes impossible to observe counts against the clause
            rec['detail'] = 'cannot observe credit: %s: %s' % (type(e).__name__, e)
        out.append(rec)
    return out


# --------------------------------------------------------------------------------------
# C04
# --------------------------------------------------------------------------------------

def _is_plain_market(s):
    from sfc_models.sector import Market, FinancialAssetMarket
    return isinstance(s, Market) and not isinstance(s, FinancialAssetMarket)


def markets(b):
    """-> list of dicts, one per goods/labour market, each clause a list of Booleans per k>=1"""
    T = b.exact.horizon
    ext = b.model.ExternalSector
    out = []
    for ref, m in sorted(b.sectors.items()):
        if not _is_plain_market(m):
            continue
        code = m.Code
        zone = m.CurrencyZone
        dem = _series(b, m.GetVariableName('DEM_' + code))
        sup = _series(b, m.GetVariableName('SUP_' + code))
        demanders = []
        for s in zone_sectors(b, zone):
            if s is m:
                continue
            var = 'DEM_' + code if s.Parent is m.Parent else 'DEM_' + m.FullCode
            if var in s.EquationBlock.GetEquationList():
                demanders.append((s, var))
        sup_vars = [v for v in m.EquationBlock.GetEquationList() if v.startswith('SUP_') and v != 'SUP_' + code]
        rec = {'market': ref, 'n_demanders': len(demanders), 'n_suppliers': len(sup_vars)}
        agg, clear, alloc = [], [], []
        for k in range(1, T + 1):
            tot = sum((_series(b, s.GetVariableName(v))[k] for s, v in demanders), Fraction(0))
            agg.append(dem[k] == tot)
            clear.append(sup[k] == dem[k])
            alloc.append(sum((_series(b, m.GetVariableName(v))[k] for v in sup_vars), Fraction(0)) == sup[k])
        rec['demand_aggregates'] = agg
        rec['clears'] = clear
        rec['allocation_sums'] = alloc
        # participants: demand side
        dem_ok = True
        for s, v in demanders:
            if s.HasF:
                c = coef_in_row(b, s.GetVariableName('F'), [s.GetVariableName(v)])
                if c is None or c != -1:
                    dem_ok = False
        rec['demander_booked'] = dem_ok
        # participants: supply side
        sup_match, sup_booked = [], True
        suppliers = []
        for v in sup_vars:
            full = v[4:]
            cand = [s for s in b.model.GetSectors() if s.FullCode == full]
            if len(cand) != 1:
                sup_booked = False
                continue
            suppliers.append((cand[0], v))
        for k in range(1, T + 1):
            ok = True
            for s, v in suppliers:
                own = m.GetSupplierTerm(s)
                own_ser = _series(b, s.GetVariableName(own)) if own in s.EquationBlock.GetEquationList() else None
                assigned = _series(b, m.GetVariableName(v))[k]
                if own_ser is None:
                    ok = False
                    continue
                if s.CurrencyZone is zone:
                    want = assigned
                else:
                    xm = _series(b, ext['XR'].GetVariableName(zone.Currency))[k]
                    xs = _series(b, ext['XR'].GetVariableName(s.CurrencyZone.Currency))[k]
                    want = assigned * xm / xs
                if own_ser[k] != want:
                    ok = False
            sup_match.append(ok)
        for s, v in suppliers:
            own = m.GetSupplierTerm(s)
            if s.HasF and own in s.EquationBlock.GetEquationList():
                if s.CurrencyZone is zone:
                    c = coef_in_row(b, s.GetVariableName('F'), [s.GetVariableName(own)])
                    if c is None or c != 1:
                        sup_booked = False
                else:
                    cross = ext['XR'].GetVariableName('%s_%s' % (zone.Currency, s.CurrencyZone.Currency))
                    c = coef_in_row(b, s.GetVariableName('F'), [m.GetVariableName(v), cross])
                    if c is None or c != 1:
                        sup_booked = False
        # every supplier the user registered with AddSupplier (with a rule or as the residual one) is a participant: the
        # market has an allocation variable for it, whatever its rule is worth
        for sref in (getattr(b, 'stated_suppliers', None) or {}).get(ref, []):
            st_sup = b.sectors.get(sref)
            if st_sup is None or ('SUP_' + st_sup.FullCode) not in m.EquationBlock.GetEquationList():
                sup_booked = False
        rec['supplier_matches'] = sup_match
        rec['supplier_booked'] = sup_booked
        out.append(rec)
    return out


def asset_markets(b):
    """money / deposit markets and portfolio adding-up"""
    from sfc_models.sector import FinancialAssetMarket
    T = b.exact.horizon
    out = []
    for ref, m in sorted(b.sectors.items()):
        if not isinstance(m, FinancialAssetMarket):
            continue
        code = m.Code
        zone = m.CurrencyZone
        holders = []
        issuers = []
        for s in zone_sectors(b, zone):
            if s is m or isinstance(s, FinancialAssetMarket):
                continue
            if s.Code == m.IssuerShortCode:
                issuers.append(s)
                continue
            if 'DEM_' + code in s.EquationBlock.GetEquationList() and s.HasF:
                holders.append(s)
        dem = _series(b, m.GetVariableName('DEM_' + code))
        sup = _series(b, m.GetVariableName('SUP_' + code))
        agg, clear, iss = [], [], []
        for k in range(1, T + 1):
            tot = sum((_series(b, s.GetVariableName('DEM_' + code))[k] for s in holders), Fraction(0))
            agg.append(dem[k] == tot)
            clear.append(sup is not None and sup[k] == dem[k])
            iss.append(all(_series(b, s.GetVariableName('SUP_' + code))[k] == dem[k] for s in issuers))
        out.append({'market': ref, 'n_holders': len(holders), 'n_issuers': len(issuers),
                    'demand_aggregates': agg, 'clears': clear, 'issuer_supplies': iss})
    return out


def portfolios(b):
    """sectors that used GenerateAssetWeighting (have WGT_* variables): sum of DEM_<asset> = F;
    sectors given the default money demand: DEM_MON = F  (recognised by the emitted row DEM_x = F)."""
    T = b.exact.horizon
    out = []
    for ref, s in sorted(b.sectors.items()):
        if not s.HasF:
            continue
        wg = [v[4:] for v in s.EquationBlock.GetEquationList() if v.startswith('WGT_')]
        if not wg:
            continue
        F = _series(b, s.GetVariableName('F'))
        flags = []
        for k in range(1, T + 1):
            tot = sum((_series(b, s.GetVariableName('DEM_' + a))[k] for a in wg), Fraction(0))
            flags.append(tot == F[k])
        out.append({'sector': ref, 'assets': wg, 'adds_up': flags})
    return out


# --------------------------------------------------------------------------------------
# C05
# --------------------------------------------------------------------------------------

def closure(b):
    """C05 on the emitted text: placeholders, duplicate definitions, closedness, canonical names."""
    text = b.final_text
    sys_ = b.system
    defined = sys_.defined()
    allowed = {'k'} | project.MATH_FUNCS
    dangling = {}
    for v, used in sys_.names_used().items():
        bad = sorted(n for n in used if n not in defined and n not in allowed)
        if bad:
            dangling[v] = bad
    placeholders = sorted(set(_PLACEHOLDER.findall(text)))
    # canonical names: every sector variable appears as FullCode__local and nothing else defines a '__' name
    multi = len(b.model.CountryList) > 1
    expected = set()
    noncanon = []
    for c in b.model.CountryList:
        for s in c.GetSectors():
            fc = (c.Code + '_' + s.Code) if multi else s.Code
            if s.FullCode != fc:
                noncanon.append('%s has FullCode %r, expected %r' % (s.Code, s.FullCode, fc))
            for v in s.EquationBlock.GetEquationList():
                expected.add(fc + '__' + v)
    missing = sorted(n for n in expected if n not in defined)
    extra = sorted(n for n in defined if '__' in n and n not in expected)
    return {'placeholders': placeholders, 'dupes': sorted(set(sys_.dupes)), 'dangling': dangling,
            'noncanonical': noncanon, 'missing': missing, 'extra': extra,
            'ic_undefined': sorted(v for v in sys_.ic if v not in defined)}


def meaning_preserved(b, seed=1):
    """C05 last sentence: each emitted equation has the same meaning as the sector-local one it came from.
    Both are evaluated on random rational environments (local names bound to the value of their full name)."""
    rnd = random.Random(seed)
    sys_ = b.system
    bad = []
    names = sorted(sys_.defined() | {'k'})
    for trial in range(2):
        env_full = {n: Fraction(rnd.randint(-9, 9) or 1, rnd.randint(1, 7)) for n in names}
        for c in b.model.CountryList:
            for s in c.GetSectors():
                loc = s.EquationBlock.GetEquationList()
                env = dict(env_full)
                for v in loc:
                    env[v] = env_full.get(s.GetVariableName(v), Fraction(1))
                for v in loc:
                    full = s.GetVariableName(v)
                    rhs = s.EquationBlock[v].GetRightHandSide()
                    if rhs.strip().startswith('EXOGENOUS'):
                        continue
                    if full in sys_.lagged:
                        m = re.match(r'^\s*([A-Za-z_][A-Za-z0-9_]*)\s*\(\s*k\s*-\s*1\s*\)\s*$', rhs)
                        src = m.group(1) if m else None
                        if src is not None and src in loc:
                            src = s.GetVariableName(src)
                        if src != sys_.lagged[full]:
                            bad.append(full)
                        continue
                    if full not in sys_.endo:
                        continue
                    try:
                        a = _eval(ast.parse(rhs.strip() or '0.0', mode='eval').body, env)
                        e = _eval(sys_.endo[full], env_full)
                    except _Skip:
                        continue
                    except Exception:
                        bad.append(full)
                        continue
                    if a != e:
                        bad.append(full)
    bad.extend(_stated_meaning(b, rnd, names))
    return sorted(set(bad))


_STATED_ONLY = ('GIFT', 'XTRA', 'TWICE', 'DBL', 'NIL')   # variables that nothing but the user's own statements define


def _stated_meaning(b, rnd, names):
    """The emitted equation of a variable that only the user's statements define (AddVariable + AddTermToEquation, with
    names requested from sectors wherever the statement says so) means the sum of what was stated - compared with the
    statements themselves, not with the sector's equation object (which the pipeline rewrites in place)."""
    sys_ = b.system
    bad = []
    stated = getattr(b, 'stated', None) or {}
    for (sref, var), texts in sorted(stated.items()):
        if var not in _STATED_ONLY and not var.startswith('EXP_'):
            continue
        s = b.sectors.get(sref)
        if s is None:
            continue
        try:
            full = s.GetVariableName(var)
        except KeyError:
            bad.append(sref + ':' + var)
            continue
        if full not in sys_.endo:
            continue
        loc = s.EquationBlock.GetEquationList()
        for trial in range(2):
            env_full = {n: Fraction(rnd.randint(-9, 9) or 1, rnd.randint(1, 7)) for n in names}
            env = dict(env_full)
            for v in loc:
                env[v] = env_full.get(s.GetVariableName(v), Fraction(1))
            try:
                want = Fraction(0)
                for t in texts:
                    def rep(m):
                        return b.sectors[m.group(1)].GetVariableName(m.group(2))
                    text = re.sub(r'\{([A-Za-z0-9_.]+):([A-Za-z0-9_]+)\}', rep, t).strip()
                    if text:
                        want += _eval(ast.parse(text, mode='eval').body, env)
                got = _eval(sys_.endo[full], env_full)
            except _Skip:
                continue
            except Exception:
                bad.append(full)
                continue
            if want != got:
                bad.append(full)
    return bad


class _Skip(Exception):
    pass


def _eval(node, env):
    if isinstance(node, ast.Constant):
        return project.frac_of_constant(node.value)
    if isinstance(node, ast.Name):
        if node.id in env:
            return env[node.id]
        raise _Skip()
    if isinstance(node, ast.UnaryOp):
        v = _eval(node.operand, env)
        return -v if isinstance(node.op, ast.USub) else v
    if isinstance(node, ast.BinOp):
        a, c = _eval(node.left, env), _eval(node.right, env)
        if isinstance(node.op, ast.Add):
            return a + c
        if isinstance(node.op, ast.Sub):
            return a - c
        if isinstance(node.op, ast.Mult):
            return a * c
        if isinstance(node.op, ast.Div):
            if c == 0:
                raise _Skip()
            return a / c
        raise _Skip()
    if isinstance(node, ast.Call) and isinstance(node.func, ast.Name) and node.func.id in ('max', 'min', 'abs'):
        return {'max': max, 'min': min, 'abs': abs}[node.func.id](*[_eval(x, env) for x in node.args])
    raise _Skip()


def ledger_rows(b):
    """C06 at model level: F_s[k] = F_s[k-1] + sum(terms of the emitted F row)  (the row *is* LAG_F + flows)."""
    T = b.exact.horizon
    bad = []
    for ref, s in sorted(b.sectors.items()):
        if not s.HasF:
            continue
        F = s.GetVariableName('F')
        p = row_poly(b, F)
        if p is None:
            bad.append(ref + ':not-polynomial')
            continue
        lag = s.GetVariableName('LAG_F')
        if p.get(((lag, 1),), 0) != 1:
            bad.append(ref + ':LAG_F coefficient')
        if b.system.lagged.get(lag) != F:
            bad.append(ref + ':LAG_F is not F(k-1)')
    return bad
