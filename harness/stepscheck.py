"""
stepscheck.py - the GUI step API of Model (_GetSteps / _RunStep) as an alternative schedule of main()
(extension of C08, thorough tier).

spec:   spec/Steps.tla (EXTENDS ModelBuild): Model.RunSteps as a list of command sets, one action RunStep(cmd)
        for any command of the head set; TLC explores ALL orders of the per-sector commands of the small
        blueprints and checks Steps_RefinesMain / C08_StepOrderIndependent / Steps_CommandsAreSectors.
replay: the emitted maximal behaviours (blueprint, order of commands) - all 720 of SIM, a seeded sample of the
        orders of the other blueprints - are executed on the real classes: the model
        program of the blueprint (canonical declaration order) is run up to main(), then driven through
        m._GetSteps() / m._RunStep(cmd) in the emitted order.  The result is compared OBSERVED vs OBSERVED with
        the same program run through m.main(): same variable set and identical exact-oracle series
        (c08.compare_series).  In addition the schedule of _RunAllSteps itself is replayed for every well-formed
        blueprint of the family (larger models, aliases, external sector) with a few seeded random orders.
trace:  spec/Steps_Trace.tla folds StepOp over the observed order and judges the event.

Property clause (a VIOLATION):  C08_StepOrderIndependent - a well-formed model for which main() and the step
        schedule both produced equations, decided by the exact oracle, with a different variable set or a
        different series for some variable.
Conformance clauses (drift):    a step order that raises although main() completes (the statement of C08 speaks
        about the equation systems produced, so a refusal is not a different solution - weaker reading), text of
        the main()-ordered schedule differing from main()'s, commands offered that the spec does not predict,
        the experimental API missing altogether.
"""
from __future__ import annotations

import concurrent.futures
import json
import os
import random

from harness import core, modelcheck

CLAUSE = 'C08_StepOrderIndependent'
FIXED = ['Generate Sector Codes', 'Fix Aliases', 'Generate Equations', 'Process Cash Flows', 'Process Exogenous',
         'Fix Aliases (Pass #2)', 'Final Equations', 'Solve']
FULL_REPLAY = ('SIM',)          # blueprints whose emitted orders are ALL replayed
SAMPLE_PER_LARGE = 240          # seeded sample of the emitted orders of every other blueprint (thorough)
RANDOM_ORDERS_OTHERS = 3        # seeded random orders per blueprint outside the exhaustive instance


class StepApiMissing(AttributeError):
    """Model has no _GetSteps / _RunStep (the experimental API was removed or renamed)."""


def probe_api():
    from sfc_models.models import Model
    missing = [n for n in ('_GetSteps', '_RunStep') if not callable(getattr(Model, n, None))]
    if missing:
        raise StepApiMissing('Model has no ' + ', '.join(missing))


# --------------------------------------------------------------------------------------
# one behaviour on the real classes
# --------------------------------------------------------------------------------------

_MAIN_CACHE = {}


_EXACT_CACHE = {}


def _finish(b):
    """The observation tail of modelkit.execute for a model that was driven by hand.  Many orders end in the same
    text of equations: the projection and the exact solution of a text are computed once per worker."""
    from harness import project, exact
    m = b.model
    b.final_text = m.FinalEquations or None
    if m.InitialConditions:
        b.has_ic = True
    if b.final_text:
        hit = _EXACT_CACHE.get(b.final_text)
        if hit is not None:
            b.system, b.exact, b.exact_error = hit
            return b
        try:
            b.system = project.parse_system(b.final_text)
        except project.ProjectionError as e:
            b.exact_error = 'projection: %s' % e
        if b.system is not None:
            try:
                b.exact = exact.solve(b.system, modelcheck.HORIZON)
            except exact.Undecided as e:
                b.exact_error = 'undecided: %s' % e
            except ZeroDivisionError:
                b.exact_error = 'undecided: division by zero in exact arithmetic'
        if len(_EXACT_CACHE) > 400:
            _EXACT_CACHE.clear()
        _EXACT_CACHE[b.final_text] = (b.system, b.exact, b.exact_error)
    return b


def _dangling(system):
    from harness import project
    if system is None:
        return []
    known = system.defined() | set(project.MATH_FUNCS) | {'k', 't'}
    out = set()
    for v, used in system.names_used().items():
        out |= {n for n in used if n not in known}
    return sorted(out)


def _main_build(bp, seed):
    from harness import modelkit
    key = (bp['name'], seed)
    if key not in _MAIN_CACHE:
        canon = list(range(1, len(bp['sectors']) + 1))
        prog = modelcheck.program_for(bp, canon, seed)
        _MAIN_CACHE.clear()
        _MAIN_CACHE[key] = (prog, modelkit.execute(prog, horizon=modelcheck.HORIZON))
    return _MAIN_CACHE[key]


def _float_series_close(m1, m0):
    """The float series of the two real solver runs (observed vs observed), loosely: text order may change the
    iteration path by rounding, nothing more."""
    try:
        s1, s0 = m1.EquationSolver.TimeSeries, m0.EquationSolver.TimeSeries
        if set(s1.keys()) != set(s0.keys()):
            return False
        for k in s0.keys():
            a, b = list(s1[k]), list(s0[k])
            if len(a) != len(b):
                return False
            for x, y in zip(a, b):
                if abs(x - y) > 1e-4 * max(1.0, abs(x), abs(y)):
                    return False
        return True
    except Exception:  # noqa - observation only
        return False


def drive(bp, order, seed, pick=None, mode='emitted'):
    """Run the model program of bp up to main() and then through the step API.
    order: list of commands (as emitted by TLC), or None with pick(keys, i) -> command choosing on the fly.
    -> (event, info)"""
    from harness import modelkit
    from harness.checks import c08
    prog, b0 = _main_build(bp, seed)
    b = modelkit.execute(prog, horizon=modelcheck.HORIZON, stop_before_main=True)
    m = b.model
    ran = []
    error = ''
    errtype = ''
    offered_ok = True
    first = []
    if b.error is not None:
        error = 'before main(): %s: %s' % (type(b.error).__name__, str(b.error)[:160])
        errtype = type(b.error).__name__
    else:
        try:
            first = m._GetSteps()
            i = 0
            while True:
                if order is not None and i >= len(order):
                    break
                offered = m._GetSteps()
                if not offered:
                    break
                if order is not None:
                    cmd = order[i]
                    if cmd not in offered[0]:
                        offered_ok = False
                        error = 'command %r not offered; head = %r' % (cmd, offered[0][:12])
                        errtype = 'NotOffered'
                        break
                else:
                    cmd = pick(sorted(offered[0]), list(m.RunSteps[0].keys()), i)
                ran.append(cmd)
                i += 1
                m._RunStep(cmd)
        except AttributeError as e:
            if '_GetSteps' in str(e) or '_RunStep' in str(e):
                raise StepApiMissing(str(e))
            error = 'AttributeError at %s: %s' % (ran[-1] if ran else '_GetSteps', str(e)[:160])
            errtype = 'AttributeError'
        except Exception as e:  # noqa - errors of the code under test are observations
            error = '%s at %s: %s' % (type(e).__name__, ran[-1] if ran else '_GetSteps', str(e)[:160])
            errtype = type(e).__name__
    left = 0
    try:
        left = sum(len(x) for x in (m.RunSteps or []))
    except Exception:  # noqa
        pass
    _finish(b)
    cmp_ = c08.compare_series(b, b0)
    if cmp_['both_built'] and not cmp_['decided'] and b0.exact is not None and b.exact is None:
        # main()'s system is decided; the step-built one is not.  If that is because it refers to names nothing
        # defines (an alias that was never resolved, ...) it has no solution at all: a decided difference.
        dang = _dangling(b.system)
        if dang and not _dangling(b0.system):
            cmp_['decided'] = True
            cmp_['same_series'] = False
            cmp_['detail'] = 'the step-built system refers to undefined names %s (main()\'s system is closed and solved)' % dang[:4]
    main_errtype = type(b0.error).__name__ if b0.error is not None else ''
    # raised: a command (or the construction) raised / was refused; exhausted: nothing is left in Model.RunSteps.
    # A numerical failure of the very last command (Solve) that main() shows identically, after both produced their
    # equations, is the same outcome and not a difference of the schedule.
    raised = error != ''
    exhausted = left == 0
    same_outcome = bool(errtype == main_errtype and
                        (errtype == '' or (bool(ran) and ran[-1] == 'Solve' and b.final_text is not None
                                           and b0.final_text is not None)))
    completed = (not raised) and exhausted
    ev = {'ev': 'Steps', 'name': bp['name'], 'mode': mode, 'order': list(ran) if order is None else list(order),
          'raised': bool(raised), 'exhausted': bool(exhausted), 'completed': bool(completed),
          'same_outcome': same_outcome, 'offered_ok': bool(offered_ok),
          'first_ok': bool(first) and [sorted(x) for x in first] == [[c] for c in FIXED],
          'main_built': b0.final_text is not None, 'both_built': bool(cmp_['both_built']),
          'decided': bool(cmp_['decided']), 'same_vars': bool(cmp_['same_vars']), 'same_series': bool(cmp_['same_series']),
          'same_text': b.final_text is not None and b.final_text == b0.final_text,
          'float_close': _float_series_close(m, b0.model) if (completed and b0.error is None) else True,
          'state_finished': getattr(m, 'State', '') == 'Finished Running',
          'error': error}
    info = {'compare': cmp_, 'error': error, 'main_error': '%s: %s' % (main_errtype, str(b0.error)[:160]) if b0.error is not None else ''}
    return ev, info


def _job(args):
    bp, order, seed, mode = args
    try:
        if mode == 'emitted':
            return drive(bp, order, seed)
        if mode == 'runall':
            # Model._RunAllSteps: always the first key of the head dict
            return drive(bp, None, seed, pick=lambda srt, ins, i: ins[0], mode='runall')
        rnd = random.Random('%s|%s|%s' % (bp['name'], seed, mode))
        return drive(bp, None, seed, pick=lambda srt, ins, i: rnd.choice(srt), mode='random')
    except StepApiMissing as e:
        return 'APIMISSING: %s' % e, None
    except core.MachineryError as e:
        return 'MACHINERY: %s' % e, None


# --------------------------------------------------------------------------------------
# the check
# --------------------------------------------------------------------------------------

def generate(rep, cfg, workers=8):
    res = core.tlc('MC_Steps', cfg, workers=workers, tag='steps', stack='256m', timeout=3000)
    if res.violated:
        raise core.MachineryError('Steps invariant %s violated in %s (the spec of the step schedule does not refine '
                                  'ModelBuild.RunAll)\n%s' % (res.violated, cfg, '\n'.join(res.stdout.splitlines()[-40:])))
    rep.add_tlc(res, 'exhaustive Steps (GUI step schedule) ' + cfg)
    bps, allb = {}, {}
    for v in core.json_of_printed(res, 'BPS'):
        for b in v:
            bps[b['name']] = b
    for v in core.json_of_printed(res, 'ALLBPS'):
        for b in v:
            allb[b['name']] = b
    seen = {}
    for b in core.json_of_printed(res, 'BEH'):
        seen[(b['name'], tuple(b['order']))] = b
    if not bps or not seen or not allb:
        raise core.MachineryError('Steps run emitted no blueprints/behaviours')
    return bps, allb, [seen[k] for k in sorted(seen)]


def choose(behs, seed, per_large=SAMPLE_PER_LARGE):
    """All emitted orders of the blueprints in FULL_REPLAY, a seeded sample of the others (budget of the tier)."""
    rnd = random.Random('steps|%s' % seed)
    by = {}
    for b in behs:
        by.setdefault(b['name'], []).append(b)
    out = []
    for name in sorted(by):
        lst = by[name]
        if name in FULL_REPLAY or len(lst) <= per_large:
            out.extend(lst)
        else:
            lst = list(lst)
            rnd.shuffle(lst)
            out.extend(lst[:per_large])
    return out


def run_steps(rep, procs=None):
    probe_api()
    cfg = 'MC_Steps_quick.cfg' if rep.tier == 'quick' else 'MC_Steps_thorough.cfg'
    bps, allb, behs = generate(rep, cfg)
    chosen = choose(behs, rep.seed)
    jobs = [(bps[b['name']], b['order'], rep.seed, 'emitted') for b in chosen]
    cases = [{'kind': 'steps', 'name': b['name'], 'order': b['order'], 'seed': rep.seed} for b in chosen]
    if rep.tier != 'quick':
        for name in sorted(allb):
            if not allb[name]['wellformed']:
                continue
            for mode in ['runall'] + ['random%d' % i for i in range(RANDOM_ORDERS_OTHERS)]:
                jobs.append((allb[name], None, rep.seed, mode))
                cases.append({'kind': 'steps', 'name': name, 'order': None, 'mode': mode, 'seed': rep.seed})
        bps = dict(allb, **bps)
    procs = procs or min(16, os.cpu_count() or 4)
    # jobs are grouped by blueprint so that a worker builds the main() reference of a blueprint once
    with concurrent.futures.ProcessPoolExecutor(max_workers=procs) as ex:
        results = list(ex.map(_job, jobs, chunksize=max(1, min(60, len(jobs) // (procs * 2) or 1))))
    for r in results:
        if isinstance(r[0], str) and r[0].startswith('APIMISSING'):
            raise StepApiMissing(r[0])
        if isinstance(r[0], str):
            raise core.MachineryError(r[0])
    for case, (ev, info) in zip(cases, results):
        if case['order'] is None:
            case['order'] = ev['order']
    rep.rule += ('; step schedule (spec/Steps.tla): TLC explores every order in which the GUI step API lets the per-sector '
                 'generate commands be taken for the small blueprints; all 720 orders of SIM, a seeded sample '
                 'of %d orders of every other blueprint, and the _RunAllSteps schedule + %d seeded random orders of every well-formed '
                 'blueprint of the family are driven through Model._GetSteps/_RunStep and compared (exact oracle, observed vs '
                 'observed) with main() on the same model program' % (SAMPLE_PER_LARGE, RANDOM_ORDERS_OTHERS))
    rep.extra['step_orders_emitted_by_tlc'] = len(behs)
    rep.extra['step_orders_replayed'] = len(jobs)
    judge(rep, cases, results)


def judge(rep, cases, results):
    traces = []
    for i, (case, (ev, info)) in enumerate(zip(cases, results)):
        traces.append(('s%d' % i, [ev]))
        rep.add_case(case, True)
    verdicts, st, tr = core.validate_traces('MC_Steps_Trace', 'MC_Steps_Trace.cfg', traces,
                                            chunk=max(8, len(traces) // 16 + 1), tag='c08steps', stack='256m')
    rep.traces += len(traces)
    rep.extra['step_trace_validation_states'] = st
    out = {}
    for i, (case, (ev, info)) in enumerate(zip(cases, results)):
        clauses = [c for c in verdicts['s%d' % i].split(':', 1)[1].split(',') if c]
        out[i] = clauses
        for c in clauses:
            if c.startswith('C08_'):
                detail = info['compare']['detail'] or info['error']
                rep.violate(c, '%s:steps:%s' % (c, case['name']), case, detail=detail)
            elif c.startswith('drift_'):
                rep.add_drift(c, dict(case, error=info['error']) if info['error'] else case)
            elif c.startswith('undecided_'):
                rep.extra['step_orders_undecided'] = rep.extra.get('step_orders_undecided', 0) + 1
    return out


def replay_case(data):
    """Re-execute a stored step-order case (called from c08.replay)."""
    case = data['case']
    rep = core.Report('C08', 'thorough', case.get('seed', 0))
    probe_api()
    _, bps, _ = generate(rep, 'MC_Steps_quick.cfg')
    if case['name'] not in bps:
        raise core.MachineryError('unknown blueprint ' + case['name'])
    res = _job((bps[case['name']], case['order'], case.get('seed', 0), 'emitted'))
    if isinstance(res[0], str):
        raise core.MachineryError(res[0])
    clauses = judge(rep, [case], [res])[0]
    print(json.dumps({'case': case, 'event': res[0], 'compare': res[1]['compare'], 'clauses': clauses}, default=str)[:3000])
    if rep.violations:
        print('VIOLATION property=C08 replay=(step order) clause=%s' % rep.violations[0].clause)
        return 1
    print('replay: property clause holds on this case now')
    return 0
