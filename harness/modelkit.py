"""
modelkit.py - executing *model programs* on the real sfc_models classes and observing the result.

A model program is a JSON list of construction statements (the actions of spec/ModelBuild.tla):

  {"op": "Country", "code": "CA", "currency": "CAD"}            currency optional; "region": true -> Region
  {"op": "External"}                                            ExternalSector(model)
  {"op": "Sector", "country": "CA", "kind": "Household", "code": "HH", "args": {...}}
        args may name other sectors: {"treasury": "@CA.TRE"}, {"market_list": ["@CA.GOOD", ...]}
  {"op": "AddVariable", "sector": "CA.HH", "name": "X", "desc": "..", "eqn": "2*{CA.HH:F}"}
        {S:V} in any text is replaced by S.GetVariableName(V) *at that point of the program*
  {"op": "SetRHS", "sector": .., "name": .., "eqn": ..}
  {"op": "AddTerm", "sector": .., "name": .., "term": "{A:x}*{B:y}"}   Sector.AddTermToEquation (a non-blob term)
  {"op": "SetAttr", "sector": .., "attr": "AlphaIncome", "value": 0.6}
  {"op": "AddSupplier", "market": "CA.GOOD", "supplier": "US.BUS", "eqn": "MU*{CA.HH:INC}"}   eqn "" = residual
  {"op": "AddMarket", "sector": "US.BUS", "market": "CA.GOOD"}  (multi-output business)
  {"op": "AssetWeighting", "sector": .., "weights": [["DEP", "L0 + ..."]], "residual": "MON"}
  {"op": "RegisterCashFlow", "src": .., "dst": .., "var": "GIFT", "inc_src": true, "inc_dst": true}
  {"op": "Exogenous", "sector": .., "var": .., "value": "[20.]*20", "via": "sector"|"model"|"model_id"}
  {"op": "IC", "sector": .., "var": .., "value": 12.5, "via": "sector"|"model"}
  {"op": "Global", "var": "t", "desc": "..", "eqn": "1950. + k"}
  {"op": "Query", "what": "zone"|"dump"|"loginfo"|"model_sectors", "country": "CA"}   read-only questions
  {"op": "MaxTime", "value": 5}
  {"op": "Main"}                                                (implicit at the end if absent)

Everything is observed through the public API: Model.FinalEquations, Model.GetTimeSeries,
Model.CurrencyZoneList, Sector.HasF, Sector.GetVariableName, Sector.EquationBlock.
"""
from __future__ import annotations

import re
import warnings

from harness import project, exact

_REF = re.compile(r'\{([A-Za-z0-9_.]+):([A-Za-z0-9_]+)\}')


class Built(object):
    def __init__(self):
        self.model = None
        self.sectors = {}      # "CC.CODE" -> Sector
        self.countries = {}    # code -> Country
        self.error = None      # exception raised by a statement / main()
        self.error_at = None   # index of the failing statement
        self.final_text = None
        self.system = None
        self.exact = None
        self.exact_error = None
        self.names_handed_out = []   # (statement index, "CC.CODE", var, returned name)
        self.stated_suppliers = {}   # "CC.MARKET" -> ["CC.SUPPLIER", ...] as registered with AddSupplier
        self.stated = {}             # ("CC.CODE", var) -> the texts the program stated for it (templates, '{ref:var}' unresolved)
        self.has_ic = False
        self.main_ran = False


_SUB = {}


def _subclass_business(sd):
    """a user-defined subclass of FixedMarginBusiness (how the example scripts extend the library)"""
    if 'cls' not in _SUB or _SUB.get('base') is not sd.FixedMarginBusiness:
        class ServiceBusiness(sd.FixedMarginBusiness):
            pass
        _SUB['cls'] = ServiceBusiness
        _SUB['base'] = sd.FixedMarginBusiness
    return _SUB['cls']


def _kinds():
    from sfc_models import sector_definitions as sd
    from sfc_models.sector import Sector, Market
    return {
        'Sector': Sector, 'Market': Market,
        'Household': sd.Household, 'HouseholdWithExpectations': sd.HouseholdWithExpectations,
        'Capitalists': sd.Capitalists, 'ConsolidatedGovernment': sd.ConsolidatedGovernment,
        'DoNothingGovernment': sd.DoNothingGovernment, 'Treasury': sd.Treasury, 'CentralBank': sd.CentralBank,
        'FixedMarginBusiness': sd.FixedMarginBusiness,
        'FixedMarginBusinessSub': _subclass_business(sd),
        'FixedMarginBusinessMultiOutput': sd.FixedMarginBusinessMultiOutput,
        'TaxFlow': sd.TaxFlow, 'MoneyMarket': sd.MoneyMarket, 'DepositMarket': sd.DepositMarket,
        'GoldStandardCentralBank': sd.GoldStandardCentralBank, 'GoldStandardGovernment': sd.GoldStandardGovernment,
    }


def execute(program, solve=True, oracle=True, horizon=None, stop_before_main=False, observe_phases=False):
    """Run a model program on the real classes.  Never raises for errors of the code under test:
    they are recorded in Built.error."""
    from sfc_models.models import Model, Country, Region
    from sfc_models.external import ExternalSector
    warnings.filterwarnings('ignore')
    b = Built()
    kinds = _kinds()
    model = Model()
    b.model = model
    b.observe_phases = observe_phases
    b.phases = []

    def sec(ref):
        return b.sectors[ref]

    def subst(text, idx):
        if not isinstance(text, str):
            return text

        def rep(m):
            s, v = m.group(1), m.group(2)
            name = sec(s).GetVariableName(v)
            b.names_handed_out.append((idx, s, v, name))
            return name
        return _REF.sub(rep, text)

    def arg(v):
        if isinstance(v, str) and v.startswith('@'):
            return sec(v[1:])
        if isinstance(v, list):
            return [arg(x) for x in v]
        return v

    saw_main = False
    for idx, st in enumerate(program):
        op = st['op']
        try:
            if op == 'Country':
                cls = Region if st.get('region') else Country
                kw = {}
                if st.get('currency') is not None:
                    kw['currency'] = st['currency']
                if st.get('long_name'):
                    kw['long_name'] = st['long_name']
                b.countries[st['code']] = cls(model, st['code'], **kw)
            elif op == 'Book':
                # the model is put together by a bundled gl_book builder
                import importlib
                mod = importlib.import_module('sfc_models.gl_book.' + st['module'])
                builder = getattr(mod, st['cls'])(country_code=st.get('country_code', 'C'),
                                                  use_book_exogenous=st.get('book_exogenous', True))
                model = builder.build_model()
                b.model = model
                for c in model.CountryList:
                    code = 'EXT' if isinstance(c, ExternalSector) else c.Code
                    b.countries[code] = c
                    for s in c.GetSectors():
                        b.sectors[code + '.' + s.Code] = s
            elif op == 'External':
                ext = ExternalSector(model)
                b.countries['EXT'] = ext
                for s in ext.GetSectors():
                    b.sectors['EXT.' + s.Code] = s
            elif op == 'Sector':
                c = b.countries[st['country']]
                kw = {k: arg(v) for k, v in (st.get('args') or {}).items()}
                obj = kinds[st['kind']](c, st['code'], **kw)
                b.sectors[st['country'] + '.' + st['code']] = obj
            elif op == 'AddVariable':
                b.stated[(st['sector'], st['name'])] = [st.get('eqn', '')]
                sec(st['sector']).AddVariable(st['name'], st.get('desc', ''), subst(st.get('eqn', ''), idx))
            elif op == 'AddTerm':
                b.stated.setdefault((st['sector'], st['name']), []).append(st['term'])
                sec(st['sector']).AddTermToEquation(st['name'], subst(st['term'], idx))
            elif op == 'SetRHS':
                b.stated[(st['sector'], st['name'])] = [st['eqn']]
                sec(st['sector']).SetEquationRightHandSide(st['name'], subst(st['eqn'], idx))
            elif op == 'SetAttr':
                setattr(sec(st['sector']), st['attr'], arg(st['value']))
            elif op == 'AddSupplier':
                b.stated_suppliers.setdefault(st['market'], []).append(st['supplier'])
                sec(st['market']).AddSupplier(sec(st['supplier']), subst(st.get('eqn', ''), idx))
            elif op == 'AddMarket':
                sec(st['sector']).AddMarket(sec(st['market']))
            elif op == 'AssetWeighting':
                w = [(c, subst(e, idx)) for c, e in st['weights']]
                if st.get('as') == 'dict':
                    w = dict(w)
                sec(st['sector']).GenerateAssetWeighting(w, st['residual'])
            elif op == 'RegisterCashFlow':
                model.RegisterCashFlow(sec(st['src']), sec(st['dst']), st['var'],
                                       is_income_source=st.get('inc_src', True),
                                       is_income_dest=st.get('inc_dst', True))
            elif op == 'Exogenous':
                via = st.get('via', 'sector')
                val = subst(st['value'], idx)
                if via == 'sector':
                    sec(st['sector']).SetExogenous(st['var'], val)
                elif via == 'model_id':
                    model.AddExogenous(sec(st['sector']), st['var'], val)
                else:
                    model.AddExogenous(st['fullcode'], st['var'], val)
            elif op == 'IC':
                b.has_ic = True
                if st.get('via', 'sector') == 'sector':
                    sec(st['sector']).AddInitialCondition(st['var'], st['value'])
                elif st['via'] == 'model_id':
                    model.AddInitialCondition(sec(st['sector']).ID, st['var'], st['value'])
                else:
                    model.AddInitialCondition(st['fullcode'], st['var'], st['value'])
            elif op == 'Global':
                model.AddGlobalEquation(st['var'], st.get('desc', ''), subst(st['eqn'], idx))
            elif op == 'MaxTime':
                model.MaxTime = st['value']
            elif op == 'Query':
                c = b.countries[st['country']]
                if st['what'] == 'zone':
                    c.CurrencyZone.GetSectors()
                elif st['what'] == 'dump':
                    model.DumpEquations()
                elif st['what'] == 'loginfo':
                    model.LogInfo()
                elif st['what'] == 'lookup':
                    # looking a sector up by its code while the model is still being put together: it may not be
                    # found yet (full codes are assigned by main()), and must leave nothing behind either way
                    try:
                        model.LookupSector(st.get('code', 'HH'))
                    except KeyError:
                        pass
                else:
                    model.GetSectors()
                    c.GetSectors()
            elif op == 'CrossRate':
                # the public convenience call: the name of the cross rate between two currencies (creates the
                # variable in EXT.XR on first use); may be asked long before main()
                name = b.countries['EXT'].GetCrossRate(st['local'], st['foreign'])
                b.names_handed_out.append((idx, 'EXT.XR', '%s_%s' % (st['local'], st['foreign']), name))
            elif op == 'GetName':
                name = sec(st['sector']).GetVariableName(st['var'])
                b.names_handed_out.append((idx, st['sector'], st['var'], name))
            elif op == 'Main':
                saw_main = True
                if not stop_before_main:
                    _main(b, solve)
            else:
                raise KeyError('unknown statement ' + op)
        except Exception as e:  # noqa - errors of the code under test are observations
            b.error = e
            b.error_at = idx
            break
    if b.error is None and not saw_main and not stop_before_main:
        try:
            _main(b, solve)
        except Exception as e:  # noqa
            b.error = e
            b.error_at = len(program)
    # gold-standard sectors add initial conditions themselves
    if model.InitialConditions:
        b.has_ic = True
    if b.final_text:
        try:
            b.system = project.parse_system(b.final_text)
        except project.ProjectionError as e:
            b.exact_error = 'projection: %s' % e
        if oracle and b.system is not None:
            try:
                T = horizon if horizon is not None else (b.system.max_time or model.MaxTime)
                b.exact = exact.solve(b.system, T)
            except exact.Undecided as e:
                b.exact_error = 'undecided: %s' % e
            except ZeroDivisionError:
                b.exact_error = 'undecided: division by zero in exact arithmetic'
    return b


def _ledger_snapshot(b):
    """Ledgers F / INC of every sector with financial assets as the sector objects hold them right now (local
    names; names containing '__' are full names of other sectors' variables).  -> list of dicts with monomials
    as lists of [full code of the owning sector, local name]."""
    import tokenize
    from io import BytesIO
    out = []
    for ref, s in sorted(b.sectors.items()):
        if not getattr(s, 'HasF', False):
            continue
        rec = {'ref': ref}
        for key in ('F', 'INC'):
            rows = []
            eq = s.EquationBlock[key]
            for t in eq.TermList:
                c = float(t.Constant)
                if t.IsBlob and t.Term == '':
                    continue
                if c == 0.0 and not t.IsBlob:
                    continue
                names = []
                for tok in tokenize.tokenize(BytesIO(t.Term.encode('utf-8')).readline):
                    if tok.type == tokenize.NAME:
                        if '__' in tok.string:
                            fc, loc = tok.string.split('__', 1)
                            names.append([fc, loc])
                        else:
                            names.append([s.FullCode, tok.string])
                rows.append({'c': int(c) if c == int(c) else 0, 'int': c == int(c), 'f': names})
            rec[key] = rows
        out.append(rec)
    return out


def _instrument(b):
    """Harness-side observation of the phases of Model.main() (nothing in the repository is touched): every
    sector's _GenerateEquations and the model's cash-flow / exogenous phases are wrapped on the *instances*; after
    each, the ledgers are recorded.  If the methods do not exist (a refactor), no phase is recorded and the
    whole-of-main() validation still applies."""
    m = b.model
    b.phases = []

    def snap(kind, **kw):
        try:
            b.phases.append(dict(kind=kind, ledgers=_ledger_snapshot(b), **kw))
        except Exception as e:  # noqa - observation only
            b.phases.append(dict(kind=kind, ledgers=[], unobservable='%s: %s' % (type(e).__name__, e), **kw))

    for s in m.GetSectors():
        orig = getattr(s, '_GenerateEquations', None)
        if orig is None:
            continue

        def wrapped(orig=orig, s=s):
            r = orig()
            snap('Generate', fullcode=s.FullCode)
            return r
        try:
            s._GenerateEquations = wrapped
        except Exception:  # noqa
            pass
    for name, kind in (('_GenerateRegisteredCashFlows', 'CashFlows'), ('_ProcessExogenous', 'Exogenous')):
        orig = getattr(m, name, None)
        if orig is None:
            continue

        def wrapped2(orig=orig, kind=kind):
            r = orig()
            snap(kind)
            return r
        try:
            setattr(m, name, wrapped2)
        except Exception:  # noqa
            pass


def _main(b, solve):
    """Always through the public entry point Model.main() (a change to the pipeline inside main() must be seen)."""
    m = b.model
    b.main_ran = True
    if getattr(b, 'observe_phases', False):
        _instrument(b)
    try:
        m.main()
    finally:
        b.final_text = m.FinalEquations or None
