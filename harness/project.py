"""
project.py - the abstraction (projection) function for equation text.

An *independent* reader of the text block that Model.main() emits / EquationSolver accepts:
it does not use sfc_models' own parser.  Result: a `System` with, per variable, its class
(endogenous / lagged / exogenous), right-hand sides as Python ast, initial conditions, run
parameters, duplicate definitions, and name sets.

Numbers are converted from their *source spelling* to Fractions ('0.2' is 1/5).
"""
from __future__ import annotations

import ast
import re
from fractions import Fraction

_LAG = re.compile(r'^([A-Za-z_][A-Za-z0-9_]*)\s*\(\s*[kt]\s*-\s*1\s*\)$')
_PLACEHOLDER = re.compile(r'(?<![A-Za-z0-9])_\d+__[A-Za-z_][A-Za-z0-9_]*')

MATH_FUNCS = {'max', 'min', 'abs', 'float', 'sum', 'pow', 'round', 'sqrt', 'exp', 'log', 'log10', 'sin', 'cos',
              'tan', 'floor', 'ceil', 'pi', 'e'}


class ProjectionError(Exception):
    pass


class System(object):
    def __init__(self):
        self.endo = {}         # var -> ast node
        self.endo_text = {}    # var -> rhs text
        self.lagged = {}       # var -> source var
        self.exo = {}          # var -> list of Fraction
        self.exo_text = {}
        self.ic = {}           # var -> Fraction
        self.max_time = None
        self.err_tol = None
        self.order = []        # all left-hand sides in order of appearance (endo+lagged)
        self.dupes = []        # variables defined more than once
        self.malformed = []    # lines we could not read
        self.has_user_t = False
        self.comments = {}     # var -> comment text

    def defined(self):
        return set(self.endo) | set(self.lagged) | set(self.exo)

    def names_used(self):
        used = {}
        for v, node in self.endo.items():
            used[v] = names_in(node)
        for v, s in self.lagged.items():
            used[v] = {s}
        return used

    def placeholders(self, raw_text):
        return sorted(set(_PLACEHOLDER.findall(raw_text)))


def names_in(node):
    return {n.id for n in ast.walk(node) if isinstance(n, ast.Name)}


def called_names(node):
    return {n.func.id for n in ast.walk(node) if isinstance(n, ast.Call) and isinstance(n.func, ast.Name)}


def frac_of_constant(v):
    if isinstance(v, bool):
        raise ProjectionError('boolean constant')
    if isinstance(v, int):
        return Fraction(v)
    if isinstance(v, float):
        return Fraction(repr(v))
    raise ProjectionError('constant %r' % (v,))


def eval_list_expr(node):
    """Evaluate an exogenous definition: lists/tuples of numbers combined with + and * int, or a scalar."""
    if isinstance(node, ast.Expression):
        node = node.body
    if isinstance(node, (ast.List, ast.Tuple)):
        out = []
        for e in node.elts:
            out.append(eval_scalar(e))
        return out
    if isinstance(node, ast.BinOp):
        if isinstance(node.op, ast.Add):
            a, b = eval_list_expr(node.left), eval_list_expr(node.right)
            if isinstance(a, list) and isinstance(b, list):
                return a + b
            if not isinstance(a, list) and not isinstance(b, list):
                return a + b
            raise ProjectionError('list + scalar')
        if isinstance(node.op, ast.Mult):
            a, b = eval_list_expr(node.left), eval_list_expr(node.right)
            if isinstance(a, list) and not isinstance(b, list):
                if b.denominator != 1:
                    raise ProjectionError('list * non-integer')
                return a * int(b)
            if isinstance(b, list) and not isinstance(a, list):
                if a.denominator != 1:
                    raise ProjectionError('list * non-integer')
                return b * int(a)
            if not isinstance(a, list) and not isinstance(b, list):
                return a * b
            raise ProjectionError('list * list')
    return eval_scalar(node)


def eval_scalar(node):
    if isinstance(node, ast.Constant):
        return frac_of_constant(node.value)
    if isinstance(node, ast.UnaryOp) and isinstance(node.op, (ast.USub, ast.UAdd)):
        v = eval_scalar(node.operand)
        return -v if isinstance(node.op, ast.USub) else v
    if isinstance(node, ast.BinOp):
        a, b = eval_scalar(node.left), eval_scalar(node.right)
        if isinstance(node.op, ast.Add):
            return a + b
        if isinstance(node.op, ast.Sub):
            return a - b
        if isinstance(node.op, ast.Mult):
            return a * b
        if isinstance(node.op, ast.Div):
            return a / b
    raise ProjectionError('not a scalar constant: ' + ast.dump(node)[:80])


def strip_comment(line):
    pos = line.find('#')
    if pos < 0:
        return line, ''
    return line[:pos], line[pos + 1:]


def parse_system(text):
    """Read an equation block (the documented line forms)."""
    sys_ = System()
    mode = 'endo'
    seen = set()
    for raw in text.split('\n'):
        code, comment = strip_comment(raw)
        code = code.strip()
        if code == '':
            if 'exogenous' in comment.lower():
                mode = 'exo'
            continue
        if code.count('=') != 1:
            sys_.malformed.append(raw)
            continue
        lhs, rhs = [s.strip() for s in code.split('=')]
        if lhs == 'MaxTime':
            sys_.max_time = int(rhs)
            continue
        if lhs == 'Err_Tolerance':
            sys_.err_tol = float(rhs)
            continue
        if mode == 'exo':
            if lhs in seen:
                sys_.dupes.append(lhs)
            seen.add(lhs)
            sys_.exo_text[lhs] = rhs
            try:
                val = eval_list_expr(ast.parse(rhs.strip(), mode='eval'))
            except (SyntaxError, ProjectionError) as e:
                raise ProjectionError('exogenous %s: %s' % (lhs, e))
            sys_.exo[lhs] = val
            sys_.comments[lhs] = comment
            continue
        m0 = re.match(r'^([A-Za-z_][A-Za-z0-9_]*)\s*\(\s*0\s*\)$', lhs)
        if m0:
            try:
                sys_.ic[m0.group(1)] = eval_scalar(ast.parse(rhs, mode='eval').body)
            except (SyntaxError, ProjectionError) as e:
                raise ProjectionError('initial condition %s: %s' % (lhs, e))
            continue
        if not re.match(r'^[A-Za-z_][A-Za-z0-9_]*$', lhs):
            sys_.malformed.append(raw)
            continue
        if lhs in seen:
            sys_.dupes.append(lhs)
        seen.add(lhs)
        sys_.order.append(lhs)
        sys_.comments[lhs] = comment
        if lhs in ('t', 't_minus_1'):
            sys_.has_user_t = True
        ml = _LAG.match(rhs)
        if ml:
            sys_.lagged[lhs] = ml.group(1)
            sys_.endo.pop(lhs, None)
            continue
        try:
            node = ast.parse(rhs, mode='eval').body
        except SyntaxError as e:
            raise ProjectionError('cannot parse rhs of %s: %r (%s)' % (lhs, rhs, e))
        sys_.endo[lhs] = node
        sys_.endo_text[lhs] = rhs
        sys_.lagged.pop(lhs, None)
    if not sys_.has_user_t and 't' not in sys_.endo:
        sys_.endo['t'] = ast.parse('k', mode='eval').body
        sys_.endo_text['t'] = 'k'
        sys_.order.append('t')
    return sys_


# --------------------------------------------------------------------------------------
# polynomial view of a right-hand side (for ledgers): sum of signed monomials
# --------------------------------------------------------------------------------------

def poly_of(node):
    """-> dict monomial(tuple of sorted (name, exponent)) -> Fraction.  Raises ProjectionError if the
    expression is not a polynomial/Laurent polynomial in names (division only by monomials)."""
    if isinstance(node, ast.Constant):
        c = frac_of_constant(node.value)
        return {(): c} if c != 0 else {}
    if isinstance(node, ast.Name):
        return {((node.id, 1),): Fraction(1)}
    if isinstance(node, ast.UnaryOp) and isinstance(node.op, ast.USub):
        return {m: -c for m, c in poly_of(node.operand).items()}
    if isinstance(node, ast.UnaryOp) and isinstance(node.op, ast.UAdd):
        return poly_of(node.operand)
    if isinstance(node, ast.BinOp):
        if isinstance(node.op, (ast.Add, ast.Sub)):
            a = dict(poly_of(node.left))
            b = poly_of(node.right)
            sgn = 1 if isinstance(node.op, ast.Add) else -1
            for m, c in b.items():
                a[m] = a.get(m, 0) + sgn * c
                if a[m] == 0:
                    del a[m]
            return a
        if isinstance(node.op, ast.Mult):
            return poly_mul(poly_of(node.left), poly_of(node.right))
        if isinstance(node.op, ast.Div):
            den = poly_of(node.right)
            if len(den) != 1:
                raise ProjectionError('division by a non-monomial')
            (m, c), = den.items()
            inv = {tuple((n, -e) for n, e in m): 1 / c}
            return poly_mul(poly_of(node.left), inv)
    raise ProjectionError('not polynomial: ' + ast.dump(node)[:80])


def poly_mul(a, b):
    out = {}
    for m1, c1 in a.items():
        for m2, c2 in b.items():
            d = {}
            for n, e in m1 + m2:
                d[n] = d.get(n, 0) + e
            m = tuple(sorted((n, e) for n, e in d.items() if e != 0))
            out[m] = out.get(m, 0) + c1 * c2
            if out[m] == 0:
                del out[m]
    return out


def poly_key(m):
    """monomial -> canonical string  'A*B^-1' """
    if not m:
        return '1'
    return '*'.join(n if e == 1 else '%s^%d' % (n, e) for n, e in m)


def poly_json(p):
    """polynomial -> {monomial string: [num, den]} (JSON-able)"""
    return {poly_key(m): [c.numerator, c.denominator] for m, c in sorted(p.items())}
