"""Extension of C17 (thorough tier only) - life cycle of sfc_models.utils.Logger.

An EXTENSION specification: it widens what the specification covers beyond the listed properties.  It is called
at the end of harness/checks/c17.py:run() for the thorough tier and never changes a quick tier.

spec:   spec/Logger.tla (actions Register, RegisterStandard, Write, SetCutoff, Cleanup, Main; invariants
        Log_OrderPreserved, Log_UnregisteredEaten, Log_FileCreatedLazily, Log_CleanupForgets, Log_ReRegisterRejected)
TLC:    exhaustive check of two bounded instances (life cycle: Register('log'), register_standard_logs, messages to
        'log', cleanup, at most one Model.main() (with / without base name, solving / failing), all histories of length 5;
        write rules: Register('log') then all histories of length 3 over 9 message shapes x 3 cut-offs) plus a
        seeded -simulate of a deeper instance (length 10, six logs, two bases, everything enabled)
replay: every behaviour is executed on the real Logger (class-level registry of the executing process; the workers are
        separate processes) with its files in a directory under core.workdir('logger') that is empty when the
        behaviour starts.  After every call the driver
        records the exception class, the keys of Logger.log_file_handles and the kind of every value, os.path.exists
        and the content of every file of the universe, the cut-off, and whether a file object the registry once
        held was dropped without being closed.  Mode "flush": open handles are flushed before their files are read,
        so the content is judged after every call; mode "noflush" (every fourth behaviour, additionally): a file is
        only read while no handle is open on it, i.e. nothing the observer does can complete a file that
        cleanup() forgot to close.  Every behaviour ends with Logger.cleanup() (recorded as a Cleanup event) and
        Logger.priority_cutoff = 10.
trace:  the recorded executions are validated by TLC against Logger_Trace (same actions), one total verdict each.

Property clauses (reported through rep.violate as C17_Ext_<clause>; only sentences the docstrings of Logger /
register_log / Model.main state, or an explicit `raise` of the code):
  Log_OrderPreserved      the file of a log holds exactly the messages that were accepted (log registered, priority <=
                          cut-off), in call order; a filtered message is written nowhere; what was written before
                          cleanup() / main() is in the file afterwards
  Log_UnregisteredEaten   Logger() to a log that is not registered: no exception, registry and files unchanged
  Log_FileCreatedLazily   register_log / register_standard_logs create and change no file
  Log_CleanupForgets      after cleanup() (also the one main() ends with) the registry is empty and every file object it
                          held is closed
  Log_ReRegisterRejected  register_log on a registered log raises ValueError and changes nothing
Main(b, "fails"): the model names an undefined variable, main() raises; the registry must be empty afterwards all the
same (Log_CleanupForgets) and earlier messages must still be in their files (Log_OrderPreserved).
Conformance clauses (DRIFT only): exact text (indentation priority-1 spaces, newline rule, ' ' for an empty message),
registry kinds, a filtered first message creating the file (modelled as found: the handle is fetched before the
priority is looked at), which files main() touches, register_standard_logs raising / replacing.
Replay of a replay file written for a violation of this extension (its case carries "ext"):
  /venv/bin/python harness/loggercheck.py --replay <replay file>     (exit 1 = still violated, 0 = holds now)
"""
import concurrent.futures
import hashlib
import json
import math
import os
import re
import shutil
import sys
import time

if __name__ == '__main__':
    sys.path.insert(0, os.path.dirname(os.path.dirname(os.path.abspath(__file__))))

from harness import core  # noqa: E402

PREFIX = 'C17_Ext_'
STD_SUFFIX = {'log': '_log.txt', 'timeseries': '_out.txt', 'eqn': '_eqn.txt', 'step': '_iteration.txt',
              'steadystate_0': '_steadystate.txt'}
ALL_LOGS = ['log', 'eqn', 'timeseries', 'step', 'steadystate_0', 'init']
BASES = ['b1', 'b2']
OWN = 'own'
FILES = [b + '_' + lg for b in BASES + [OWN] for lg in ALL_LOGS]
_MARK = re.compile(r'@m(\d+)@')


def path_of(d, fid):
    base, lg = fid.split('_', 1)
    if base == OWN:
        return os.path.join(d, 'own_' + lg + '.txt')
    if lg in STD_SUFFIX:
        return os.path.join(d, base) + STD_SUFFIX[lg]
    return None             # no call can name such a file; part of the universe for uniformity


def message(kind, mid):
    """-> (txt, data_to_format)"""
    if kind == 'plain':
        return '@m%d@' % mid, None
    if kind == 'fmt':
        return '@m{0}@', (mid,)
    if kind == 'nl':
        return '@m%d@\n' % mid, None
    return '', None


class _Observer(object):
    def __init__(self, d, mode):
        self.d = d
        self.mode = mode
        self.paths = dict((fid, path_of(d, fid)) for fid in FILES)
        self.fid = dict((p, fid) for fid, p in self.paths.items() if p is not None)
        self.tracked = []

    def look(self, ev):
        from sfc_models.utils import Logger
        h = Logger.log_file_handles
        reg = {}
        open_paths = set()
        for lg in ALL_LOGS:
            if lg not in h:
                reg[lg] = {'kind': 'none', 'file': ''}
                continue
            v = h[lg]
            if type(v) is str:
                reg[lg] = {'kind': 'str', 'file': self.fid.get(v, '?')}
            elif hasattr(v, 'closed') and hasattr(v, 'name'):
                if not any(v is t for t in self.tracked):
                    self.tracked.append(v)
                reg[lg] = {'kind': 'closed' if v.closed else 'open', 'file': self.fid.get(v.name, '?')}
            else:
                reg[lg] = {'kind': 'other', 'file': '?'}
        for t in self.tracked:
            if not t.closed:
                open_paths.add(t.name)
                if self.mode == 'flush':
                    t.flush()
        held = [v for v in h.values() if not isinstance(v, str)]
        ev['reg'] = reg
        ev['extra'] = len([k for k in h if k not in ALL_LOGS])
        ev['unclosed'] = sum(1 for t in self.tracked if not t.closed and not any(t is v for v in held))
        c = Logger.priority_cutoff
        ev['cutoff'] = c if type(c) is int and abs(c) < 10 ** 6 else -999
        exists, seen, ids, text = {}, {}, {}, {}
        for fid in FILES:
            p = self.paths[fid]
            ex = p is not None and os.path.exists(p)
            sn = self.mode == 'flush' or p not in open_paths
            exists[fid] = bool(ex)
            seen[fid] = bool(sn)
            ids[fid] = []
            text[fid] = ''
            if ex and sn:
                with open(p) as f:
                    t = f.read()
                ids[fid] = [int(x) for x in _MARK.findall(t)][:200]
                text[fid] = t if len(t) <= 160 else 'sha1:' + hashlib.sha1(t.encode()).hexdigest()
        ev['exists'], ev['seen'], ev['ids'], ev['text'] = exists, seen, ids, text
        return ev


def _blank(a):
    return {'ev': a['a'], 'lg': a['lg'], 'b': a['b'], 'prio': a['prio'], 'endline': a['endline'], 'kind': a['kind'],
            'c': a['c'], 'id': 0, 'exc': ''}


def _run_main(base, fails):
    from sfc_models.models import Model, Country
    from sfc_models.sector import Sector
    mod = Model()
    c = Country(mod, 'C1', 'country')
    s = Sector(c, 'AA', 'sector')
    s.AddVariable('P', 'driver', '0.5*LAG_P + UNDEFINED_Q' if fails else '0.5*LAG_P + 1.0')
    s.AddVariable('LAG_P', 'lag', 'P(k-1)')
    mod.MaxTime = 2
    if base is None:
        mod.main()
    else:
        mod.main(base)


def execute(hist, d, mode):
    """Run one behaviour on the real Logger of this process, files under d; -> list of trace events."""
    from sfc_models.utils import Logger
    os.makedirs(d, exist_ok=True)
    try:
        Logger.cleanup()
    except Exception:
        pass
    Logger.log_file_handles = {}
    Logger.priority_cutoff = 10
    ob = _Observer(d, mode)
    none = {'a': 'Begin', 'lg': '', 'b': '', 'prio': 0, 'endline': False, 'kind': '', 'c': 0}
    events = [ob.look(_blank(none))]
    mid = 0
    real_stdout = sys.stdout
    try:
        final = {'a': 'Cleanup', 'lg': '', 'b': '', 'prio': 0, 'endline': False, 'kind': '', 'c': 0}
        for a in list(hist) + [final]:
            ev = _blank(a)
            try:
                act = a['a']
                if act == 'Register':
                    Logger.register_log(ob.paths[OWN + '_' + a['lg']], a['lg'])
                elif act == 'RegisterStandard':
                    Logger.register_standard_logs(os.path.join(d, a['b']))
                elif act == 'Write':
                    mid += 1
                    ev['id'] = mid
                    txt, data = message(a['kind'], mid)
                    Logger(txt, log=a['lg'], priority=a['prio'], data_to_format=data, endline=a['endline'])
                elif act == 'SetCutoff':
                    Logger.priority_cutoff = a['c']
                elif act == 'Cleanup':
                    Logger.cleanup()
                elif act == 'Main':
                    sys.stdout = open(os.devnull, 'w')
                    try:
                        _run_main(None if a['b'] == 'none' else os.path.join(d, a['b']), a['kind'] == 'fails')
                    finally:
                        sys.stdout.close()
                        sys.stdout = real_stdout
                else:
                    raise core.MachineryError('unknown action ' + act)
            except core.MachineryError:
                raise
            except Exception as e:      # recorded, never propagated
                ev['exc'] = type(e).__name__
            events.append(ob.look(ev))
    finally:
        sys.stdout = real_stdout
        try:
            Logger.cleanup()
        except Exception:
            pass
        for t in ob.tracked:
            try:
                t.close()
            except Exception:
                pass
        Logger.log_file_handles = {}
        Logger.priority_cutoff = 10
        for p in ob.paths.values():         # the directory is used again by the next behaviour of this worker
            if p is not None and os.path.exists(p):
                os.unlink(p)
    return events


def _worker(args):
    items, wd = args
    core.use_repo()
    out = []
    d = os.path.join(wd, 'p%d_%s' % (os.getpid(), items[0][0] if items else ''))
    for tid, hist in items:
        mode = 'flush' if tid[0] == 'f' else 'noflush'
        out.append((tid, execute(hist, d, mode)))
    shutil.rmtree(d, ignore_errors=True)
    return out


def run_behaviours(items, wd, workers=8):
    """items: [(tid, hist)] -> {tid: events}; executed in worker processes (one Logger registry per process)."""
    if len(items) <= 4:
        return dict(_worker((items, wd)))
    n = max(1, min(workers * 4, len(items) // 50 + 1))
    chunks = [items[i::n] for i in range(n)]
    got = {}
    with concurrent.futures.ProcessPoolExecutor(max_workers=workers) as ex:
        for part in ex.map(_worker, [(c, wd) for c in chunks]):
            got.update(part)
    return got


def validate(traces, tag='logger'):
    n = len(traces)
    jobs = min(8, os.cpu_count() or 4)
    chunk = max(500, int(math.ceil(n / float(jobs))))
    return core.validate_traces('MC_Logger_Trace', 'MC_Logger_Trace.cfg', traces, chunk=chunk, jobs=jobs, tag=tag)


def _compact(events):
    """what a reader needs of the observation: per call the registry, the files that exist and their message ids"""
    out = []
    for e in events:
        out.append({'ev': e['ev'], 'lg': e['lg'], 'b': e['b'], 'prio': e['prio'], 'endline': e['endline'],
                    'kind': e['kind'], 'c': e['c'], 'id': e['id'], 'exc': e['exc'], 'cutoff': e['cutoff'],
                    'unclosed': e['unclosed'],
                    'registry': dict((k, v['kind'] + ':' + v['file']) for k, v in e['reg'].items() if v['kind'] != 'none'),
                    'files': dict((f, e['ids'][f] if e['seen'][f] else 'open, not read') for f in FILES if e['exists'][f])})
    return out


def nontrivial(hist):
    """something is written to a registered log, or a registration is cleaned up / refused"""
    acts = [a['a'] for a in hist]
    return ('Write' in acts or 'Main' in acts) and ('Register' in acts or 'RegisterStandard' in acts or 'Main' in acts)


def judge(rep, behs, wd):
    items = []
    for i, b in enumerate(behs):
        items.append(('f%d' % i, b['hist']))
        if i % 4 == 1:
            items.append(('n%d' % i, b['hist']))
    t0 = time.time()
    observed = run_behaviours(items, wd)
    t1 = time.time()
    traces = [(tid, observed[tid]) for tid, _ in items]
    verdicts, st, tr = validate(traces)
    t2 = time.time()
    rep.traces += len(traces)
    n_prop = n_drift = 0
    for n, (tid, evs) in enumerate(traces):
        i = int(tid[1:])
        case = {'ext': 'logger', 'hist': behs[i]['hist'], 'mode': 'flush' if tid[0] == 'f' else 'noflush'}
        rep.add_case(dict(case, observed=_compact(evs)) if n < 1 else case, nontrivial(behs[i]['hist']))
        v = verdicts[tid]
        if v == 'ok:':
            continue
        kind, clause = v.split(':', 1)
        if kind == 'property':
            n_prop += 1
            name, _, what = clause.partition('@')
            rep.violate(PREFIX + name, 'logger:%s:%s' % (name, what), dict(case, observed=_compact(evs)),
                        detail='Logger extension, %s (%s); history %s' % (
                            name, what, json.dumps([[a['a'], a['lg'] or a['b'], a['prio'], a['kind']] for a in behs[i]['hist']])))
        else:
            n_drift += 1
            rep.add_drift('ext_logger_' + clause, dict(case, observed=_compact(evs)))
    return {'behaviours': len(behs), 'traces': len(traces), 'trace_validation_states': st, 'property_verdicts': n_prop,
            'drift_verdicts': n_drift, 'execute_s': round(t1 - t0, 2), 'validate_s': round(t2 - t1, 2)}


INSTANCES = [('MC_Logger_thorough.cfg', None), ('MC_Logger_thorough2.cfg', None), ('MC_Logger_sim.cfg', 1000)]


def run_logger(rep):
    """TLC on the bounded Logger instances, replay of every emitted behaviour, trace validation."""
    t_all = time.time()
    wd = core.workdir('logger')
    info = {'instances': []}
    try:
        def one(inst):
            cfg, sim = inst
            if sim:
                res = core.tlc('MC_Logger', cfg, workers=1, tag='logger', simulate=sim, depth=12, seed=rep.seed % (2 ** 31))
                m = re.search(r'The number of states generated: (\d+)', res.stdout)
                if m:
                    res.states = int(m.group(1))
            else:
                res = core.tlc('MC_Logger', cfg, workers=1, tag='logger')
            return res
        with concurrent.futures.ThreadPoolExecutor(max_workers=len(INSTANCES)) as ex:
            results = list(ex.map(one, INSTANCES))
        seen = set()
        behs = []
        for (cfg, sim), res in zip(INSTANCES, results):
            if res.violated:
                raise core.MachineryError('extension spec Logger: %s violated in %s' % (res.violated, cfg))
            rep.add_tlc(res, ('extension Logger simulate ' if sim else 'extension Logger exhaustive ') + cfg)
            got = core.json_of_printed(res, 'BEH')
            if not got:
                raise core.MachineryError('TLC emitted no Logger behaviours for ' + cfg)
            new = 0
            for b in got:
                key = core.canonical(b)
                if key not in seen:
                    seen.add(key)
                    behs.append(b)
                    new += 1
            info['instances'].append({'cfg': cfg, 'simulate': sim or 0, 'states_generated': res.states,
                                      'distinct_states': res.distinct, 'wall_s': round(res.wall, 2), 'behaviours': new})
            del res.printed[:]
            res.stdout = ''
        info.update(judge(rep, behs, wd))
    finally:
        core.cleanup(wd)
    info['wall_s'] = round(time.time() - t_all, 2)
    rep.extra['extension_logger'] = info
    rep.rule += ('; extension Logger (thorough): all maximal behaviours of the bounded Logger instances + %d simulated '
                 'ones, each executed on the real Logger (mode flush; every fourth one also mode noflush)' % INSTANCES[2][1])
    return info


def replay_case(case):
    """re-execute the case of a replay file written for a C17_Ext_ violation; -> exit code"""
    core.use_repo()
    wd = core.workdir('loggerr')
    try:
        tid = ('f' if case.get('mode', 'flush') == 'flush' else 'n') + '0'
        observed = run_behaviours([(tid, case['hist'])], wd)
        verdicts, _, _ = validate([(tid, observed[tid])], tag='loggerr')
    finally:
        core.cleanup(wd)
    print(json.dumps({'history': case['hist'], 'mode': case.get('mode'), 'observed_now': _compact(observed[tid])}, indent=1))
    v = verdicts[tid]
    if v.startswith('property:'):
        name, _, what = v.split(':', 1)[1].partition('@')
        print('VIOLATION property=C17 (extension Logger)')
        print('  clause=%s%s signature=logger:%s:%s' % (PREFIX, name, name, what))
        return 1
    print('replay: the extension clauses hold on this case now (%s)' % v)
    return 0


if __name__ == '__main__':
    if len(sys.argv) == 3 and sys.argv[1] == '--replay':
        with open(sys.argv[2]) as f:
            sys.exit(replay_case(json.load(f)['case']))
    if len(sys.argv) == 2 and sys.argv[1] == '--run':
        core.use_repo()
        r = core.Report('C17', 'thorough', core.tier_and_seed()[1])
        print(json.dumps(run_logger(r), indent=1))
        for v_ in r.violations[:10]:
            print('VIOLATION', v_.clause, v_.signature, v_.detail[:300])
        print('drift', dict((k, v_['count']) for k, v_ in r.drift.items()))
        sys.exit(1 if r.violations else 0)
    sys.exit('usage: loggercheck.py --replay <replay file> | --run')
