"""The content of MANIFEST.json, kept as a table so that it stays consistent."""
import json
import os

VERIF = os.path.dirname(os.path.dirname(os.path.abspath(__file__)))
BASELINE = ("cd /repo && /venv/bin/python -m pytest -ra -q -p no:cacheprovider --timeout=900 "
            "--continue-on-collection-errors")

TRUST = ("Trusted: TLC; the replay driver and projection in harness/checks; Python eval/tokenize. "
         "Exhaustive only within the stated bounds of the TLC instance; beyond them seeded generation.")

# id -> (spec modules, technique, level text, design ref)
CHECKS = {
    'C12': (['Equation', 'Equation_Trace'],
            'TLA+ spec Equation.tla model-checked exhaustively by TLC; every TLC-generated behaviour replayed on the real '
            'Equation/Term/create_equation_from_terms; recorded executions validated by TLC against Equation_Trace.tla',
            'All histories Start(kind,lead); AddTerm^n (n<=2 quick, <=3 thorough) and all term lists (<=2/<=3) of the bounded '
            'instance are enumerated by TLC, the invariants C12_* hold in every state, and every behaviour is executed on the '
            'real classes with the rendered text evaluated on two integer valuations; TLC judges each observed trace.',
            'DESIGN.md section 6 C12'),
}

PENDING = {}


def build():
    props = [json.loads(l)['id'] for l in open(os.path.join(VERIF, 'properties.jsonl'))]
    checks = []
    for pid in props:
        if pid not in CHECKS:
            continue
        mods, tech, text, ref = CHECKS[pid]
        checks.append({
            'property_id': pid,
            'quick_cmd': 'bin/check %s --tier quick' % pid,
            'thorough_cmd': 'bin/check %s --tier thorough' % pid,
            'evidence_file': '/verif/evidence/%s.json' % pid,
            'replay_cmd_template': 'bin/check %s --replay {path}' % pid,
            'engine': 'tlc+replay',
            'level_claimed': {'category': 'model_checking', 'text': text, 'design_ref': ref},
            'level_note': TRUST,
            'technique': tech,
        })
    na = []
    for pid in props:
        if pid not in CHECKS:
            na.append({'property_id': pid,
                       'reason': PENDING.get(pid, 'check not built yet in this round (planned, see DESIGN.md section 6); not claimed until it exists')})
    engines = [
        {'name': 'tlc-exhaustive', 'path': 'spec/', 'kind_free_text': 'TLA+ specifications model-checked by TLC 1.8 (bounded instances MC_*.cfg)',
         'serves_properties': sorted(CHECKS)},
        {'name': 'tlc-trace', 'path': 'spec/*_Trace.tla', 'kind_free_text': 'batched trace validation of recorded executions of the real code',
         'serves_properties': sorted(CHECKS)},
        {'name': 'replay-driver', 'path': 'harness/checks/', 'kind_free_text': 'executes TLC-generated behaviours on the real sfc_models objects and records what they did',
         'serves_properties': sorted(CHECKS)},
    ]
    return {
        'version': 1,
        'setup_cmd': 'bin/setup',
        'hooks': {
            'guard': 'SFC_MODELS_VERIF',
            'enable': 'No source hooks: the checks import sfc_models from /repo (or $SFC_REPO) and observe it through its public API and harness-side wrappers; SFC_MODELS_VERIF=1 is set by the harness only.',
            'baseline_off_cmd': BASELINE,
            'source_commits': [],
            'add_only': True,
        },
        'engines': engines,
        'checks': checks,
        'not_applicable': na,
        'notes': 'fix: commits in /repo are listed in known_findings.json (fixed entries). Exit 2 = machinery failure.',
    }
