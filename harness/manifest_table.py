"""The content of MANIFEST.json, kept as a table so that it stays consistent."""
import json
import os

VERIF = os.path.dirname(os.path.dirname(os.path.abspath(__file__)))
BASELINE = ("cd /repo && /venv/bin/python -m pytest -ra -q -p no:cacheprovider --timeout=900 "
            "--continue-on-collection-errors")

TRUST = ("Trusted: TLC; the replay driver and projection in harness/checks; Python eval/tokenize. "
         "Exhaustive only within the stated bounds of the TLC instance; beyond them seeded generation.")

# id -> (spec modules, technique, level text, design ref)
MB = ('TLA+ spec ModelBuild.tla (declaration + main() pipeline of every sector kind, ledgers as bags of signed monomials) model-checked by TLC over the blueprint family and all declaration orders (identities evaluated in Z_10007); TLC-generated (blueprint, order) behaviours rebuilt with the real classes, solved exactly over Fractions and validated by TLC against ModelBuild_Trace.tla; every model built by the repository\'s own example scripts is harvested at run time and judged by the same trace spec (event Harvested)')

CHECKS = {
    'C01': (['ModelBuild', 'ModelBuild_Trace'], MB,
            'TLC checks C01_SFC (zone sum of asset changes + FX position = 0 with lags taken from a consistent previous period) '
            'in every final state of the bounded ModelBuild instance; sampled behaviours are rebuilt with the real classes and the '
            'identity is evaluated exactly (Fractions) for every zone and period k>=2 (k>=1 without initial conditions); the '
            'observed ledgers must equal the ledgers the spec predicts (drift otherwise).',
            'DESIGN.md section 6 C01'),
    'C02': (['Solver', 'Solver_Trace'],
            'TLA+ spec Solver.tla (per-period control structure: sweeps, error class, cap, raise/append/decorate) model-checked '
            'by TLC; TLC-generated control behaviours realised as real equation blocks, plus seeded random systems with known '
            'Lipschitz bound; per-period events of the real EquationSolver validated by TLC against Solver_Trace.tla; whole solves with the initial-steady-state option on validated the same way at the tolerance the block states',
            'TLC enumerates every outcome sequence (converge / not yet / overflow / transient or persistent evaluation error) '
            'within Cap and Horizon bounds with C02_SolvedOnlyIfConverged; each is realised on the real solver; on every returned '
            'solve the residual / decorative / lagged / exogenous predicates (exact Fractions from the reported floats) must hold.',
            'DESIGN.md section 6 C02'),
    'C03': (['Reduction', 'Reduction_Trace'],
            'TLA+ spec Reduction.tla (FindExactMatches with its stale list, Rebuild, MoveDecorative; per-period semantics Sol) '
            'model-checked by TLC; every TLC-generated system solved by two real solvers (reduction on / off) and compared; '
            'traces validated by TLC against Reduction_Trace.tla',
            'All acyclic systems over <=2 (quick, plus a 3-variable slice) / 3 variables (thorough, 4 sampled) with aliases, lags, '
            'constants, exogenous, time and initial conditions are enumerated by TLC with C03_SameSolution / C03_Partition; '
            'observed on/off series must be identical for every variable and k>=0; cyclic contractive systems within a proven bound.',
            'DESIGN.md section 6 C03'),
    'C04': (['ModelBuild', 'ModelBuild_Trace'], MB,
            'TLC checks C04_MarketsClear / C04_DemandersBooked in every final state; on rebuilt models every goods, labour, money '
            'and deposit market is checked exactly for every period: demand = sum of declared demanders, supply = demand, '
            'allocations sum to supply, participants booked what the market assigns (cross rate for foreign suppliers), portfolios add up.',
            'DESIGN.md section 6 C04'),
    'C05': (['ModelBuild', 'ModelBuild_Trace', 'Names', 'Names_Trace'], MB + '; plus spec Names.tla (placeholder life cycle) replayed on a real model',
            'TLC checks C05_Closed on the abstract final state; on rebuilt models (programs embed names requested before full codes '
            'exist in sector equations, supplier rules and global equations) the emitted text is checked for placeholders, duplicate '
            'or non-canonical names, dangling references and meaning preservation against the sector-local equations.',
            'DESIGN.md section 6 C05'),
    'C06': (['Sector', 'Sector_Trace'],
            'TLA+ spec Sector.tla (variable definitions, F / INC ledgers as coefficient bags, exclusions, registration log) '
            'model-checked by TLC; every TLC-generated history replayed on a real Sector inside a real Model with the ledgers '
            'evaluated on two integer valuations after every call; declare-then-pay histories also stated through Model.RegisterCashFlow + main(); traces validated by TLC against Sector_Trace.tla',
            'All histories (<=3 quick, <=4 thorough) of AddVariable / AddCashFlow / Exclude / SetRHS over the bounded alphabet are '
            'enumerated by TLC with C06_F, C06_INC, C06_DefineOnce stated over the registration history; each is executed on the '
            'real classes and judged call by call.',
            'DESIGN.md section 6 C06'),
    'C07': (['ModelBuild', 'ModelBuild_Trace'], MB,
            'TLC checks C07_NumeraireValueZero and C07_RefusedWithoutExternal over all two-currency blueprints; rebuilt models use '
            'non-unit time-varying exchange rates and are checked exactly: credit = x*XR_src/XR_tgt, numeraire value of the FX '
            'position zero, numeraire flat for paired flows, refusal without an external sector.',
            'DESIGN.md section 6 C07'),
    'C08': (['ModelBuild', 'ModelBuild_Trace'], MB,
            'TLC checks C08_OrderIndependent (final abstract state of every dependency-respecting declaration order equals the '
            'canonical order\'s) over all orders of the instance; sampled orders are rebuilt with the real classes together with the '
            'canonical order (same parameters) and compared variable by variable on exact series (observed vs observed).',
            'DESIGN.md section 6 C08'),
    'C09': (['Book', 'Rat', 'Book_Trace'],
            'TLA+ spec Book.tla (SIM / SIMEX1 / PC recursions over exact rationals) model-checked by TLC on a designed parameter '
            'grid; every grid behaviour rebuilt with the real gl_book builders, the emitted equations solved exactly and compared '
            'rational by rational by TLC (Book_Trace); off-grid seeded parameters judged by a Python mirror of StepOp bound to TLC',
            'TLC enumerates the whole grid (book identities as invariants) and emits the closed-form series; the real builders must '
            'reproduce them exactly (exact oracle) and within 50*tol (real solver); random 2-8 digit parameters, paths and stocks, '
            'horizons up to 12, and the hand-coded iterative SIM are compared with the same recursion.',
            'DESIGN.md section 6 C09'),
    'C14': (['Parser', 'Parser_Trace'],
            'TLA+ spec Parser.tla (one action per documented line form x trailing-comment class x spacing) model-checked by TLC; '
            'every TLC-generated block rendered and fed to the real EquationParser, comment-free twins and hostile-description '
            'model builds compared; traces validated by TLC against Parser_Trace.tla',
            'All line sequences (<=3 quick, <=4 thorough) of the bounded alphabet are enumerated by TLC with the C14_* invariants; '
            'each block is parsed by the real parser and judged class by class; with/without comments must give identical parser '
            'lists and solved series; SIM built with hostile descriptions must give identical results.',
            'DESIGN.md section 6 C14'),
    'C10': (['Horizon', 'Horizon_Trace'],
            'TLA+ spec Horizon.tla (four time-zero passes, per-period append, horizon set in the block or on the solver) '
            'model-checked by TLC; TLC-generated blocks (exogenous forms x initial-condition classes x horizons) solved by the '
            'real EquationSolver and through the Model API; supplied vs observed data validated by TLC against Horizon_Trace.tla',
            'TLC enumerates the exogenous specifications (list, tuple, expression, scalar; rejected forms), initial conditions on '
            'every variable class and horizons with C10_Lengths / ExoVerbatim / ICVerbatim / LagShift / TimeAxis / Rejects; each block '
            'is solved for real and compared with exactly the data that was supplied (exact float equality).',
            'DESIGN.md section 6 C10'),
    'C11': (['Solver', 'Solver_Trace', 'Reject', 'Reject_Trace'],
            'TLA+ specs Solver.tla (cap, error classification, prefix/lengths after failure) and Reject.tla (invalid names and '
            'declarations) model-checked by TLC; control behaviours and declaration sequences replayed on the real solver / '
            'model classes; events validated by TLC against Solver_Trace.tla and Reject_Trace.tla',
            'TLC enumerates failing and succeeding period sequences (C11_BoundedSweeps, C11_FailureRaises, C11_PrefixIntact, '
            'liveness C11_Terminates under weak fairness with the uncapped loop as TLC\'s lasso, '
            'C11_EqualLengthsAfterFailure) and every invalid declaration position; the real code must raise the right error class '
            'within cap+1 sweeps with earlier periods intact, solve every sup-norm contraction (<=0.8) within the default cap, and '
            'reject every reserved name / duplicate / ill-formed declaration before numbers exist.',
            'DESIGN.md section 6 C11'),
    'C12': (['Equation', 'Equation_Trace', 'EquationObj', 'EquationObj_Trace'],
            'TLA+ spec Equation.tla model-checked exhaustively by TLC; every TLC-generated behaviour replayed on the real '
            'Equation/Term/create_equation_from_terms; recorded executions validated by TLC against Equation_Trace.tla',
            'All histories Start(kind,lead); AddTerm^n (n<=2 quick, <=3 thorough) and all term lists (<=2/<=3) of the bounded '
            'instance (plus Term objects with weights half / one / one and a half, re-used across two equations) are enumerated by TLC, the invariants C12_* hold in every state, and every behaviour is executed on the '
            'real classes with the rendered text evaluated on two integer valuations; TLC judges each observed trace.',
            'DESIGN.md section 6 C12'),
    'C13': (['Tokens', 'Tokens_Trace'],
            'TLA+ spec Tokens.tla (token-level grammar, simultaneous substitution) model-checked by TLC; TLC-generated '
            '(expression, map) behaviours rendered in six layouts and passed to the real replace_token / '
            'replace_token_from_lookup / list_tokens and, through the callers named in the anchor, to Equation / EquationBlock.ReplaceTokensFromLookup; results re-tokenised and validated by TLC against Tokens_Trace.tla',
            'All expressions of the bounded grammar and all partial maps (swaps, chains, merges) are enumerated by TLC with the '
            'C13_* invariants; every behaviour is executed on the real functions and judged token by token and by value.',
            'DESIGN.md section 6 C13'),
    'C15': (['Steady', 'Steady_Trace'],
            'TLA+ spec Steady.tla (copy, freeze, run, the three-step acceptance test per variable, install / reject) '
            'model-checked by TLC over a signed (prev, last, drift) grid; every grid class realised by real equation systems; the '
            'real CalculateInitialSteadyState plus one further real step validated by TLC against Steady_Trace.tla',
            'TLC enumerates the acceptance decision for every grid class of 1-2 (quick) / 3 variables with C15_AcceptedIsSteady, '
            'C15_OtherwiseRaises and the action property C15_LeavesSolverUntouched; each class is realised (stable, drifting, growing, '
            'oscillating, sign-changing systems) and an accepted state must not move by more than the tolerance in one more period.',
            'DESIGN.md section 6 C15'),
    'C16': (['Results', 'Results_Trace'],
            'TLA+ spec Results.tla (store, handed-out lists, cutoff, suppression, variable list) model-checked by TLC; all call '
            'histories replayed on a real Model / EquationSolver / BaseSolver with deep snapshots after every call; traces '
            'validated by TLC against Results_Trace.tla',
            'All histories (<=4 quick, <=5 thorough) of Get / MutateHeld / SetSuppress / SetCutoff / RenderTable / BaseCsv are '
            'enumerated by TLC with the action property C16_ReadsArePure and invariants; each is executed on the real objects.',
            'DESIGN.md section 6 C16'),
    'C17': (['Process', 'Process_Trace'],
            'TLA+ spec Process.tla (process-wide id counter and logs, per-model and per-solver state, cached variable list, '
            'trace settings) model-checked by TLC; every interleaving executed in real Python processes (sequentially '
            'accumulating history) and compared with the same model / block run alone in a fresh subprocess; traces '
            'validated by TLC against Process_Trace.tla',
            'All histories (<=5 quick, <=6 thorough) of NewModel / Declare / Main / RegisterLogs / Cleanup / Solve / SolveAgain / '
            'SetTrace / Reparse are enumerated by TLC with C17_HistoryIndependent, C17_ResolveIdempotent, C17_ReparseClean; every '
            'model and solver must give bit-identical series to its fresh-process reference, and a re-parsed solver exactly the '
            'new block\'s variables.',
            'DESIGN.md section 6 C17'),
    'C18': (['ModelBuild', 'ModelBuild_Trace'], MB,
            'TLC checks every ModelBuild invariant on renamed twins and on joint models of two currencies, plus C18_ZoneIsolation; '
            'sampled behaviours are rebuilt as generated and under a seeded injective renaming of country / sector / goods-labour '
            'codes, and sets of 2-3 economies are built alone and jointly (with / without an unused external sector); exact series '
            'are compared under the renaming / the country prefix (observed vs observed) and the joint dependency graph is '
            'checked for cross-zone references.',
            'DESIGN.md section 6 C18'),
    'C19': (['Table', 'Table_Trace'],
            'TLA+ spec Table.tla (names as code-point sequences, header order, row count) model-checked by TLC; TLC-generated '
            'holders replayed on a real TimeSeriesHolder with seeded values and formats, solved models and solver blocks '
            'included; tables parsed back and validated by TLC against Table_Trace.tla',
            'All name sets / ragged lengths of the bounded instance enumerated by TLC with C19_Header / C19_RowCount; every '
            'behaviour rendered by the real code, header/rows/cells judged by TLC on the observed table.',
            'DESIGN.md section 6 C19'),
    'C20': (['Codegen', 'Codegen_Trace'],
            'TLA+ spec Codegen.tla (parser lists -> pack / iterate / unpack name sets of the generated module -> its step state) '
            'model-checked by TLC; every TLC-generated block given to the real IterativeMachineGenerator, the written module '
            'imported and run; events validated by TLC against Codegen_Trace.tla',
            'TLC enumerates the block grammar (with / without user time axis, lags, initial conditions, exogenous lists, constants) '
            'with C20_Closed / C20_HeaderTimeFirst / C20_StepAppendsAll; each generated module must import, run, satisfy its equations '
            'on its own values (exact Fractions) and agree with the in-process solver.',
            'DESIGN.md section 6 C20'),
}

PENDING = {}


def build():
    props = [json.loads(l)['id'] for l in open(os.path.join(VERIF, 'properties.jsonl'))]
    checks = []
    for pid in props:
        if pid not in CHECKS:
            continue
        mods, tech, text, ref = CHECKS[pid]
        checks.append({
            'property_id': pid,
            'quick_cmd': 'bin/check %s --tier quick' % pid,
            'thorough_cmd': 'bin/check %s --tier thorough' % pid,
            'evidence_file': '/verif/evidence/%s.json' % pid,
            'replay_cmd_template': 'bin/check %s --replay {path}' % pid,
            'engine': 'tlc+replay',
            'level_claimed': {'category': 'model_checking', 'text': text, 'design_ref': ref},
            'level_note': TRUST,
            'technique': tech,
        })
    na = []
    for pid in props:
        if pid not in CHECKS:
            na.append({'property_id': pid,
                       'reason': PENDING.get(pid, 'check not built yet in this round (planned, see DESIGN.md section 6); not claimed until it exists')})
    engines = [
        {'name': 'tlc-exhaustive', 'path': 'spec/', 'kind_free_text': 'TLA+ specifications model-checked by TLC 1.8 (bounded instances MC_*.cfg)',
         'serves_properties': sorted(CHECKS)},
        {'name': 'tlc-trace', 'path': 'spec/*_Trace.tla', 'kind_free_text': 'batched trace validation of recorded executions of the real code',
         'serves_properties': sorted(CHECKS)},
        {'name': 'replay-driver', 'path': 'harness/checks/', 'kind_free_text': 'executes TLC-generated behaviours on the real sfc_models objects and records what they did',
         'serves_properties': sorted(CHECKS)},
    ]
    return {
        'version': 1,
        'setup_cmd': 'bin/setup',
        'hooks': {
            'guard': 'SFC_MODELS_VERIF',
            'enable': 'No source hooks: the checks import sfc_models from /repo (or $SFC_REPO) and observe it through its public API and harness-side wrappers; SFC_MODELS_VERIF=1 is set by the harness only.',
            'baseline_off_cmd': BASELINE,
            'source_commits': [],
            'add_only': True,
        },
        'engines': engines,
        'checks': checks,
        'not_applicable': na,
        'notes': 'fix: commits in /repo are listed in known_findings.json (fixed entries). Exit 2 = machinery failure.',
    }
