"""
modelcheck.py - the shared driver of the model-level properties (C01, C04, C05, C07, and the model
clauses of C06 / C11): TLC explores spec/ModelBuild.tla over the blueprint family and all
declaration orders, every emitted (blueprint, order) behaviour can be rebuilt with the real
classes, projected (harness/modelprops.py, exact oracle) and validated by TLC against
spec/ModelBuild_Trace.tla.
"""
from __future__ import annotations

import concurrent.futures
import json
import os
import random
from fractions import Fraction

from harness import core

HORIZON = 4


def generate(rep, cfg, workers=8):
    """Exhaustive TLC run over the blueprint family -> (blueprints by name, behaviours)."""
    res = core.tlc('MC_ModelBuild', cfg, workers=workers, tag='mb', stack='256m', timeout=3000)
    if res.violated:
        raise core.MachineryError('ModelBuild invariant %s violated in %s' % (res.violated, cfg))
    rep.add_tlc(res, 'exhaustive ModelBuild ' + cfg)
    bps = {}
    for v in core.json_of_printed(res, 'BPS'):
        for b in v:
            bps[b['name']] = b
    behs = core.json_of_printed(res, 'BEH')
    if not bps or not behs:
        raise core.MachineryError('ModelBuild run emitted no blueprints/behaviours')
    # a behaviour is (name, decl); drop duplicates produced by several workers
    seen = {}
    for b in behs:
        seen[(b['name'], tuple(b['decl']))] = b
    return bps, list(seen.values())


def _dec(rnd, lo, hi, places=2):
    q = 10 ** places
    return rnd.randint(int(lo * q), int(hi * q)) / q


def program_for(bp, decl, seed, horizon=HORIZON, with_ic=None, region_mode='random', api_routes=True):
    """The construction script (model program) of a blueprint declared in the order `decl`.
    Parameters, exogenous paths and exchange rates are seeded random decimals."""
    rnd = random.Random('%s|%s' % (bp['name'], seed))
    secs = bp['sectors']
    n = len(secs)

    def ref(i):
        return secs[i - 1]['cc'] + '.' + secs[i - 1]['code']

    prog = []
    if bp.get('book'):
        module, cls = bp['book'].split(':')
        return [{'op': 'Book', 'module': module, 'cls': cls, 'book_exogenous': True},
                {'op': 'MaxTime', 'value': horizon}]
    if bp['external'] == 'first':
        prog.append({'op': 'External'})
    prev_cur = None
    for c in bp['countries']:
        use_region = rnd.random() < 0.5          # (drawn in every mode, so that the later draws do not shift)
        if prev_cur is not None and c['cur'] == prev_cur and (use_region or region_mode == 'always'):
            prog.append({'op': 'Country', 'code': c['code'], 'region': True})
        else:
            prog.append({'op': 'Country', 'code': c['code'], 'currency': c['cur']})
        prev_cur = c['cur']
    params = {}
    for i, d in enumerate(secs, 1):
        # every random draw is made here, in canonical sector order, so that the parameters of a blueprint do not
        # depend on the declaration order being replayed
        params[i] = {'alpha_income': _dec(rnd, 0.5, 0.9), 'alpha_fin': _dec(rnd, 0.1, 0.5),
                     'margin': rnd.choice([0.1, 0.2, 0.25]), 'taxrate': _dec(rnd, 0.1, 0.3),
                     'wgt': _dec(rnd, 0.2, 0.7), 'gift': _dec(rnd, 0.01, 0.09), 'gold': _dec(rnd, 10, 80, 0)}
        # zero is an admissible value of a rate: one build in eight has an untaxed economy, a propensity of zero
        # to consume out of wealth, or a gift rate of zero
        z = rnd.random()
        if z < 0.05:
            params[i]['taxrate'] = 0.0
        elif z < 0.09:
            params[i]['alpha_fin'] = 0.0
        elif z < 0.125:
            params[i]['gift'] = 0.0
        if d.get('zerorate'):
            params[i]['taxrate'] = 0.0
    declared = set()
    post = []
    pending_tre = []
    # read-only questions asked while the model is being put together (they must not change anything): the
    # sectors of a currency zone, a dump of the equations, the information log (which generates full codes early)
    qrnd = random.Random('%s|%s|queries' % (bp['name'], seed))
    queries = {}
    if qrnd.random() < 0.6 and len(decl) >= 2:
        for what in qrnd.sample(['zone', 'dump', 'loginfo', 'model_sectors', 'lookup'], 2):
            queries.setdefault(qrnd.randint(1, len(decl) - 1), []).append(what)
    if bp['external'] == 'last' and qrnd.random() < 0.5:
        # the country list will still grow (the ExternalSector comes last): also ask right at the start
        queries.setdefault(1, []).append(qrnd.choice(['lookup', 'loginfo']))
    n_declared = 0
    for s in decl:
        d = secs[s - 1]
        k = d['kind']
        a = {}
        if k in ('Household', 'HouseholdWithExpectations', 'Capitalists'):
            a = {'alpha_income': params[s]['alpha_income'], 'alpha_fin': params[s]['alpha_fin'],
                 'consumption_good_name': d['good']}
            if k != 'Capitalists':
                a['labour_name'] = d['lab']
        elif k in ('FixedMarginBusiness', 'FixedMarginBusinessSub'):
            a = {'profit_margin': params[s]['margin'] if d['margin'] else 0.0,
                 'labour_input_name': d['lab'], 'output_name': d['good']}
        elif k == 'FixedMarginBusinessMultiOutput':
            a = {'profit_margin': params[s]['margin'] if d['margin'] else 0.0,
                 'labour_input_name': d['lab'], 'market_list': ['@' + ref(m) for m in d['mkts']]}
        elif k == 'TaxFlow':
            a = {'taxrate': params[s]['taxrate'], 'taxes_paid_to': d['taxto']}
        elif k in ('MoneyMarket', 'DepositMarket'):
            a = {'issuer_short_code': d['issuer']}
        elif k == 'GoldStandardGovernment':
            a = {'initial_gold_stock': params[s]['gold']}
        elif k == 'GoldStandardCentralBank':
            a = {'initial_gold_stock': params[s]['gold']}
            if d['tre'] and d['trector']:
                a['treasury'] = '@' + ref(d['tre'])
        elif k == 'CentralBank':
            if d['tre'] and d['trector']:
                a = {'treasury': '@' + ref(d['tre'])}
        if k == 'RestOfWorld':
            # a user's bare Sector inside the ExternalSector country
            prog.append({'op': 'Sector', 'country': 'EXT', 'kind': 'Sector', 'code': d['code'], 'args': {}})
        elif k == 'BareSector':
            prog.append({'op': 'Sector', 'country': d['cc'], 'kind': 'Sector', 'code': d['code'], 'args': {}})
        elif k == 'PlainGovernment':
            # the user's own government: a bare Sector that demands goods and receives the taxes
            prog.append({'op': 'Sector', 'country': d['cc'], 'kind': 'Sector', 'code': d['code'], 'args': {}})
            prog.append({'op': 'AddVariable', 'sector': ref(s), 'name': 'DEM_' + d['good'], 'desc': 'government consumption', 'eqn': '0.0'})
            prog.append({'op': 'AddVariable', 'sector': ref(s), 'name': 'T', 'desc': 'taxes received', 'eqn': '0.'})
        else:
            prog.append({'op': 'Sector', 'country': d['cc'], 'kind': k, 'code': d['code'], 'args': a})
        if d.get('taxable'):
            prog.append({'op': 'SetAttr', 'sector': ref(s), 'attr': 'IsTaxable', 'value': True})
        declared.add(s)
        n_declared += 1
        for what in queries.get(n_declared, []):
            prog.append({'op': 'Query', 'what': what, 'country': d['cc'], 'code': d['code']})
        for x in d['extra']:
            prog.append({'op': 'AddVariable', 'sector': ref(s), 'name': x, 'desc': 'extra demand', 'eqn': '0.0'})
        for x in d.get('params', []):
            # user parameters; EXP_<v> is defined as exactly the local variable <v>
            prog.append({'op': 'AddVariable', 'sector': ref(s), 'name': x, 'desc': 'user parameter',
                         'eqn': x[4:] if x.startswith('EXP_') else '0.02'})
        if d['aw']:
            w = params[s]['wgt'] / len(d['aw'])
            prog.append({'op': 'AssetWeighting', 'sector': ref(s), 'as': 'dict' if (params[s]['wgt'] * 100) % 2 < 1 else 'list',
                         'weights': [[a, '%0.3f' % (w * (1 + 0.5 * i))] for i, a in enumerate(d['aw'])], 'residual': 'MON'})
        if d['gift'] and k == 'RestOfWorld':
            # aid paid by a sector inside the ExternalSector country, tied to a household's lagged wealth whose name is
            # requested before full codes exist (stated once every sector has been declared)
            hhs = [i for i, dd in enumerate(secs, 1) if dd['kind'] in ('Household', 'HouseholdWithExpectations')]
            post.append({'op': 'AddVariable', 'sector': ref(s), 'name': 'GIFT', 'desc': 'aid paid (in the numeraire)',
                         'eqn': ('%0.2f + 0.01*{%s:LAG_F}' % (100 * params[s]['gift'], ref(hhs[0]))) if hhs
                         else '%0.2f' % (100 * params[s]['gift'])})
        elif d['gift']:
            # the name of the sector's own lagged wealth is requested before full codes exist: a placeholder
            # embedded in a sector equation (C05)
            prog.append({'op': 'AddVariable', 'sector': ref(s), 'name': 'GIFT', 'desc': 'gift',
                         'eqn': '%0.2f*{%s:LAG_F}' % (params[s]['gift'], ref(s))})
            # a product of two names requested before main(), added as a (non-blob) term
            prog.append({'op': 'AddVariable', 'sector': ref(s), 'name': 'XTRA', 'desc': 'decorative product', 'eqn': ''})
            prog.append({'op': 'AddTerm', 'sector': ref(s), 'name': 'XTRA',
                         'term': '{%s:LAG_F}*{%s:AlphaFin}' % (ref(s), ref(s))})
            # a definition that is one requested name (stored as an opaque term) plus the same name added as a term:
            # twice the lagged wealth, whatever the two spellings resolve to
            prog.append({'op': 'AddVariable', 'sector': ref(s), 'name': 'TWICE', 'desc': 'decorative sum', 'eqn': '{%s:LAG_F}' % ref(s)})
            prog.append({'op': 'AddTerm', 'sector': ref(s), 'name': 'TWICE', 'term': '{%s:LAG_F}' % ref(s)})
            # the same requested name added twice as a term (coefficient 2) / added and subtracted (coefficient 0)
            prog.append({'op': 'AddVariable', 'sector': ref(s), 'name': 'DBL', 'desc': 'decorative double', 'eqn': ''})
            prog.append({'op': 'AddTerm', 'sector': ref(s), 'name': 'DBL', 'term': '{%s:LAG_F}' % ref(s)})
            prog.append({'op': 'AddTerm', 'sector': ref(s), 'name': 'DBL', 'term': '{%s:LAG_F}' % ref(s)})
            prog.append({'op': 'AddVariable', 'sector': ref(s), 'name': 'NIL', 'desc': 'decorative nothing', 'eqn': ''})
            prog.append({'op': 'AddTerm', 'sector': ref(s), 'name': 'NIL', 'term': '{%s:LAG_F}' % ref(s)})
            prog.append({'op': 'AddTerm', 'sector': ref(s), 'name': 'NIL', 'term': '-{%s:LAG_F}' % ref(s)})
        if k in ('CentralBank', 'GoldStandardCentralBank') and d['tre'] and not d['trector']:
            pending_tre.append(s)
        for cb in list(pending_tre):
            if secs[cb - 1]['tre'] in declared and cb in declared:
                prog.append({'op': 'SetAttr', 'sector': ref(cb), 'attr': 'Treasury', 'value': '@' + ref(secs[cb - 1]['tre'])})
                pending_tre.remove(cb)
    prog.extend(post)
    for i, d in enumerate(secs, 1):
        for m in d.get('late', []):
            prog.append({'op': 'AddMarket', 'sector': ref(i), 'market': ref(m)})
    # the order in which the suppliers of a market are registered is the user's: rule first or residual first
    sup_statements = list(bp['suppliers'])
    if rnd.random() < 0.5:
        sup_statements.reverse()
    for r in sup_statements:
        eqn = ''
        if r['rule']:
            # placeholder embedded in a supplier allocation rule (as the REG builders do)
            eqn = '%0.2f*{%s:DEM_%s}' % (_dec(rnd, 0.05, 0.3), ref(r['mkt']), secs[r['mkt'] - 1]['code'])
            # a rule may also be a plain number - a constant amount, zero included (a parameter table's 'exports = 0.0')
            z = rnd.random()
            if z < 0.15:
                eqn = 0.0
            elif z < 0.25:
                eqn = 2.5
        prog.append({'op': 'AddSupplier', 'market': ref(r['mkt']), 'supplier': ref(r['sup']), 'eqn': eqn})
    cur_of = {c['code']: c['cur'] for c in bp['countries']}
    cur_of['EXT'] = 'NUMERAIRE'
    xrnd = random.Random('%s|%s|crossrates' % (bp['name'], seed))
    for f in bp['flows']:
        ca, cb = cur_of[secs[f['src'] - 1]['cc']], cur_of[secs[f['dst'] - 1]['cc']]
        if ca != cb and bp['external'] == 'first' and xrnd.random() < 0.6:
            # the user asks for the cross rate of the pair while still building the model (before full codes exist)
            pair = (ca, cb) if xrnd.random() < 0.7 else (cb, ca)
            prog.append({'op': 'CrossRate', 'local': pair[0], 'foreign': pair[1]})
        prog.append({'op': 'RegisterCashFlow', 'src': ref(f['src']), 'dst': ref(f['dst']), 'var': f['var'],
                     'inc_src': f['incs'], 'inc_dst': f['incd']})
    # the same statement can be made through the sector, through the model with the sector object, or through the
    # model with the sector's full code as a string; the route is drawn per statement
    arnd = random.Random('%s|%s|routes' % (bp['name'], seed))
    n_countries = len(bp['countries']) + (0 if bp['external'] == 'none' else 1)

    def route(st, i):
        z = arnd.random()
        if z < 0.6 or not api_routes:
            return
        if z < 0.8:
            st['via'] = 'model_id'
        else:
            st['via'] = 'fullcode'
            st['fullcode'] = secs[i - 1]['code'] if n_countries == 1 else secs[i - 1]['cc'] + '_' + secs[i - 1]['code']
    L = horizon + 2
    for x in bp['exo']:
        if x['var'] == 'r':
            path = [_dec(rnd, 0.0, 0.08, 3) for _ in range(L)]
        else:
            path = [0.0] + [_dec(rnd, 5, 40, 1) for _ in range(L - 1)]
        st = {'op': 'Exogenous', 'sector': ref(x['s']), 'var': x['var'], 'value': repr(path)}
        route(st, x['s'])
        prog.append(st)
    # model-level (global) equations: a decorative total that embeds names handed out before main()
    fs = [i for i, d in enumerate(secs, 1) if d['kind'] in ('Household', 'HouseholdWithExpectations', 'Capitalists')]
    if fs and rnd.random() < 0.6:
        terms = ' + '.join('{%s:F}' % ref(i) for i in fs[:2])
        prog.append({'op': 'Global', 'var': 'TOTAL_HH_F', 'desc': 'household wealth', 'eqn': terms})
    if rnd.random() < 0.3:
        prog.append({'op': 'Global', 'var': 't', 'desc': 'decorated time axis', 'eqn': '1950. + k'})
    if bp['external'] == 'last':
        prog.append({'op': 'External'})
    if bp['external'] != 'none':
        for c in sorted({c['cur'] for c in bp['countries']}):
            path = [_dec(rnd, 0.5, 2.5, 2) for _ in range(L)]
            prog.append({'op': 'Exogenous', 'sector': 'EXT.XR', 'var': c, 'value': repr(path)})
    ic = (rnd.random() < 0.35) if with_ic is None else with_ic
    if ic:
        hh = [i for i, d in enumerate(secs, 1) if d['kind'] in ('Household', 'HouseholdWithExpectations')]
        if hh:
            st = {'op': 'IC', 'sector': ref(hh[0]), 'var': 'F', 'value': _dec(rnd, 10, 90, 1)}
            route(st, hh[0])
            prog.append(st)
            if rnd.random() < 0.5:
                prog.append({'op': 'IC', 'sector': ref(hh[0]), 'var': 'AfterTax', 'value': _dec(rnd, 10, 90, 1)})
    prog.append({'op': 'MaxTime', 'value': horizon})
    return prog


_BAD_MARKET = {'market': '?', 'n_demanders': 0, 'n_suppliers': 0, 'demand_aggregates': [False], 'clears': [False],
               'allocation_sums': [False], 'demander_booked': False, 'supplier_matches': [False], 'supplier_booked': False}


def _safe(fn, fallback, info, what):
    try:
        return fn()
    except Exception as e:  # noqa
        info.setdefault('projection_errors', {})[what] = '%s: %s' % (type(e).__name__, e)
        return fallback


def _mono_list(p):
    out = []
    for m, c in sorted(p.items()):
        names = []
        ok = True
        for nme, e in m:
            if e != 1:
                ok = False
            names.append(nme)
        if not ok:
            names.append('^non-unit-exponent')
        integral = c.denominator == 1 and abs(c.numerator) < 1000
        out.append({'c': int(c.numerator) if integral else 0, 'int': bool(integral), 'f': names})
    return out


def observe(bp, decl, seed, horizon=HORIZON, with_ic=None):
    """Build one (blueprint, order) with the real classes and project it.  -> (events, info)"""
    from harness import modelkit, modelprops as mp
    prog = program_for(bp, decl, seed, horizon, with_ic)
    b = modelkit.execute(prog, horizon=horizon, observe_phases=True)
    info = {'program': prog}
    ev0 = {'ev': 'Build', 'name': bp['name'], 'decl': list(decl)}
    pre = _phase_events(bp, decl, b)
    if b.error is not None and b.final_text is None:
        ev0.update(outcome='error', errtype=type(b.error).__name__, before_numbers=True)
        info['error'] = '%s: %s' % (type(b.error).__name__, str(b.error)[:200])
        return pre + [ev0], info
    if b.error is not None:
        # equations were produced but the numerical solve raised: the model-level clauses are still decidable
        info['solve_error'] = '%s: %s' % (type(b.error).__name__, str(b.error)[:200])
    ev0.update(outcome='ok', errtype='', before_numbers=False)
    events = pre + [ev0]
    decided = b.exact is not None
    if not decided:
        events.append({'ev': 'Undecided', 'why': (b.exact_error or 'unknown').split(':')[0]})
        info['undecided'] = b.exact_error
    if b.system is None:
        return events, info
    try:
        sfc, sfc_detail, mk, am, pf, rows_bad = {}, {}, [], [], [], []
        numeraire, numflat, credits = [], [], []
        cl = mp.closure(b)
        meaning_bad = mp.meaning_preserved(b, seed=seed)
        if decided:
            # a projection that the code under test makes impossible (missing variable, missing series) counts
            # against the clauses it feeds; it is never a reason to stop the check
            sfc, sfc_detail = _safe(lambda: mp.sfc_by_zone(b), ({'?': [False]}, {'?': ['unobservable']}), info, 'sfc')
            mk = _safe(lambda: mp.markets(b), [dict(_BAD_MARKET)], info, 'markets')
            am = _safe(lambda: mp.asset_markets(b), [{'market': '?', 'n_holders': 0, 'n_issuers': 0, 'demand_aggregates': [False],
                                                     'clears': [False], 'issuer_supplies': [False]}], info, 'assetmarkets')
            pf = _safe(lambda: mp.portfolios(b), [{'sector': '?', 'assets': [], 'adds_up': [False]}], info, 'portfolios')
            rows_bad = _safe(lambda: mp.ledger_rows(b), ['unobservable'], info, 'ledger_rows')
        if decided and b.model.ExternalSector is not None:
            numeraire, numflat, _ = _safe(lambda: mp.numeraire_value(b), ([False], [False], []), info, 'numeraire')
            secs = bp['sectors']
            n_same = {}
            cur = {c['code']: c['cur'] for c in bp['countries']}
            cur['EXT'] = 'NUMERAIRE'
            for f in bp['flows']:
                s1, s2 = secs[f['src'] - 1], secs[f['dst'] - 1]
                if cur[s1['cc']] != cur[s2['cc']]:
                    key = (s1['cc'] + '.' + s1['code'], s2['cc'] + '.' + s2['code'], f['var'])
                    n_same[key] = n_same.get(key, 0) + 1
            out_tot = {}
            for f in bp['flows']:
                s1 = secs[f['src'] - 1]
                key = (s1['cc'] + '.' + s1['code'], f['var'])
                out_tot[key] = out_tot.get(key, 0) + 1
            for c in mp.cross_credit(b, [k + (v, out_tot[(k[0], k[2])]) for k, v in sorted(n_same.items())]):
                credits.append({'ok': bool(c['ok']), 'detail': json.dumps(c)})
                if not c['ok']:
                    info.setdefault('credit_detail', []).append(c)
        n = len(bp['sectors'])
        ledgers = []
        vars_ = []
        from harness import project
        for i, d in enumerate(bp['sectors'], 1):
            s = b.sectors[d['cc'] + '.' + d['code']]
            vars_.append({'s': i, 'names': list(s.EquationBlock.GetEquationList())})
            if s.HasF:
                pF = mp.row_poly(b, s.GetVariableName('F'))
                pI = mp.row_poly(b, s.GetVariableName('INC'))
                if pF is None or pI is None:
                    ledgers.append({'s': i, 'F': [{'c': 0, 'int': False, 'f': ['^not-polynomial']}], 'INC': []})
                else:
                    ledgers.append({'s': i, 'F': _mono_list(pF), 'INC': _mono_list(pI)})
        if b.model.ExternalSector is not None:
            for j, code in enumerate(('XR', 'FX', 'GOLD'), 1):
                vars_.append({'s': n + j, 'names': list(b.sectors['EXT.' + code].EquationBlock.GetEquationList())})
    except Exception as e:  # projection trouble is a machinery problem, reported as such
        raise core.MachineryError('projection failed for %s %s: %s: %s' % (bp['name'], decl, type(e).__name__, e))
    ev = {'ev': 'Final', 'decided': decided, 'hasic': bool(b.has_ic), 'T': horizon,
          'sfc': [{'cur': c, 'flags': f} for c, f in sorted(sfc.items())],
          'ledger_rows_ok': not rows_bad,
          'markets': mk, 'assetmarkets': am, 'portfolios': pf,
          'no_placeholder': not cl['placeholders'], 'defined_once': not cl['dupes'],
          'canonical': not (cl['noncanonical'] or cl['missing'] or cl['extra']),
          'closed': not (cl['dangling'] or cl['ic_undefined']), 'meaning': not meaning_bad,
          'numeraire': numeraire, 'numflat': numflat, 'credits': credits,
          'ledgers': ledgers, 'vars': vars_,
          'queried': sorted({'%s_%s' % (st['local'], st['foreign']) for st in prog if st.get('op') == 'CrossRate'})}
    events.append(ev)
    info.update(sfc_detail=sfc_detail, closure=cl, meaning_bad=meaning_bad, rows_bad=rows_bad)
    return events, info


def _phase_events(bp, decl, b):
    """BuildStart + one Phase event per observed phase of main() (ledgers as [sector index, local name] pairs)"""
    if not b.phases:
        return []
    secs = bp['sectors']
    n = len(secs)
    multi = len(bp['countries']) + (0 if bp['external'] == 'none' else 1) > 1
    idx = {}
    for i, d in enumerate(secs, 1):
        idx[(d['cc'] + '_' + d['code']) if multi else d['code']] = i
    for j, code in enumerate(('XR', 'FX', 'GOLD'), 1):
        idx['EXT_' + code] = n + j
    ref_idx = {d['cc'] + '.' + d['code']: i for i, d in enumerate(secs, 1)}
    out = [{'ev': 'BuildStart', 'name': bp['name'], 'decl': list(decl)}]
    for ph in b.phases:
        if ph['kind'] == 'Generate' and ph.get('fullcode', '') in ('EXT_XR', 'EXT_FX', 'EXT_GOLD'):
            continue          # the three sectors of the ExternalSector have no _GenerateEquations of their own
        led = []
        ok = 'unobservable' not in ph
        for rec in ph['ledgers']:
            if rec['ref'] not in ref_idx:
                continue
            row = {'s': ref_idx[rec['ref']]}
            for key in ('F', 'INC'):
                agg = {}
                for t in rec[key]:
                    f = []
                    for fc, loc in t['f']:
                        if fc not in idx:
                            ok = False
                            continue
                        f.append((idx[fc], loc))
                    if not t['int']:
                        ok = False
                    k2 = tuple(sorted(set(f)))
                    agg[k2] = agg.get(k2, 0) + t['c']      # the same variable may appear under its local and its full name
                row[key] = [{'c': c, 'int': True, 'f': [list(x) for x in k2]} for k2, c in sorted(agg.items()) if c != 0]
            led.append(row)
        out.append({'ev': 'Phase', 'kind': ph['kind'], 'sector': idx.get(ph.get('fullcode', ''), 0),
                    'observable': bool(ok), 'ledgers': led})
    return out


def _observe_job(args):
    bp, decl, seed, horizon, with_ic = args
    try:
        return observe(bp, decl, seed, horizon, with_ic)
    except core.MachineryError as e:
        return 'MACHINERY: %s' % e, None


def observe_many(jobs, procs=None):
    """jobs: list of (bp, decl, seed, horizon, with_ic) -> list of (events, info)"""
    procs = procs or min(16, os.cpu_count() or 4)
    if len(jobs) <= 2:
        out = [_observe_job(j) for j in jobs]
    else:
        with concurrent.futures.ProcessPoolExecutor(max_workers=procs) as ex:
            out = list(ex.map(_observe_job, jobs, chunksize=max(1, len(jobs) // (procs * 4))))
    for r in out:
        if isinstance(r[0], str):
            raise core.MachineryError(r[0])
    return out


def sample_behaviours(behs, bps, k, seed):
    """Seeded sample that keeps every blueprint represented (at least the canonical order and one other)."""
    rnd = random.Random(seed)
    by = {}
    for b in behs:
        by.setdefault(b['name'], []).append(b)
    out = []
    for name in sorted(by):
        lst = sorted(by[name], key=lambda b: b['decl'])
        n = len(bps[name]['sectors'])
        canon = [b for b in lst if b['decl'] == list(range(1, n + 1))]
        out.extend(canon[:1])
        rest = [b for b in lst if b not in canon[:1]]
        # the order farthest from the canonical one (most inversions): every pair of free sectors is declared the
        # other way round at least once
        def inversions(d):
            return sum(1 for i in range(len(d)) for j in range(i + 1, len(d)) if d[i] > d[j])
        far = sorted(rest, key=lambda b: (-inversions(b['decl']), b['decl']))[:1]
        out.extend(far)
        rest = [b for b in rest if b not in far]
        rnd.shuffle(rest)
        out.extend(rest[:max(1, k // max(1, len(by)) - 1)])
    return out


def case_seed(seed, decl):
    """Parameters are drawn per (blueprint, seed); every sampled declaration order gets a seed of its own, so that a rare
    draw (a tax rate of zero, say) cannot hit ALL the builds of the one blueprint that is about taxes.  The pair of builds
    that is compared (C08, C18) always shares one seed."""
    import zlib
    return int(seed) * 1000 + zlib.crc32(repr(list(decl)).encode()) % 997


def run_property(rep, prop, clause_prefixes=None, quick_builds=90):
    """Common body of the C01 / C04 / C05 / C07 checks."""
    clause_prefixes = clause_prefixes or [prop + '_']
    cfg = 'MC_ModelBuild_quick.cfg' if rep.tier == 'quick' else 'MC_ModelBuild_thorough.cfg'
    bps, behs = generate(rep, cfg)
    if rep.tier == 'quick':
        chosen = sample_behaviours(behs, bps, quick_builds, rep.seed)
    else:
        chosen = sample_behaviours(behs, bps, 2500, rep.seed)
    rep.extra['behaviours_emitted_by_tlc'] = len(behs)
    rep.extra['behaviours_rebuilt'] = len(chosen)
    for b in chosen:
        b['seed'] = case_seed(rep.seed, b['decl'])
    jobs = [(bps[b['name']], b['decl'], b['seed'], HORIZON, None) for b in chosen]
    results = observe_many(jobs)
    judge(rep, prop, clause_prefixes, chosen, results)
    # code -> spec on models the machinery did not design: the repository's own example scripts
    from harness import wildmodels
    wildmodels.judge(rep, prop, clause_prefixes)


def judge(rep, prop, clause_prefixes, chosen, results):
    traces = []
    for i, (beh, (events, info)) in enumerate(zip(chosen, results)):
        traces.append((i, events))
        case = {'name': beh['name'], 'decl': beh['decl']}
        nontriv = any(e['ev'] == 'Final' for e in events)
        rep.add_case(dict(case, program=info['program']) if i < 2 else case, nontriv)
    verdicts, st, tr = core.validate_traces('MC_ModelBuild_Trace', 'MC_ModelBuild_Trace.cfg', traces,
                                            chunk=max(8, len(traces) // 16 + 1), tag=prop.lower(), stack='256m')
    rep.traces += len(traces)
    rep.extra['trace_validation_states'] = rep.extra.get('trace_validation_states', 0) + st
    undecided = 0
    for i, (beh, (events, info)) in enumerate(zip(chosen, results)):
        v = verdicts[i]
        clauses = [c for c in v.split(':', 1)[1].split(',') if c]
        case = {'name': beh['name'], 'decl': beh['decl'], 'seed': beh.get('seed', rep.seed)}
        for c in clauses:
            if any(c.startswith(p) for p in clause_prefixes):
                detail = {k: info.get(k) for k in ('error', 'sfc_detail', 'credit_detail', 'projection_errors', 'closure', 'meaning_bad', 'rows_bad') if info.get(k)}
                rep.violate(c, '%s:%s' % (c, beh['name']), case, detail=json.dumps(detail, default=str)[:600])
            elif c.startswith('drift_'):
                rep.add_drift(c, case)
            elif c.startswith('undecided_'):
                undecided += 1
    rep.extra['undecided_by_exact_oracle'] = rep.extra.get('undecided_by_exact_oracle', 0) + undecided


def replay_case(prop, clause_prefixes, path):
    with open(path) as f:
        data = json.load(f)
    case = data['case']
    rep = core.Report(prop, 'quick', case.get('seed', 0))
    if 'wild' in case:
        from harness import wildmodels
        wildmodels.judge(rep, prop, clause_prefixes, only=[case['wild']])
        if rep.violations:
            print('VIOLATION property=%s replay=%s' % (prop, path))
            for v in rep.violations:
                print('  clause=%s' % v.clause)
            return 1
        print('replay: property clauses hold on this case now')
        return 0
    bps, behs = generate(rep, 'MC_ModelBuild_quick.cfg')
    if case['name'] not in bps:
        bps, behs = generate(rep, 'MC_ModelBuild_thorough.cfg')
    beh = {'name': case['name'], 'decl': case['decl'], 'seed': case.get('seed', 0)}
    results = observe_many([(bps[case['name']], case['decl'], case.get('seed', 0), HORIZON, None)])
    judge(rep, prop, clause_prefixes, [beh], results)
    print(json.dumps({'case': case, 'events': results[0][0]}, default=str)[:3000])
    if rep.violations:
        print('VIOLATION property=%s replay=%s' % (prop, path))
        for v in rep.violations:
            print('  clause=%s' % v.clause)
        return 1
    print('replay: property clauses hold on this case now')
    return 0


def describe(rep, prop):
    rep.rule = ('behaviours = every (blueprint, dependency-respecting declaration order) of the bounded ModelBuild '
                'instance, emitted by TLC at the end of the main() pipeline; a seeded sample (quick) / a large sample '
                '(thorough) of them is rebuilt with the real classes with seeded random parameters, exogenous paths, '
                'exchange rates and optional initial stocks, solved exactly over Fractions for %d periods and validated by '
                'TLC against ModelBuild_Trace; distinct = distinct (blueprint, order); non-trivial = main() produced '
                'equations and the exact oracle decided the model' % HORIZON)
    rep.exhaustive = False
    rep.assumptions = [
        'exact rational oracle (harness/exact.py) and independent equation-text reader (harness/project.py) are trusted',
        'TLC evaluates identities in the prime field Z_10007 on two valuations (false identity accepted with probability ~1e-8)',
        'topologies are those of spec/ModelBlueprints.tla; parameters/paths are seeded random decimals',
        'harvested models: every Model that the example scripts of the tree under test build (own sector classes, own parameters) is judged on the blueprint-free clauses only (event Harvested); a script that needs matplotlib / the GUI is skipped',
    ]
