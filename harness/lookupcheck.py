"""Extension of C18 (thorough tier only) - finding the objects of a model again, currency zones, regions, full codes.

An EXTENSION specification: it widens what the specification covers beyond the listed properties.  It is called
at the end of harness/checks/c18.py:run() for the thorough tier and never changes a quick tier.

spec:   spec/Lookup.tla (actions NewCountry, NewRegion, NewSector, GenerateFullCodes, Query; invariants
        Lookup_FindsExactlyTheDeclared, Zone_PartitionByCurrency, Region_DefaultCurrency, FullCode_Rule,
        Lookup_DuplicateRejected)
TLC:    exhaustive check of two bounded instances (zones: <= 3 countries / regions over the currencies none, X, A -
        'A' is also what Country('A') gets by default -, one sector code, histories of length 4; sectors: Country A
        (X) and Region B (default currency) then every history of length 4 over two sector codes, duplicates and
        GenerateFullCodes) plus a seeded -simulate of a deeper instance (length 9)
replay: every behaviour is executed on a fresh real Model with Country / Region / plain Sector(country, code) objects;
        every other behaviour after a decoy model with the same codes was built in the same process.  After every
        call the driver records, through the public API, the exception class, CountryList / CurrencyZoneList /
        GetSectors() / DefaultCurrency / FullCode / IDs (objects identified by identity), and - once per distinct
        model state reached - the answers of the whole battery of queries: Model[code], code in Model, object in
        Model, Country[code], code in Country, object in Country, Country.LookupSector(code | id | full code),
        Model.LookupSector(full code), CurrencyZone.LookupSector(short code), Sector.IsSharedCurrencyZone(other),
        CurrencyZone.GetSectors(), over every declared and some undeclared codes, every id in use, -1 and the next id.
trace:  the recorded executions are validated by TLC against Lookup_Trace (same operators), one total verdict each.

Property clauses (reported through rep.violate as C18_Ext_<clause>; sentences of the docstrings of __getitem__ /
__contains__ / LookupSector / CurrencyZone / Region / _GenerateFullSectorCodes / EconomicObject, or explicit raises):
  Lookup_FindsExactlyTheDeclared  a query returns the declared object (identity) or raises KeyError (LogicError for a
                                  short code that is absent from / ambiguous in a zone); never another object
  Lookup_DuplicateRejected        a duplicate country code / sector code in a country raises LogicError, nothing changes
  Lookup_IdsUnique                all objects of a model carry different ids
  Zone_PartitionByCurrency        every country is in exactly one zone, that zone has its currency, country.CurrencyZone is
                                  it, zones have different currencies; zone.GetSectors() = the sectors of its countries
  Zone_SharedIffSameCurrency      IsSharedCurrencyZone(other) iff the two countries have the same currency
  Region_DefaultCurrency          Region(...) without currency gets the model's DefaultCurrency (as read before the call)
  FullCode_Rule                   generated full codes are '<country>_<sector>' iff the model has more than one country
Conformance clauses (DRIFT only): DefaultCurrency = currency of the country added last, order of countries in a zone
and of GetSectors(), stored FullCode between two generations (stale / empty), id counter, sector.CurrencyZone.
Replay of a replay file written for a violation of this extension (its case carries "ext"):
  /venv/bin/python harness/lookupcheck.py --replay <replay file>     (exit 1 = still violated, 0 = holds now)
"""
import concurrent.futures
import json
import math
import os
import re
import sys
import time

if __name__ == '__main__':
    sys.path.insert(0, os.path.dirname(os.path.dirname(os.path.abspath(__file__))))

from harness import core  # noqa: E402

PREFIX = 'C18_Ext_'
CCODES = ['A', 'B', 'C', 'NOPE', 'a', 'AB']           # declared codes + never declared ones (other case, a longer code)
SCODES = ['HH', 'GOV', 'NOPE', 'hh', 'H']
FULLS = SCODES + [c + '_' + s for c in CCODES[:3] for s in SCODES[:2]] + ['A_H', 'a_hh', 'AHH']
CURS = ['X', 'A', 'B', 'C', 'LOCAL']


def _index(seq, obj):
    for i, x in enumerate(seq):
        if x is obj:
            return i + 1
    return 0


class _World(object):
    """the objects of one behaviour"""

    def __init__(self):
        from sfc_models.models import Model
        self.model = Model()
        self.countries = []         # successfully created, in creation order
        self.sectors = []

    def snapshot(self):
        from sfc_models.models import Region
        mod = self.model
        zl = list(mod.CurrencyZoneList)
        cl = list(mod.CountryList)
        countries = [{'code': str(c.Code), 'cur': str(c.Currency), 'region': isinstance(c, Region), 'id': int(c.ID),
                      'zone': _index(zl, c.CurrencyZone), 'ord': _index(self.countries, c)} for c in cl]
        zones = [{'cur': str(z.Currency), 'id': int(z.ID), 'members': [str(m.Code) for m in z.CountryList],
                  'mords': [_index(self.countries, m) for m in z.CountryList]} for z in zl]
        sectors = [{'cc': str(s.Parent.Code), 'code': str(s.Code), 'id': int(s.ID), 'full': str(s.FullCode),
                    'zone': _index(zl, s.CurrencyZone)} for s in self.sectors]
        csecs = [[_index(self.sectors, s) for s in c.GetSectors()] for c in cl]
        ids = [mod.ID] + [c.ID for c in cl] + [z.ID for z in zl] + [s.ID for s in self.sectors]
        return {'countries': countries, 'zones': zones, 'sectors': sectors, 'csecs': csecs,
                'distinct': len(set(ids)) == len(ids), 'dc': str(mod.DefaultCurrency)}

    def ids_in_use(self):
        from sfc_models.models import EconomicObject
        mod = self.model
        ids = [mod.ID] + [c.ID for c in mod.CountryList] + [z.ID for z in mod.CurrencyZoneList] + [s.ID for s in self.sectors]
        return sorted(set(ids)) + [-1, int(EconomicObject.ID)]

    def answer(self, fn):
        """-> [r, k, exc, flag, list]"""
        from sfc_models.utils import LogicError
        try:
            v = fn()
        except Exception as e:
            name = 'KeyError' if isinstance(e, KeyError) else 'LogicError' if isinstance(e, LogicError) else type(e).__name__
            return ['exc', 0, name, False, []]
        if v is True or v is False:
            return ['bool', 0, '', v, []]
        if isinstance(v, list):
            return ['list', 0, '', False, [_index(self.sectors, s) for s in v]]
        k = _index(self.sectors, v)
        if k:
            return ['sector', k, '', False, []]
        k = _index(self.countries, v)
        if k:
            return ['country', k, '', False, []]
        return ['other', 0, '', False, []]

    def zone_of(self, cur):
        for z in self.model.CurrencyZoneList:
            if z.Currency == cur:
                return z
        return None

    def battery(self):
        mod = self.model
        out = []

        def ask(k, cc, code, n, m, fn):
            out.append([k, cc, code, n, m] + self.answer(fn))
        for c in CCODES:
            ask('ModelGet', '', c, 0, 0, lambda: mod[c])
            ask('ModelHas', '', c, 0, 0, lambda: c in mod)
        for n, cobj in enumerate(self.countries):
            ask('ModelHasObj', '', '', n + 1, 0, lambda: cobj in mod)
        ids = self.ids_in_use()
        for cobj in self.countries:
            cc = cobj.Code
            for x in SCODES:
                ask('CountryGet', cc, x, 0, 0, lambda: cobj[x])
                ask('CountryHas', cc, x, 0, 0, lambda: x in cobj)
                ask('Lookup', cc, x, 0, 0, lambda: cobj.LookupSector(x))
            for n, sobj in enumerate(self.sectors):
                ask('CountryHasObj', cc, '', n + 1, 0, lambda: sobj in cobj)
            for i in ids:
                ask('LookupId', cc, '', i, 0, lambda: cobj.LookupSector(i))
            for f in FULLS:
                ask('LookupFull', cc, f, 0, 0, lambda: cobj.LookupSector(f, is_full_code=True))
        for f in FULLS:
            ask('ModelLookup', '', f, 0, 0, lambda: mod.LookupSector(f))
        for cur in CURS:
            z = self.zone_of(cur)
            if z is None:
                out.append(['ZoneSectors', cur, '', 0, 0, 'nozone', 0, '', False, []])
                for x in SCODES:
                    out.append(['ZoneLookup', cur, x, 0, 0, 'nozone', 0, '', False, []])
                continue
            ask('ZoneSectors', cur, '', 0, 0, lambda: z.GetSectors())
            for x in SCODES:
                ask('ZoneLookup', cur, x, 0, 0, lambda: z.LookupSector(x))
        for n, s1 in enumerate(self.sectors):
            for m, s2 in enumerate(self.sectors):
                ask('Shared', '', '', n + 1, m + 1, lambda: s1.IsSharedCurrencyZone(s2))
        return out


def _decoy():
    from sfc_models.models import Model, Country, Region
    from sfc_models.sector import Sector
    mod = Model()
    a = Country(mod, 'A', currency='X')
    b = Region(mod, 'B')
    c = Country(mod, 'C')
    for cobj in (a, b, c):
        Sector(cobj, 'HH')
        Sector(cobj, 'GOV')
    mod._GenerateFullSectorCodes()
    return mod


def state_key(snap, mid):
    """the model state up to a shift of the ids"""
    s = json.loads(json.dumps(snap))
    for grp in ('countries', 'zones', 'sectors'):
        for x in s[grp]:
            x['id'] -= mid
    return core.canonical(s)


def execute(hist, decoy, seen):
    """Run one behaviour on fresh real objects; -> list of trace events.  seen: set of model states whose battery was
    already recorded by this process (the battery is asked in every state, recorded once per distinct state)."""
    from sfc_models.models import Country, Region, EconomicObject
    from sfc_models.sector import Sector
    keep = _decoy() if decoy else None
    id0 = int(EconomicObject.ID)
    w = _World()
    events = []

    def finish(ev):
        ev['id1'] = int(EconomicObject.ID)
        snap = w.snapshot()
        ev.update(snap)
        bat = w.battery()
        key = state_key(snap, w.model.ID)
        if key in seen:
            ev['answers'] = []
        else:
            seen.add(key)
            ev['answers'] = bat
        ev['nq'] = len(bat)
        events.append(ev)

    ev = {'ev': 'Begin', 'code': '', 'cur': '', 'cc': '', 'exc': '', 'id0': id0, 'mid': int(w.model.ID), 'dc0': ''}
    finish(ev)
    for a in hist:
        ev = {'ev': a['a'], 'code': a['code'], 'cur': a['cur'], 'cc': a['cc'], 'exc': '', 'mid': int(w.model.ID),
              'id0': int(EconomicObject.ID), 'dc0': str(w.model.DefaultCurrency)}
        try:
            act = a['a']
            if act in ('NewCountry', 'NewRegion'):
                cls = Country if act == 'NewCountry' else Region
                if a['cur'] == 'none':
                    obj = cls(w.model, a['code'])
                else:
                    obj = cls(w.model, a['code'], currency=a['cur'])
                w.countries.append(obj)
            elif act == 'NewSector':
                cobj = [c for c in w.countries if c.Code == a['cc']][0]
                obj = Sector(cobj, a['code'])
                w.sectors.append(obj)
            elif act == 'GenerateFullCodes':
                w.model._GenerateFullSectorCodes()
            else:
                raise core.MachineryError('unknown action ' + act)
        except core.MachineryError:
            raise
        except Exception as e:      # recorded, never propagated
            from sfc_models.utils import LogicError
            ev['exc'] = 'LogicError' if isinstance(e, LogicError) else type(e).__name__
        finish(ev)
    del keep
    return events


def _worker(items):
    core.use_repo()
    seen = set()
    out = []
    for tid, hist in items:
        out.append((tid, execute(hist, tid[0] == 'd', seen)))
    return out


def run_behaviours(items, workers=8):
    """items: [(tid, hist)] (tid 'd..' = after a decoy model, 'p..' = plain) -> {tid: events}"""
    if len(items) <= 4:
        return dict(_worker(items))
    n = max(1, min(workers, len(items) // 200 + 1))
    size = int(math.ceil(len(items) / float(n)))
    chunks = [items[i:i + size] for i in range(0, len(items), size)]      # neighbours share prefixes: few batteries
    got = {}
    with concurrent.futures.ProcessPoolExecutor(max_workers=workers) as ex:
        for part in ex.map(_worker, chunks):
            got.update(part)
    # a state reached in several workers keeps its battery once
    seen = set()
    for tid, _ in items:
        for ev in got[tid]:
            if ev['answers']:
                key = state_key(dict((k, ev[k]) for k in ('countries', 'zones', 'sectors', 'csecs', 'distinct', 'dc')), ev['mid'])
                if key in seen:
                    ev['answers'] = []
                else:
                    seen.add(key)
    return got


def validate(traces, tag='lookup'):
    n = len(traces)
    jobs = min(8, os.cpu_count() or 4)
    chunk = max(200, int(math.ceil(n / float(jobs))))
    return core.validate_traces('MC_Lookup_Trace', 'MC_Lookup_Trace.cfg', traces, chunk=chunk, jobs=jobs, tag=tag)


def _compact(events):
    out = []
    for e in events:
        out.append({'ev': e['ev'], 'code': e['code'], 'cur': e['cur'], 'cc': e['cc'], 'exc': e['exc'],
                    'DefaultCurrency': e['dc'], 'ids_distinct': e['distinct'],
                    'countries': ['%s:%s%s id=%d zone=%d' % (c['code'], c['cur'], ':region' if c['region'] else '', c['id'], c['zone'])
                                  for c in e['countries']],
                    'zones': ['%s id=%d %s' % (z['cur'], z['id'], z['members']) for z in e['zones']],
                    'sectors': ['%s.%s id=%d full=%r' % (s['cc'], s['code'], s['id'], s['full']) for s in e['sectors']],
                    'answers_recorded': len(e['answers'])})
    return out


def _first_bad_answer(events, what, where):
    """for the report: the recorded answers to the query the verdict names (what = '<kind>:...', where = 'cc/code/n/m')"""
    kind = what.split(':')[0]
    rows = []
    for i, e in enumerate(events):
        for a in e['answers']:
            if a[0] == kind and (not where or '%s/%s/%d/%d' % tuple(a[1:5]) == where):
                rows.append({'after_call': i, 'query': a[:5], 'observed': dict(zip(('kind', 'ordinal', 'exc', 'flag', 'list'), a[5:]))})
    return rows[:20]


def nontrivial(hist):
    acts = [a['a'] for a in hist]
    return 'NewSector' in acts and len([a for a in acts if a in ('NewCountry', 'NewRegion')]) >= 1


def judge(rep, behs):
    items = [(('d' if i % 2 else 'p') + str(i), b['hist']) for i, b in enumerate(behs)]
    t0 = time.time()
    observed = run_behaviours(items)
    t1 = time.time()
    traces = [(tid, observed[tid]) for tid, _ in items]
    n_bat = sum(1 for _, evs in traces for e in evs if e['answers'])
    n_ans = sum(len(e['answers']) for _, evs in traces for e in evs)
    n_asked = sum(e['nq'] for _, evs in traces for e in evs)
    verdicts, st, tr = validate(traces)
    t2 = time.time()
    rep.traces += len(traces)
    n_prop = n_drift = 0
    for n, (tid, evs) in enumerate(traces):
        i = int(tid[1:])
        case = {'ext': 'lookup', 'hist': behs[i]['hist'], 'decoy': tid[0] == 'd'}
        rep.add_case(dict(case, observed=_compact(evs)) if n < 1 else case, nontrivial(behs[i]['hist']))
        v = verdicts[tid]
        if v == 'ok:':
            continue
        kind, clause = v.split(':', 1)
        if kind == 'property':
            n_prop += 1
            name, _, what = clause.partition('@')
            what, _, where = what.partition('#')
            full = dict(case, observed=_compact(evs), answers=_first_bad_answer(evs, what, where))
            rep.violate(PREFIX + name, 'lookup:%s:%s' % (name, what), full,
                        detail='Lookup extension, %s (%s%s); history %s' % (
                            name, what, ' query ' + where if where else '',
                            json.dumps([[a['a'], a['cc'], a['code'], a['cur']] for a in behs[i]['hist']])))
        else:
            n_drift += 1
            rep.add_drift('ext_lookup_' + clause, dict(case, observed=_compact(evs)))
    return {'behaviours': len(behs), 'traces': len(traces), 'trace_validation_states': st, 'property_verdicts': n_prop,
            'drift_verdicts': n_drift, 'queries_asked': n_asked, 'batteries_judged': n_bat, 'answers_judged': n_ans,
            'execute_s': round(t1 - t0, 2), 'validate_s': round(t2 - t1, 2)}


INSTANCES = [('MC_Lookup_thorough.cfg', None), ('MC_Lookup_thorough2.cfg', None), ('MC_Lookup_sim.cfg', 1000)]


def run_lookup(rep):
    """TLC on the bounded Lookup instances, replay of every emitted behaviour, trace validation."""
    t_all = time.time()
    info = {'instances': []}

    def one(inst):
        cfg, sim = inst
        if sim:
            res = core.tlc('MC_Lookup', cfg, workers=1, tag='lookup', simulate=sim, depth=11, seed=rep.seed % (2 ** 31))
            m = re.search(r'The number of states generated: (\d+)', res.stdout)
            if m:
                res.states = int(m.group(1))
        else:
            res = core.tlc('MC_Lookup', cfg, workers=1, tag='lookup')
        return res
    with concurrent.futures.ThreadPoolExecutor(max_workers=len(INSTANCES)) as ex:
        results = list(ex.map(one, INSTANCES))
    seen = set()
    behs = []
    for (cfg, sim), res in zip(INSTANCES, results):
        if res.violated:
            raise core.MachineryError('extension spec Lookup: %s violated in %s' % (res.violated, cfg))
        rep.add_tlc(res, ('extension Lookup simulate ' if sim else 'extension Lookup exhaustive ') + cfg)
        got = core.json_of_printed(res, 'BEH')
        if not got:
            raise core.MachineryError('TLC emitted no Lookup behaviours for ' + cfg)
        new = 0
        for b in got:
            key = core.canonical(b)
            if key not in seen:
                seen.add(key)
                behs.append(b)
                new += 1
        info['instances'].append({'cfg': cfg, 'simulate': sim or 0, 'states_generated': res.states,
                                  'distinct_states': res.distinct, 'wall_s': round(res.wall, 2), 'behaviours': new})
        del res.printed[:]
        res.stdout = ''
    info.update(judge(rep, behs))
    info['wall_s'] = round(time.time() - t_all, 2)
    rep.extra['extension_lookup'] = info
    rep.rule += ('; extension Lookup (thorough): all maximal behaviours of the bounded Lookup instances + %d simulated '
                 'ones, each executed on real Model / Country / Region / Sector objects, the battery of look-ups asked in '
                 'every state and judged once per distinct state' % INSTANCES[2][1])
    return info


def replay_case(case):
    """re-execute the case of a replay file written for a C18_Ext_ violation; -> exit code"""
    core.use_repo()
    tid = ('d' if case.get('decoy') else 'p') + '0'
    observed = run_behaviours([(tid, case['hist'])])
    verdicts, _, _ = validate([(tid, observed[tid])], tag='lookupr')
    print(json.dumps({'history': case['hist'], 'decoy': case.get('decoy'), 'observed_now': _compact(observed[tid])}, indent=1))
    v = verdicts[tid]
    if v.startswith('property:'):
        name, _, what = v.split(':', 1)[1].partition('@')
        what, _, where = what.partition('#')
        print(json.dumps({'answers': _first_bad_answer(observed[tid], what, where)})[:3000])
        print('VIOLATION property=C18 (extension Lookup)')
        print('  clause=%s%s signature=lookup:%s:%s' % (PREFIX, name, name, what))
        return 1
    print('replay: the extension clauses hold on this case now (%s)' % v)
    return 0


if __name__ == '__main__':
    if len(sys.argv) == 3 and sys.argv[1] == '--replay':
        with open(sys.argv[2]) as f:
            sys.exit(replay_case(json.load(f)['case']))
    if len(sys.argv) == 2 and sys.argv[1] == '--run':
        core.use_repo()
        r = core.Report('C18', 'thorough', core.tier_and_seed()[1])
        print(json.dumps(run_lookup(r), indent=1))
        for v_ in r.violations[:10]:
            print('VIOLATION', v_.clause, v_.signature, v_.detail[:300])
        print('drift', dict((k, v_['count']) for k, v_ in r.drift.items()))
        sys.exit(1 if r.violations else 0)
    sys.exit('usage: lookupcheck.py --replay <replay file> | --run')
