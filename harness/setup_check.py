"""Setup self-check: SANY on all modules, MANIFEST schema, known_findings shape."""
import concurrent.futures
import glob
import json
import os
import subprocess
import sys

from harness import core


def main():
    bad = 0
    mods = sorted(os.path.basename(p)[:-4] for p in glob.glob(os.path.join(core.SPEC_DIR, '*.tla')))
    # a module that belongs to a claimed check must parse; others (work in progress) only warn
    from harness import manifest_table
    claimed = set()
    for pid, row in manifest_table.CHECKS.items():
        for m in row[0]:
            claimed.add(m)
    def is_claimed(mod):
        base = mod[3:] if mod.startswith('MC_') else mod
        return base in claimed or any(base.startswith(c) for c in claimed)
    warn = 0
    with concurrent.futures.ThreadPoolExecutor(max_workers=8) as ex:
        for mod, (ok, out) in zip(mods, ex.map(core.sany, mods)):
            if not ok:
                if is_claimed(mod):
                    bad += 1
                    print('SANY FAILED for %s\n%s' % (mod, out[-1500:]))
                else:
                    warn += 1
                    print('SANY warning (module of an unclaimed check): %s' % mod)
    print('SANY: %d modules parsed, %d failed, %d warnings' % (len(mods), bad, warn))
    man = os.path.join(core.VERIF, 'MANIFEST.json')
    schema = '/root/.vp/MANIFEST.schema.json'
    if os.path.exists(schema) and os.path.exists('/opt/veriftools/pyvenv/bin/python'):
        code = ("import json,jsonschema,sys;"
                "jsonschema.validate(json.load(open(%r)), json.load(open(%r)));print('MANIFEST.json: valid')" % (man, schema))
        p = subprocess.run(['/opt/veriftools/pyvenv/bin/python', '-c', code], capture_output=True, text=True)
        sys.stdout.write(p.stdout)
        if p.returncode != 0:
            bad += 1
            print('MANIFEST.json INVALID\n' + p.stderr[-1500:])
    else:
        json.load(open(man))
    f = core.load_findings()
    assert isinstance(f.get('open'), list) and isinstance(f.get('fixed'), list)
    core.use_repo()
    print('tree under test: %s (%s)' % (core.repo_path(), core.repo_head()))
    return 1 if bad else 0


if __name__ == '__main__':
    sys.exit(main())
