"""
solverkit.py - shared by the checks C02 and C11: equation systems for the real EquationSolver,
observation through its public API, projection to the events of spec/Solver_Trace.tla.

A *case* is a JSON-able dict describing one submitted equation system:

  {"label": "...", "eqs": [[lhs, rhs], ...], "lags": [[lhs, source], ...], "exos": [[name, [floats]], ...],
   "ics": [[name, text], ...], "maxtime": 3, "tol_line": "1e-6" | None, "tol_param": 1e-6 | None,
   "cap": 7 | None, "reduction": true, "funcs": ["sat"], "lam": 0.8, "contractive": false,
   "exp": [n1, n2, ...] | None}

  lam          known sup-norm Lipschitz bound of the one-sweep map (max over all rows)
  contractive  the system belongs to the class of the success direction of C11 (row sums <= 0.8,
               n <= 12, |constants| <= 1e3, tolerance >= 1e-8, default cap)
  exp          predicted number of sweeps per period (designed scenarios only; conformance)

Observation (public API only): ParseString, MaxIterations, ParameterErrorTolerance, then exactly what
SolveEquation() does - ExtractVariableList(), SetInitialConditions(), SolveStep(1..MaxTime) - with
TraceStep = k, so that TimeSeriesStepTrace gives the sweeps of every period.  Systems with user
functions are not traced (the pinned tree raises TypeError there); their sweeps are counted by a
counting wrapper around the registered function (one occurrence in one simultaneous equation).

Projection: numeric predicates are computed here, with fractions.Fraction on the reported floats;
right-hand sides are evaluated with Python's eval over the reported values.  TLC only sees Booleans
and small integers.
"""
from __future__ import annotations

import math
import random
from fractions import Fraction

MATH_ENV = {k: getattr(math, k) for k in dir(math) if not k.startswith('_')}

FUNCS = {
    'sat': lambda v: max(-5.0, min(5.0, v)),          # Lipschitz 1
    'soft': lambda v: v / (1.0 + abs(v)),             # Lipschitz 1
    'rlog': lambda v: math.log10(v),                  # raises ValueError for v <= 0 (designed scenarios only)
}
LIPSCHITZ_FUNCS = ('sat', 'soft')                     # the ones the random grammar may use
FUNCS['avg2'] = lambda a, b: 0.5 * (a + b)            # two arguments, Lipschitz 1 in the sup norm


def func_impl(entry):
    """An entry of case['funcs'] is either a key of FUNCS (registered under that very name) or
    'name=key': the function FUNCS[key] registered under `name`.  -> (name, callable)"""
    if '=' in entry:
        name, key = entry.split('=', 1)
        return name, FUNCS[key]
    return entry, FUNCS[entry]


# names of each class of spec/SolverFunctions.tla, by arity
FUNCTION_NAMES = {
    'plain': {1: ['share', 'f'], 2: ['mix']},
    'math': {1: ['gamma', 'exp', 'log', 'erf', 'sqrt', 'fabs', 'floor', 'tanh'], 2: ['dist', 'hypot', 'fmod', 'pow']},
    'builtin_usable': {1: ['abs', 'round', 'float'], 2: ['max', 'min']},
    'solver_global': {1: ['copy', 'warnings'], 2: ['Logger']},
}


class Counting(object):
    def __init__(self, f):
        self.f = f
        self.n = 0
        self.total = 0

    def __call__(self, *a):
        self.n += 1
        self.total += 1
        return self.f(*a)


def new_case(label, **kw):
    c = {'label': label, 'eqs': [], 'lags': [], 'exos': [], 'ics': [], 'maxtime': 3, 'tol_line': None,
         'tol_param': None, 'cap': None, 'reduction': True, 'funcs': [], 'lam': 1.0, 'contractive': False,
         'exp': None, 'alias': None, 'fn_pred': None, 'retry': None}
    c.update(kw)
    return c


def fl(x):
    return repr(float(x))


def render(case):
    lines = []
    for lhs, rhs in case['eqs']:
        lines.append('%s = %s' % (lhs, rhs))
    for lhs, src in case['lags']:
        lines.append('%s = %s(k-1)' % (lhs, src))
    for name, text in case['ics']:
        lines.append('%s(0) = %s' % (name, text))
    if case.get('tol_line'):
        lines.append('Err_Tolerance = %s' % case['tol_line'])
    lines.append('MaxTime = %d' % case['maxtime'])
    lines.append('exogenous')
    for name, vals in case['exos']:
        lines.append('%s = [%s]' % (name, ', '.join(fl(v) for v in vals)))
    return '\n'.join(lines)


def tolerance_of(case):
    if case.get('tol_param') is not None:
        return float(case['tol_param'])
    if case.get('tol_line'):
        return float(case['tol_line'])
    return 1e-8


def exc_class(e):
    from sfc_models.equation_solver import ConvergenceError
    if isinstance(e, ConvergenceError):
        return 'ConvergenceError'
    if isinstance(e, ValueError):
        return 'ValueError'
    if isinstance(e, ArithmeticError):
        return 'ArithmeticError'
    return 'OtherError'


# ----------------------------------------------------------------------------------------------
# numeric predicates (Fraction arithmetic on the reported floats)
# ----------------------------------------------------------------------------------------------

def is_num(x):
    return isinstance(x, (int, float)) and not isinstance(x, bool)


def finite(x):
    return is_num(x) and math.isfinite(x)


def close(a, b, rel=Fraction(1, 10 ** 12)):
    """a and b equal up to 1e-12 relative (exact comparison of the two floats as rationals)."""
    if not (finite(a) and finite(b)):
        return False
    fa, fb = Fraction(a), Fraction(b)
    return abs(fa - fb) <= rel * max(abs(fa), abs(fb))


def _series(ts):
    return {v: list(ts[v]) for v in ts.keys()}


def _same(a, b):
    return repr(a) == repr(b)


def prefix_intact(before, after):
    for v, old in before.items():
        if v not in after:
            return False
        new = after[v]
        if len(new) < len(old):
            return False
        for i, x in enumerate(old):
            if not _same(x, new[i]):
                return False
    return True


def recompute_error(endogenous, iterate, funcs):
    """The solver's error measure of the sweep that starts at `iterate` (same formula as the code);
    used only to know whether the error measure of the last sweep - which the public step trace does
    not show - was NaN."""
    env = dict(MATH_ENV)
    env.update(funcs)
    total = 0.0
    for var, eqn in endogenous:
        try:
            new = eval(eqn, env, dict(iterate))
        except (ZeroDivisionError, ValueError):
            new = iterate[var]
        except Exception:
            return 0.0
        try:
            d = abs(new - iterate[var])
            if d < 1e-3:
                total += d
            else:
                total += d / max(abs(new), abs(iterate[var]))
        except Exception:
            return 0.0
    return total


def submitted_equations(case):
    eqs = [tuple(e) for e in case['eqs']]
    names = [e[0] for e in eqs] + [e[0] for e in case['exos']] + [e[0] for e in case['lags']]
    if 't' not in names and 't_minus_1' not in names:
        eqs.append(('t', 'k'))          # the documented default time axis
    return eqs


def judge_period(case, parser, ts, k, skip=()):
    """-> dict(resid_ok, deco_exact, lag_exact, exo_exact) for a period reported as solved.
    Rows whose left-hand side is in `skip` are not judged (they call a function we cannot evaluate)."""
    out = {'resid_ok': True, 'deco_exact': True, 'lag_exact': True, 'exo_exact': True, 'undef': False}
    vals = {}
    for v in ts:
        if len(ts[v]) > k:
            vals[v] = ts[v][k]
    deco = set(v for v, _ in parser.Decoration)
    sim = [v for v, _ in parser.Endogenous]
    env = dict(MATH_ENV)
    for entry in case['funcs']:
        name, f = func_impl(entry)
        env[name] = f                 # the function the user registered shadows every homonym
    n = max(1, len(sim))
    # "the magnitude of the values": the reported values and the start iterate (= the values of period k-1),
    # which is what the solver's own relative test scales by; the weaker reading of the statement
    norm = Fraction(1)
    for v in sim:
        if v in vals and finite(vals[v]):
            norm = max(norm, abs(Fraction(vals[v])))
        if v in ts and len(ts[v]) >= k and finite(ts[v][k - 1]):
            norm = max(norm, abs(Fraction(ts[v][k - 1])))
    bound = Fraction(4 * n) * (1 + Fraction(case['lam'])) * Fraction(tolerance_of(case)) * norm
    for lhs, rhs in submitted_equations(case):
        if lhs in skip:
            continue
        if lhs not in vals or not finite(vals[lhs]):
            out['deco_exact' if lhs in deco else 'resid_ok'] = False
            continue
        try:
            fx = eval(rhs, env, dict(vals))
        except ArithmeticError:
            fx = None
            out['undef'] = True          # the equation is not even defined at the reported values
        except ValueError:
            fx = None
            out['undef'] = True
        except Exception:
            fx = None
        if lhs in deco:
            if fx is None or not close(vals[lhs], fx):
                out['deco_exact'] = False
        else:
            if fx is None or not finite(fx) or abs(Fraction(vals[lhs]) - Fraction(fx)) > bound:
                out['resid_ok'] = False
    def eq(a, b):
        return _same(a, b) or close(a, b)
    for lhs, src in case['lags']:
        if not (lhs in vals and src in ts and len(ts[src]) >= k and eq(vals[lhs], ts[src][k - 1])):
            out['lag_exact'] = False
    for name, path in list(case['exos']) + [['k', [float(i) for i in range(case['maxtime'] + 1)]]]:
        if not (name in ts and len(ts[name]) == case['maxtime'] + 1 and eq(ts[name][k], path[k])):
            out['exo_exact'] = False
    return out


# ----------------------------------------------------------------------------------------------
# observation
# ----------------------------------------------------------------------------------------------

def _make_solver(case, counters=None):
    from sfc_models.equation_solver import EquationSolver
    s = EquationSolver(run_equation_reduction=bool(case['reduction']))
    for entry in case['funcs']:
        fn, f = func_impl(entry)
        if counters is not None:
            f = counters.setdefault(fn, Counting(f))
        s.AddFunction(fn, f)
    s.ParseString(render(case))
    if case.get('cap') is not None:
        s.MaxIterations = int(case['cap'])
    if case.get('tol_param') is not None:
        s.ParameterErrorTolerance = case['tol_param']       # as given: 0 (int) and 0.0 are different objects
    return s


def observe(case, whole=True):
    """Run the case on the real EquationSolver.  Returns the list of trace events
    (Step per attempted period, then Finish)."""
    events = []
    horizon = int(case['maxtime'])
    fin = {'ev': 'Finish', 'returned': False, 'contractive': bool(case.get('contractive')), 'exc': 'none',
           'horizon': horizon, 'whole_equal': True, 'steps': 0, 'stage': 'solve', 'exc_type': '', 'lens_ok': True,
           'alias_pred': 'na', 'alias_obs': 'na', 'fn_pred': 'na', 'fn_obs': 'na'}
    counters = {}
    use_trace = not case['funcs']
    try:
        s = _make_solver(case, counters)
        if len(s.VariableList) == 0:
            s.ExtractVariableList()
        s.SetInitialConditions()
        horizon = int(s.Parser.MaxTime)
    except Exception as e:
        fin.update(exc=exc_class(e), stage='setup', exc_type=type(e).__name__, message=str(e)[:120])
        return [fin]
    fin['horizon'] = horizon
    P = s.Parser
    if case.get('alias'):
        # spec/SolverForms.tla predicts whether the reduction substitutes the alias away
        name = case['alias']['name']
        gone = any(v == name for v, _ in P.Decoration) and not any(name in _names_in(e) for _, e in P.Endogenous)
        fin['alias_pred'] = 'substituted' if case['alias']['subst'] else 'kept'
        fin['alias_obs'] = 'substituted' if gone else 'kept'
    cap = int(s.MaxIterations)
    failed = None
    plan = case.get('retry')
    retried = False
    attempt_no = 0
    k = 0
    while k < horizon:
        k += 1
        attempt_no += 1
        before = _series(s.TimeSeries)
        if use_trace:
            s.TraceStep = k
        for c in counters.values():
            c.n = 0
        exc = None
        try:
            s.SolveStep(k)
        except Exception as e:
            exc = e
        ts = _series(s.TimeSeries)
        sim = [v for v, _ in P.Endogenous]
        lag = [v for v, _ in P.Lagged]
        deco = [v for v, _ in P.Decoration]
        nonexo = [v for v in sim + lag + deco if v in ts]
        lens = [len(ts[v]) for v in nonexo] or [k + (0 if exc else 1)]

        def cl(names):
            ls = [len(ts[v]) for v in names if v in ts]
            return min(ls) if ls else min(lens)
        if use_trace:
            tr = s.TimeSeriesStepTrace
            its = list(tr['iteration'])
            sweeps = len(its)
            errs = list(tr['iteration_error'])
            err_nan = any(isinstance(x, float) and math.isnan(x) for x in errs)
            met_tol = True
            if exc is None and sweeps > 0:
                last = {}
                for key in tr.keys():
                    if key in ('iteration', 'iteration_error', 'iteration_abs_change'):
                        continue
                    if len(tr[key]) == sweeps:
                        last[key] = tr[key][-1]
                final_err = recompute_error(P.Endogenous, last, dict(func_impl(e) for e in case['funcs']))
                if isinstance(final_err, float) and math.isnan(final_err):
                    err_nan = True
                # did the last sweep meet the tolerance that was REQUESTED for this run?
                met_tol = bool(finite(final_err) and Fraction(final_err) <= Fraction(tolerance_of(case)))
        else:
            sweeps = max([c.n for c in counters.values()] or [0])
            err_nan = False
            met_tol = True            # not observable without the step trace
        reported = [ts[v][k] for v in nonexo if len(ts[v]) > k]
        fin_ok = all(finite(x) for x in reported)
        if not use_trace and exc is None and not fin_ok:
            err_nan = True        # not observable without the step trace; a non-finite solved value implies it
        ev = {'ev': 'Step', 'k': k, 'sweeps': int(sweeps), 'cap': cap, 'horizon': horizon,
              'exit': 'converged' if exc is None else exc_class(exc),
              'errNaN': bool(err_nan), 'finite': bool(fin_ok), 'traced': bool(use_trace),
              'tol_ge1': bool(tolerance_of(case) >= 1.0), 'tol_zero': bool(tolerance_of(case) == 0.0),
              'met_tol': bool(met_tol),
              'resid_ok': True, 'deco_exact': True, 'lag_exact': True, 'exo_exact': True, 'undef': False,
              'len_sim': cl(sim), 'len_lag': cl(lag), 'len_deco': cl(deco),
              'len_min': min(lens), 'len_max': max(lens),
              'prefix_intact': bool(prefix_intact(before, ts)),
              'exp_n': int(case['exp'][attempt_no - 1]) if case.get('exp') and len(case['exp']) >= attempt_no else -1,
              'returned': False}
        if exc is None:
            ev.update(judge_period(case, P, ts, k))
        else:
            ev['exc_type'] = type(exc).__name__
            ev['message'] = str(exc)[:120]
        events.append(ev)
        if exc is not None:
            if plan and not retried and int(plan['k']) == k:
                # the caller recovers: raises MaxIterations and / or loosens the tolerance, then solves the
                # SAME period again
                retried = True
                if plan.get('cap') is not None:
                    s.MaxIterations = int(plan['cap'])
                    cap = int(plan['cap'])
                if plan.get('tol') is not None:
                    s.ParameterErrorTolerance = float(plan['tol'])
                    case = dict(case, tol_param=float(plan['tol']))
                k -= 1
                continue
            failed = exc
            break
    fin['steps'] = len(events)
    if case.get('fn_pred'):
        # spec/SolverFunctions.tla predicts which layer answers the call
        fin['fn_pred'] = case['fn_pred']
        fin['fn_obs'] = 'functions' if any(c.total > 0 for c in counters.values()) else 'other'
    if failed is None:
        fin['returned'] = True
        for ev in events:
            ev['returned'] = True
    else:
        fin['exc'] = exc_class(failed)
        fin['exc_type'] = type(failed).__name__
    fin['lens_ok'] = bool(failed is not None or all(len(x) == horizon + 1 for x in _series(s.TimeSeries).values()))
    fin['series'] = {v: [repr(x) for x in vals][:6] for v, vals in list(_series(s.TimeSeries).items())[:8]}
    if whole and not plan:
        # the same case through SolveEquation() itself
        try:
            s2 = _make_solver(case)
            exc2 = None
            try:
                s2.SolveEquation()
            except Exception as e:
                exc2 = e
            a, b = _series(s.TimeSeries), _series(s2.TimeSeries)
            same = set(a) == set(b) and all(len(a[v]) == len(b[v]) and all(_same(x, y) for x, y in zip(a[v], b[v]))
                                            for v in a)
            if (failed is None) != (exc2 is None) or (failed is not None and type(failed) is not type(exc2)):
                same = False
            fin['whole_equal'] = bool(same)
        except Exception:
            fin['whole_equal'] = False
    events.append(fin)
    return events


TLA_STEP_FIELDS = ('ev', 'k', 'sweeps', 'cap', 'horizon', 'exit', 'errNaN', 'finite', 'traced', 'resid_ok', 'undef', 'tol_ge1', 'tol_zero', 'met_tol',
                   'deco_exact', 'lag_exact', 'exo_exact', 'len_sim', 'len_lag', 'len_deco', 'len_min', 'len_max',
                   'prefix_intact', 'exp_n', 'returned')
TLA_FINISH_FIELDS = ('ev', 'returned', 'contractive', 'exc', 'horizon', 'whole_equal', 'steps', 'lens_ok',
                     'alias_pred', 'alias_obs', 'fn_pred', 'fn_obs')


def for_tla(events):
    """only the uniformly typed fields go to TLC"""
    out = []
    for ev in events:
        keys = TLA_STEP_FIELDS if ev['ev'] == 'Step' else TLA_FINISH_FIELDS
        out.append({k: ev[k] for k in keys})
    return out


# ----------------------------------------------------------------------------------------------
# (a) scenarios realising the behaviours of spec/Solver.tla
# ----------------------------------------------------------------------------------------------

SCENARIO_VARIANTS = [(pos, err) for pos in ('last', 'first') for err in ('div', 'log', 'fn')]


def scenario_variants(beh):
    """Behaviours whose last period has a persistent evaluation error are realised with the failing
    equation declared last and declared first (so it is / is not the last simultaneous equation), with
    ZeroDivisionError, ValueError (log10 of 0) and a user function raising ValueError; overflowing ones
    with the overflowing variable declared last and first."""
    last = beh['periods'][-1]
    if beh['final'] == 'done' or last['deco'] != 'none':
        return [('last', 'div')]
    if last['last'] in ('everr_le', 'everr_gt'):
        return list(SCENARIO_VARIANTS)
    if last['last'] in ('overflow', 'overflow_nan'):
        return [('last', 'div'), ('first', 'div')]
    return [('last', 'div')]


def scenario(beh, variant=('last', 'div')):
    """One equation block per TLC behaviour.  Every period gets its regime from exogenous switches:
    a chain c1 <- c2 <- c3 whose open depth fixes the number of sweeps, plus one failure mechanism in
    the last period.  MaxIterations = the behaviour's Cap, so sweep counts are realised exactly."""
    H = int(beh['horizon'])
    cap = int(beh['cap'])
    attempts = beh['periods']                 # one record per attempt (SolveStep call)
    failing = beh['final'] != 'done'
    # one effective record per period: the retry if it succeeded, else the (last) failing attempt
    periods, osc_at, retry = [], [], None
    for i, rec in enumerate(attempts):
        if i > 0 and attempts[i - 1]['k'] == rec['k']:
            f = attempts[i - 1]
            retry = {'k': int(rec['k']), 'cap': int(rec['cap']),
                     'tol': 1000.0 if (rec['big'] and not f['big']) else None}
            if rec['exit'] == 'appended' and rec['deco'] == 'ok':
                if f['last'] == 'notyet':
                    osc_at.append(int(rec['k']))      # expansive in this period; solved at the loosened tolerance
                periods[-1] = rec
            # (a retry that fails again is realised by the same mechanism as the first attempt)
        else:
            periods.append(rec)
    P = len(periods)
    last = periods[-1]
    c = new_case('tlc:' + beh['final'], maxtime=H, cap=cap, reduction=True, lam=10.0)
    c['retry'] = retry
    eqs, lags, ics, exos = c['eqs'], c['lags'], c['ics'], c['exos']
    position, errkind = variant
    big = bool(attempts[0]['big'])
    zero = bool(attempts[0].get('zero'))
    if zero:
        # a requested tolerance of exactly 0: on the solver (float / int) or in the block
        how = (P * 5 + int(attempts[-1]['n']) + len(beh['final'])) % 4
        if how == 0:
            c['tol_param'] = 0.0
        elif how == 1:
            c['tol_param'] = 0
        else:
            c['tol_line'] = '0' if how == 2 else '0.0'
    if big:
        # tolerance >= 1: rotated over the values and the two ways of stating it
        idx = (P * 7 + int(periods[-1]['n']) * 3 + len(beh['final'])) % 6
        tol = (1.0, 2.0, 1000.0)[idx % 3]
        if idx < 3:
            c['tol_line'] = repr(tol)
        else:
            c['tol_param'] = tol
    mech = []          # the equations of the failure mechanism (placed last or first)

    def failing_rhs(arg):
        if errkind == 'div':
            return '1/%s' % arg, '1.0'
        if errkind == 'log':
            return 'log10(%s)' % arg, '0.0'
        c['funcs'] = ['rlog']
        return 'rlog(%s)' % arg, '0.0'

    def path(default, at=None):
        """exogenous switch: `default` everywhere, at[p] in period p"""
        v = [float(default)] * (H + 1)
        for p, x in (at or {}).items():
            if p <= H:
                v[p] = float(x)
        return v

    # --- chain: depth d_p = number of sweeps that still change something
    depth = []
    for i, rec in enumerate(periods):
        n = int(rec['n'])
        fail_here = failing and i == P - 1
        if not fail_here:
            d = n - 1
        elif rec['last'] == 'approx' and not rec.get('zero'):
            d = n - 1
        elif rec['last'] == 'converge' or rec['last'] == 'everr_le':
            d = n - 1
        else:
            d = 0
        if rec['big'] and d == 0 and (not fail_here or rec['last'] in ('converge', 'everr_le')):
            d = 1          # the single sweep has something to do (one sweep is enough at a tolerance >= 1)
        depth.append(min(d, 3))
    u, g2, g3 = [0.0], [0.0], [0.0]
    for p in range(1, H + 1):
        d = depth[p - 1] if p <= P else 0
        if d == 0:
            u.append(u[-1]); g2.append(g2[-1]); g3.append(g3[-1])
        else:
            u.append(u[-1] + 10.0)
            g2.append(1.0 if d >= 2 else 0.0)
            g3.append(1.0 if d >= 3 else 0.0)
    eqs += [['c1', 'u + 0*c1'], ['c2', 'c1*g2 + 0*c2'], ['c3', 'c2*g3 + 0*c3'], ['dl', 'LAG_c1 + c1']]
    lags.append(['LAG_c1', 'c1'])
    exos += [['u', u], ['g2', g2], ['g3', g3]]

    # --- transient evaluation error in period p (own variables, no residue in later periods)
    for i, rec in enumerate(periods):
        if not rec['tr']:
            continue
        p = i + 1
        fail_here = failing and i == P - 1
        sigma = 2.0 if (int(rec['n']) == 2 or fail_here) else 1.0
        w, q, h, sname = 'w%d' % p, 'q%d' % p, 'h%d' % p, 's%d' % p
        eqs += [[w, '%s + 0*%s' % (h, w)], [q, '1/(%s + %s) + 0*%s' % (w, sname, q)]]
        ics.append([q, fl(1.0 / sigma)])
        exos += [[h, [0.0 if k < p else 2.0 for k in range(H + 1)]],
                 [sname, [sigma if k < p else 0.0 for k in range(H + 1)]]]

    exp = [int(r['n']) + (1 if r['last'] == 'other' else 0) for r in attempts]      # sweeps started, per attempt
    # "approx": a slowly converging variable is displaced by 1e-9 in that period, so the error of the sweeps
    # is about 5e-10 / 2^j: within every tolerance in use, never exactly 0 within the cap
    approx_at = [int(r['k']) for r in periods if r['last'] == 'approx']
    if approx_at:
        cs = [1.0]
        for k in range(1, H + 1):
            cs.append(cs[-1] + (1e-9 if k in approx_at else 0.0))
        eqs.append(['sl', '0.5*sl + cs'])
        ics.append(['sl', '2.0'])
        exos.append(['cs', cs])
    if osc_at and not (failing and last['last'] in ('notyet', 'everr_gt')):
        eqs.append(['o', 'a*o + 1'])
        ics.append(['o', '1.0'])
        exos.append(['a', path(0.0, {k: -2.0 for k in osc_at})])
    if failing:
        n = int(last['n'])
        kind, lo, deco = last['exit'], last['last'], last['deco']
        if deco == 'value_error':
            eqs.append(['dv', 'log(gd)'])
            exos.append(['gd', path(1.0, {P: -1.0})])
        elif deco == 'other_error':
            eqs.append(['dz', '1/gz2'])
            exos.append(['gz2', path(1.0, {P: 0.0})])
        elif lo == 'other':
            exos.append(['ue', path(0.0, {P: 1000.0})])
            prev = 'ue'
            for j in range(1, n + 1):
                eqs.append(['ce%d' % j, '%s + 0*ce%d' % (prev, j)])
                prev = 'ce%d' % j
            eqs.append(['xe', 'exp(%s) + 0*xe' % prev])
            ics.append(['xe', '1.0'])
        else:
            if lo in ('notyet', 'everr_gt'):
                eqs.append(['o', 'a*o + 1'])
                ics.append(['o', '1.0'])
                exos.append(['a', path(0.0, dict([(P, -2.0)] + [(k, -2.0) for k in osc_at]))])
            if lo == 'overflow':
                mech.append(['v', 'v*m + (m - 1)'])
                ics.append(['v', '1.0'])
                exos.append(['m', path(1.0, {P: 1e308})])
            if lo == 'overflow_nan':
                mech.append(['r', 'm2*1e308 - m2*1e308 + 0*r'])
                exos.append(['m2', path(1.0, {P: 10.0})])
            if lo in ('everr_le', 'everr_gt'):
                if last['tr']:
                    # evaluation error only from sweep n on: a clean sweep lies between the transient
                    # error and this one
                    exos.append(['uz', path(1.0, {P: 0.0})])
                    prev = 'uz'
                    for j in range(1, max(1, n - 1) + 1):
                        mech.append(['zc%d' % j, '%s + 0*zc%d' % (prev, j)])
                        ics.append(['zc%d' % j, '1.0'])
                        prev = 'zc%d' % j
                    rhs, ic = failing_rhs(prev)
                else:
                    rhs, ic = failing_rhs('gz')
                    exos.append(['gz', path(1.0, {P: 0.0})])
                mech.append(['z', rhs + ' + 0*z'])
                ics.append(['z', ic])
    if position == 'first':
        eqs[0:0] = mech
    else:
        eqs.extend(mech)
    c['exp'] = exp
    c['label'] = 'tlc:%s:%s:%s%s%s:%s' % (beh['final'], position, errkind, ':bigtol' if big else '',
                                          ':retry' if retry else '',
                                          '/'.join('%d.%d%s%s%s' % (r['k'], r['n'], 't' if r['tr'] else '', r['last'][:4],
                                                                    r['deco'][:1]) for r in attempts))
    return c


def _retry_ok(f, r):
    """can the second SolveStep of a period (record r) be realised after the failed first one (record f)?"""
    if f['tr'] or r['tr'] or f['big']:
        return False
    solved = r['exit'] == 'appended' and r['deco'] == 'ok' and r['last'] == 'converge'
    if f['exit'] == 'raised_convergence' and f['last'] == 'converge' and solved:
        return (not r['big']) and int(r['n']) == int(f['n']) and int(r['cap']) >= int(r['n'])     # the cap was raised
    if f['exit'] == 'raised_convergence' and f['last'] == 'notyet' and solved:
        return bool(r['big']) and int(r['n']) == 1                                              # the tolerance was loosened
    # the same failure again
    if r['big'] != f['big'] or r['exit'] != f['exit'] or r['last'] != f['last'] or r['deco'] != f['deco']:
        return False
    if f['deco'] != 'none' or f['last'] in ('other', 'everr_le', 'converge'):
        if f['last'] == 'converge' and f['deco'] == 'none' and int(r['cap']) >= int(f['n']):
            return False                      # with the raised cap this attempt would have been solved
        return int(r['n']) == int(f['n'])
    return int(r['n']) == int(r['cap']) + 1   # notyet / everr_gt / overflow: runs into the cap in force


def scenario_realisable(beh):
    attempts = beh['periods']
    for r in attempts:
        if int(r['n']) > 4:
            return False
        if r['last'] == 'approx':
            if r['tr'] or r['big']:
                return False
            if r.get('zero'):
                # never exactly stationary: the period runs into the cap
                if r['exit'] != 'raised_convergence' or int(r['n']) != int(r['cap']) + 1:
                    return False
            elif r['exit'] == 'raised_convergence' and int(r['n']) != int(r['cap']) + 1:
                return False
    n_att = len(attempts)
    for i, r in enumerate(attempts):
        retried_next = i + 1 < n_att and attempts[i + 1]['k'] == r['k']
        is_retry = i > 0 and attempts[i - 1]['k'] == r['k']
        if is_retry and not _retry_ok(attempts[i - 1], r):
            return False
        if r['big']:
            # at a tolerance >= 1 a relative change never exceeds the tolerance: only attempts of one sweep
            # (or sweeps whose error measure is NaN) can be realised
            failed = r['exit'] != 'appended' or r['deco'] != 'ok'
            if r['tr']:
                return False
            if not failed or r['last'] in ('converge', 'everr_le'):
                if int(r['n']) != 1:
                    return False
            elif r['last'] == 'other':
                if int(r['n']) != 0:
                    return False
            elif r['last'] not in ('overflow', 'overflow_nan'):
                return False
        if retried_next and r['tr']:
            return False
    return True


# ----------------------------------------------------------------------------------------------
# (a2) systems realising the shapes of spec/SolverForms.tla
# ----------------------------------------------------------------------------------------------

FORM_TEXT = {'plain': '%s', 'plus': '+%s', 'par': '(%s)', 'neg': '-%s', 'neg_sp': '- %s', 'neg_par': '(-%s)',
             'neg_mul': '-1*%s', 'zero_minus': '0 - %s'}
# position -> (expression in the alias name, bound on |d expr / d alias| for |alias| <= 4)
POSITION_TEXT = {
    'sum': ('%s + 5', 1), 'sub': ('5 - %s', 1), 'uminus': ('-%s + 5', 1), 'factor': ('2*%s', 2),
    'factor_r': ('%s*2', 2), 'dividend': ('%s/2', 1), 'divisor': ('8/%s', 2), 'div_chain': ('8/%s/2', 1),
    'pow2': ('%s**2', 8), 'pow3': ('%s**3', 48), 'neg_pow2': ('-%s**2', 8), 'sub_pow2': ('5 - %s**2', 8),
    'par_pow2': ('(%s)**2', 8), 'powfn': ('pow(%s, 2)', 8), 'self_mul': ('%s*%s', 8), 'sub_mul': ('5 - %s*2', 2),
    'pow_exp': ('2**%s', 12), 'abs': ('abs(%s)', 1), 'max1': ('max(%s, 1)', 1), 'paren_mul': ('(%s)*2', 2),
}


def form_case(beh):
    """A = <form>(S);  U = 0.25*U + <position>(A): the source S takes the values 2 and -4 over the periods
    (simultaneous: y = 0.5*y + cy; exogenous path; lagged: LAG_w = w(k-1) with w(0) = 2)."""
    sysd = beh['sys']
    src = sysd['src']
    H = 2
    c = new_case('form:%s:%s:%s%s%s%s' % (sysd['form'], sysd['pos'], src, ':ic' if sysd['ic'] else '',
                                          ':red' if sysd['red'] else ':nored', ':via' if sysd['via'] else ''),
                 maxtime=H, reduction=bool(sysd['red']), tol_line='1e-6')
    eqs = c['eqs']
    if src == 'sim':
        eqs.append(['y', '0.5*y + cy'])
        c['exos'].append(['cy', [1.0, 1.0, -2.0]])
        s_name = 'y'
    elif src == 'exo':
        c['exos'].append(['y', [2.0, 2.0, -4.0]])
        s_name = 'y'
    else:
        H = 3
        c['maxtime'] = H
        eqs.append(['w', '0.5*w + cw'])
        c['exos'].append(['cw', [1.0, -2.0, -2.0, 1.0]])
        c['ics'].append(['w', '2.0'])
        c['lags'].append(['LAG_w', 'w'])
        s_name = 'LAG_w'
    eqs.append(['a', FORM_TEXT[sysd['form']] % s_name])
    if sysd['ic']:
        c['ics'].append(['a', '1.0'])
    used = 'a'
    if sysd['via']:
        eqs.append(['b', 'a'])
        used = 'b'
    text, deriv = POSITION_TEXT[sysd['pos']]
    expr = text % ((used,) * text.count('%s'))
    eqs.append(['u', '0.25*u + ' + expr])
    c['lam'] = 0.25 + float(deriv)
    c['alias'] = {'name': 'a', 'subst': bool(beh['subst'])}
    return c


# ----------------------------------------------------------------------------------------------
# (a3) systems realising the declarations of spec/SolverChains.tla
# ----------------------------------------------------------------------------------------------

def chain_case(decl):
    """source S, copies v1 = S, v2 = v1, ... written in the declared order, optional leaf on a link;
    the source changes its value in every period, so a value taken one period late is visible."""
    n = int(decl['n'])
    src = decl['src']
    c = new_case('chain:%d:%s:%s:%s%s:%s%s' % (
        n, ''.join(str(i) for i in decl['order']), 'srcfirst' if decl['srcFirst'] else 'srclast',
        decl['leaf'], (str(decl['leafOn']) + ('f' if decl['leafFirst'] else 'l')) if decl['leaf'] != 'none' else '',
        src, ':red' if decl['red'] else ':nored'),
        maxtime=3, reduction=bool(decl['red']), tol_line='1e-6', lam=2.0)
    source_eqs = []
    if src == 'sim':
        source_eqs.append(['x', '0.5*x + cx'])
        c['exos'].append(['cx', [1.0, 1.0, -2.0, 3.0]])
        s_name = 'x'
    elif src == 'exo':
        c['exos'].append(['x', [2.0, 2.0, -4.0, 5.0]])
        s_name = 'x'
    else:
        source_eqs.append(['w', '0.5*w + cw'])
        c['exos'].append(['cw', [1.0, -2.0, 3.0, 1.0]])
        c['ics'].append(['w', '2.0'])
        c['lags'].append(['LAG_w', 'w'])
        s_name = 'LAG_w'
    links = {i: ['v%d' % i, s_name if i == 1 else 'v%d' % (i - 1)] for i in range(1, n + 1)}
    chain = [links[int(i)] for i in decl['order']]
    eqs = (source_eqs + chain) if decl['srcFirst'] else (chain + source_eqs)
    if decl['leaf'] == 'deco':
        leaf = [['lf', '2*v%d + 1' % int(decl['leafOn'])]]
    elif decl['leaf'] == 'sim':
        leaf = [['u', '0.25*u + v%d' % int(decl['leafOn'])]]
    else:
        leaf = []
    c['eqs'] = (leaf + eqs) if decl['leafFirst'] else (eqs + leaf)
    return c


# ----------------------------------------------------------------------------------------------
# (a4) systems realising the behaviours of spec/SolverFunctions.tla
# ----------------------------------------------------------------------------------------------

def function_cases(beh):
    """One case per name of the behaviour's class and arity: the function (clip to +-5, or the mean of two
    arguments) is registered under that name and called by a simultaneous row, a derived-only row or both.
    At the solution the arguments are about 2..4, where the registered function and every library homonym
    differ clearly."""
    use = beh['use']
    out = []
    for name in FUNCTION_NAMES[use['class']][int(use['arity'])]:
        impl = 'sat' if int(use['arity']) == 1 else 'avg2'
        call_y = '%s(y)' % name if impl == 'sat' else '%s(y, 4.0)' % name
        call_x = '%s(x)' % name if impl == 'sat' else '%s(x, y)' % name
        c = new_case('fn:%s:%s:%d:%s%s' % (use['class'], name, int(use['arity']), use['place'],
                                           ':red' if use['red'] else ':nored'),
                     maxtime=2, reduction=bool(use['red']), tol_line='1e-6', lam=1.0,
                     funcs=['%s=%s' % (name, impl)])
        eqs = c['eqs']
        eqs.append(['y', '0.5*y + cy'])
        c['exos'].append(['cy', [1.0, 1.0, 1.5]])
        if use['place'] in ('sim', 'both'):
            eqs.append(['x', '0.25*x + 0.5*%s + 1' % call_y])
        else:
            eqs.append(['x', '0.25*x + 0.5*y + 1'])
        if use['place'] in ('deco', 'both'):
            eqs.append(['d', '2*%s + 1' % call_x])
        c['lam'] = 2.0
        c['fn_pred'] = beh['resolved'] if beh['resolved'] == 'functions' else 'other'
        out.append(c)
    return out


# ----------------------------------------------------------------------------------------------
# (a5) systems realising the declarations of spec/SolverScales.tla
# ----------------------------------------------------------------------------------------------

def scale_case(decl):
    """Quantities a = 1e<e> and b = 30e<e> (constant small / large units, or halving in every period down
    to that scale) and an equation s in which they are not negligible.  All equations are solved exactly
    in one sweep, so every one of them holds at the reported values at any scale."""
    e = int(decl['e'])
    A = 10.0 ** e
    H = 3
    c = new_case('scale:%d:%s:%s:%s%s' % (e, decl['use'], decl['path'], decl['place'], ':red' if decl['red'] else ':nored'),
                 maxtime=H, reduction=bool(decl['red']))
    eqs = c['eqs']
    if decl['path'] == 'level':
        eqs += [['a', '2*ea'], ['b', '2*eb']]
        c['exos'] += [['ea', [A / 2.0] * (H + 1)], ['eb', [15.0 * A] * (H + 1)]]
        c['lags'].append(['LAG_a', 'a'])
    else:
        eqs += [['a', '0.5*LAG_a'], ['b', '0.5*LAG_b']]
        c['lags'] += [['LAG_a', 'a'], ['LAG_b', 'b']]
        c['ics'] += [['a', fl(A * 2 ** H)], ['b', fl(30.0 * A * 2 ** H)]]
    use = decl['use']
    if use == 'ratio':
        expr, lam = 'a/b', (1.0 + 1.0 / 30.0) / (30.0 * A)
    elif use == 'bigcoef':
        expr, lam = 'a*%s' % fl(10.0 ** (-e)), 10.0 ** (-e)
    elif use == 'recip':
        expr, lam = '%s/a' % fl(A), 1.0 / A
    elif use == 'growth':
        expr, lam = 'a/LAG_a', 2.0 / A
    else:
        expr, lam = 'a + b', 2.0
    eqs.append(['s', expr if decl['place'] == 'deco' else expr + ' + 0*s'])
    c['lam'] = min(lam, 1e300) + 1.0
    return c


# ----------------------------------------------------------------------------------------------
# (c) the named designed systems
# ----------------------------------------------------------------------------------------------

def classics():
    out = []

    def add(label, eqs, **kw):
        c = new_case(label, **kw)
        c['eqs'] = [list(e) for e in eqs]
        out.append(c)
        return c

    for red in (True, False):
        add('affine', [('x', '0.5*x + 1'), ('y', '0.25*x + 0.5*y + t')], maxtime=5, lam=0.75, reduction=red,
            contractive=True)
        for cap in (None, 9, 10, 12, 30):
            add('square-plus-two', [('x', 'x*x + 2')], ics=[['x', '3']], maxtime=2, lam=1e6, cap=cap, reduction=red)
        add('exp-overflow', [('x', 'exp(x)')], maxtime=2, lam=1e6, reduction=red)
    for cap in list(range(0, 13)) + [40, None]:
        add('minus-two', [('x', '-2*x + 1')], maxtime=2, lam=2.0, cap=cap)
    add('minus-four', [('x', '-4*x + 1')], maxtime=2, lam=4.0)
    add('minus-four-off', [('x', '-4*x + 1')], maxtime=2, lam=4.0, reduction=False)
    add('persistent-div0', [('x', '0.5*x + 1'), ('y', '1/(x - x)'), ('z', 'y + x')], maxtime=2, lam=2.0)
    add('persistent-div0-cap3', [('x', '0.5*x + 1'), ('y', '1/(x - x)'), ('z', 'y + x')], maxtime=2, lam=2.0, cap=3)
    add('persistent-log0', [('x', '0.5*x + 1'), ('y', 'log10(x - x) + 0*y')], maxtime=2, lam=2.0)
    add('transient-div0', [('x', '1/(y)'), ('y', '2 + 0*x')], maxtime=3, lam=2.0)
    add('transient-div0-off', [('x', '1/(y)'), ('y', '2 + 0*x')], maxtime=3, lam=2.0, reduction=False)
    for red in (True,):
        add('deco-log-domain', [('x', '0.5*x + 1'), ('y', 'log(3 - t)')], maxtime=4, lam=1.0)
        add('deco-div0', [('x', '0.5*x + 1'), ('y', '1/(3 - t)')], maxtime=4, lam=1.0)
        add('deco-log-domain-many', [('x', '0.5*x + 1'), ('d1', 'x + 1'), ('d2', 'log(3 - t)'), ('d3', 'x*2')],
            maxtime=4, lam=1.0)
        add('deco-log-domain-k1', [('x', '0.5*x + 1'), ('y', 'log(1 - t)')], maxtime=2, lam=1.0)
    # a failing period placed at k = 1..3 after solvable ones
    for kf in (1, 2, 3):
        a = [0.5] * 5
        a[kf] = -4.0
        add('expansive-at-%d' % kf, [('x', 'a*x + 1')], exos=[['a', a]], maxtime=4, lam=4.0)
        g = [0.0] * 5
        g[kf] = 1.0
        add('overflow-at-%d' % kf, [('x', 'g*x*x + 2')], exos=[['g', g]], maxtime=4, lam=1e6)
        z = [1.0] * 5
        z[kf] = 0.0
        add('div0-at-%d' % kf, [('x', '0.5*x + 1'), ('y', '1/z + 0*y')], exos=[['z', z]], maxtime=4, lam=1.0)
        add('deco-log-at-%d' % kf, [('x', '0.5*x + 1'), ('y', 'log(z)')], exos=[['z', [v - 0.5 for v in z]]],
            maxtime=4, lam=1.0)
    # a persistent evaluation error in a simultaneous equation that is not the last one
    g = [6.0, 6.0, 6.0, 5.0, 5.0, 7.0, 7.0]
    for red in (True, False):
        for kind, rhs, fns in (('div0', '10/z', []), ('log0', 'log10(z)', []), ('fn', 'rlog(z)', ['rlog'])):
            add('persistent-%s-not-last' % kind, [('x', rhs), ('z', 'G - 5'), ('y', 'x + z')], exos=[['G', g]],
                maxtime=6, lam=10.0, reduction=red, funcs=fns)
            add('persistent-%s-last' % kind, [('z', 'G - 5'), ('y', 'x + z + 0*y'), ('x', rhs + ' + 0*x')],
                exos=[['G', g]], maxtime=6, lam=10.0, reduction=red, funcs=fns)
    # an overflowing variable next to converging ones, declared first and declared last
    for red in (True, False):
        add('overflow-first', [('x', '3*x*x + 1'), ('y', '0.5*y + 10'), ('w', 'y + x')], maxtime=3, lam=1e6,
            reduction=red)
        add('overflow-last', [('y', '0.5*y + 10'), ('w', 'y + x'), ('x', '3*x*x + 1')], maxtime=3, lam=1e6,
            reduction=red)
    # tolerances >= 1, stated in the block and through ParameterErrorTolerance
    for tol in (1.0, 2.0, 1000.0):
        for via in ('line', 'param'):
            kw = {'tol_line': repr(tol)} if via == 'line' else {'tol_param': tol}
            for red in (True, False):
                add('bigtol-affine', [('x', '0.5*x + 1000.')], maxtime=3, lam=0.5, reduction=red, **kw)
                add('bigtol-two', [('x', '0.25*y + 0.25*x + e1'), ('y', '0.5*x + 10'), ('d', '2*x + y')],
                    exos=[['e1', [5.0, 50.0, -20.0, 400.0]]], maxtime=3, lam=0.5, reduction=red, **kw)
                add('bigtol-lag', [('x', '0.5*LAG_x + 0.25*x + 100')], lags=[['LAG_x', 'x']], maxtime=3, lam=0.25,
                    reduction=red, **kw)
    # a requested tolerance of exactly zero (and a denormal-small one), on the solver and in the block
    for kw in ({'tol_param': 0.0}, {'tol_param': 0}, {'tol_line': '0'}, {'tol_line': '0.0'}, {'tol_param': 1e-300},
               {'tol_line': '1e-300'}):
        for red in (True, False):
            add('zerotol-two', [('x', '0.5*x + y'), ('y', '0.25*x + 1.')], maxtime=2, lam=1.5, reduction=red, **kw)
            add('zerotol-exact', [('x', '0.5*x + 1')], maxtime=2, lam=0.5, reduction=red, **kw)
            add('zerotol-lag', [('x', '0.5*LAG_x + 3'), ('d', '2*x')], lags=[['LAG_x', 'x']], maxtime=3, lam=0.0,
                reduction=red, **kw)
    add('cap0-trivial', [('x', '5.0')], maxtime=2, lam=0.0, cap=0)
    add('cap0-trivial-off', [('x', '5.0')], maxtime=2, lam=0.0, cap=0, reduction=False)
    add('userfn', [('x', '0.5*sat(x) + 1 + 0.1*y'), ('y', '0.3*x + 2')], maxtime=3, lam=0.6, funcs=['sat'],
        contractive=True)
    return out


# ----------------------------------------------------------------------------------------------
# (b) seeded random systems with a known sup-norm Lipschitz bound
# ----------------------------------------------------------------------------------------------

def _split(rng, total, parts):
    cuts = sorted(rng.random() for _ in range(parts - 1))
    pts = [0.0] + cuts + [1.0]
    return [total * (pts[i + 1] - pts[i]) for i in range(parts)]


def _coef(x):
    return repr(round(x, 4))


def random_system(rng, idx, contractive):
    """Affine rows with bounded row sums and optional 1-Lipschitz wrappers (abs, max, min, user
    function), lags, exogenous paths, alias chains, decorative trees.  Returns a case."""
    n = rng.randint(1, 9 if contractive else 10)
    H = rng.randint(1, 4)
    reduction = rng.random() < 0.6
    xs = ['x%d' % i for i in range(1, n + 1)]
    rho = round(rng.uniform(0.0, 0.8), 3) if (contractive or rng.random() < 0.7) else round(rng.uniform(0.8, 3.0), 3)
    cmax = 100.0 if contractive else rng.choice([1.0, 100.0, 1000.0])
    use_fn = rng.random() < 0.25
    fn = rng.choice(sorted(LIPSCHITZ_FUNCS)) if use_fn else None
    fn_row = rng.randrange(n) if use_fn else -1
    # aliases of x variables
    aliases = []
    n_alias = rng.choice([0, 0, 1, 2]) if n + 1 < 11 else 0
    for i in range(n_alias):
        src = rng.choice(xs + [a for a, _ in aliases])
        aliases.append(('al%d' % (i + 1), src))
    # exogenous paths
    exos = []
    for i in range(rng.choice([0, 1, 1, 2])):
        exos.append(['ex%d' % (i + 1), [round(rng.uniform(-50, 50), 2) for _ in range(H + 1)]])
    lag_src = rng.sample(xs, min(len(xs), rng.choice([0, 1, 1, 2])))
    lags = [['LAG_%s' % v, v] for v in lag_src]
    rows = []
    lam = 0.0
    refs = xs + [a for a, _ in aliases]

    def row(target, self_term, budget, allow_fn):
        nonlocal lam
        terms = [_coef(rng.uniform(-cmax, cmax))]
        k_terms = rng.randint(0, min(3, len(refs)))
        chosen = rng.sample(refs, k_terms)
        if self_term and target not in chosen:
            chosen.append(target)
        used = 0.0
        if chosen:
            total = budget * rng.uniform(0.3, 1.0)
            for v, wgt in zip(chosen, _split(rng, total, len(chosen))):
                a = round(wgt, 4)
                if a == 0.0:
                    continue
                used += a
                sign = rng.choice(['+', '-'])
                form = rng.random()
                if allow_fn and v == chosen[0]:
                    t = '%s(%s)' % (fn, v)
                elif form < 0.12:
                    t = 'abs(%s)' % v
                elif form < 0.2:
                    t = 'max(%s, %s)' % (v, _coef(rng.uniform(-20, 20)))
                elif form < 0.28:
                    t = 'min(%s, %s)' % (v, _coef(rng.uniform(-20, 20)))
                else:
                    t = v
                terms.append('%s %s*%s' % (sign, repr(a), t))
        lam = max(lam, used)
        for lv, _ in lags:
            if rng.random() < 0.4:
                terms.append('%s %s*%s' % (rng.choice(['+', '-']), _coef(rng.uniform(0.01, 0.05 if contractive else 0.9)), lv))
        for en, _ in exos:
            if rng.random() < 0.4:
                terms.append('%s %s*%s' % (rng.choice(['+', '-']), _coef(rng.uniform(0.05, 1.0)), en))
        return ' '.join(terms)

    for i, v in enumerate(xs):
        allow = (i == fn_row)
        rows.append([v, row(v, allow or rng.random() < 0.5, rho, allow)])
    if use_fn and (fn + '(') not in rows[fn_row][1]:
        rows[fn_row][1] += ' + %s*%s(%s)' % (repr(0.0), fn, xs[fn_row])   # exactly one call per sweep
    # decorative trees (rows nobody depends on, second level uses the first)
    decos = []
    n_deco = rng.choice([0, 1, 2, 3]) if n + n_alias + 1 < 12 else 0
    n_deco = min(n_deco, 12 - (n + n_alias + 1))
    for i in range(n_deco):
        name = 'd%d' % (i + 1)
        budget = 0.8 if contractive else rng.choice([0.8, 2.0, 5.0])
        save = refs
        if i >= 1 and rng.random() < 0.5:
            refs = refs + ['d%d' % i]
        decos.append([name, row(name, False, budget, False)])
        refs = save
    # an alias may be a mirror image (al = -x): still 1-Lipschitz
    eqs = rows + [[a, ('-' + s) if rng.random() < 0.3 else s] for a, s in aliases] + decos
    rng.shuffle(eqs)
    if aliases and not reduction:
        lam = max(lam, 1.0)
    tol_exp = rng.randint(3, 8) if contractive else rng.randint(3, 10)
    tol_line = tol_param = None
    r = rng.random()
    if r < 0.45:
        tol_line = '1e-%d' % tol_exp
    elif r < 0.9:
        tol_param = 10.0 ** (-tol_exp)
    if rng.random() < 0.1:
        big_tol = rng.choice([1.0, 2.0, 1000.0])          # "all tolerances"
        if tol_param is not None:
            tol_param = big_tol
        else:
            tol_line, tol_param = repr(big_tol), None
    cap = None if contractive else rng.choice([None, None, None, 0, 1, 2, 5, 12, 50, 400])
    ics = []
    for v in xs:
        if rng.random() < 0.2:
            ics.append([v, _coef(rng.uniform(-100, 100))])
    total_rows = len(eqs) + 1
    is_contr = bool(contractive and total_rows <= 12 and (reduction or not aliases))
    c = new_case('random:%d' % idx, eqs=eqs, lags=lags, exos=exos, ics=ics, maxtime=H, tol_line=tol_line,
                 tol_param=tol_param, cap=cap, reduction=reduction, funcs=[fn] if use_fn else [],
                 lam=round(lam + 1e-9, 6), contractive=is_contr)
    return c


def random_cases(seed, count, contractive_share=0.5):
    rng = random.Random(seed)
    out = []
    for i in range(count):
        out.append(random_system(rng, i, rng.random() < contractive_share))
    return out


# ----------------------------------------------------------------------------------------------
# signatures
# ----------------------------------------------------------------------------------------------

def failing_step(events):
    for ev in events:
        if ev['ev'] == 'Step' and ev['exit'] != 'converged':
            return ev
    return None


def signature(clause, case, events):
    steps = [e for e in events if e['ev'] == 'Step']
    fin = events[-1]
    if clause == 'C02_DivergedNotSolved':
        if any(e['exit'] == 'converged' and e['errNaN'] for e in steps):
            return 'nan-error-exits-loop'
        return 'non-finite-value-reported-as-solved'
    if clause in ('C11_UnsolvableRaises', 'C11_PersistentErrorRaises') and any(
            e['sweeps'] == 0 and e['exit'] == 'converged' and e['tol_ge1'] for e in steps):
        return 'no-sweep-at-tolerance-ge-1'
    if clause == 'C11_UnsolvableRaises':
        return 'diverged-period-not-raised'
    if clause == 'C11_PersistentErrorRaises':
        return 'persistent-evaluation-error-not-raised'
    if clause in ('C02_Residual', 'C02_DecorativeExact') and any(
            e['sweeps'] == 0 and e['exit'] == 'converged' and e['tol_ge1'] for e in steps):
        return 'no-sweep-at-tolerance-ge-1'
    if clause == 'C02_Residual' and any(e.get('undef') for e in steps):
        return 'equation-undefined-at-reported-values'
    if clause == 'C11_ToleranceHonoured':
        if any(e.get('tol_zero') for e in steps):
            return 'requested-zero-tolerance-not-honoured'
        return 'requested-tolerance-not-honoured'
    if clause == 'C11_EqualLengthsAfterFailure':
        f = failing_step(events)
        if f is not None and f['len_sim'] > f['len_deco'] and f['len_sim'] == f['k'] + 1:
            return 'decorative-pass-error-leaves-unequal-lengths'
        return 'unequal-lengths-after-failure'
    if clause == 'C11_ContractionSolved':
        return 'contraction-not-solved:' + str(fin.get('exc_type') or fin.get('exc'))
    if clause == 'C11_BoundedSweeps':
        return 'sweeps-exceed-cap-plus-one'
    if clause == 'C11_PrefixIntact':
        return 'solved-prefix-changed'
    if clause == 'C11_FailureRaises':
        f = failing_step(events)
        return 'failure-is-not-a-value-or-arithmetic-error:' + str((f or fin).get('exc_type'))
    if case.get('retry') and clause in ('C02_DecorativeExact', 'C02_LaggedExact', 'C02_Residual') and any(
            e['len_min'] != e['len_max'] for e in steps):
        return 'period-recorded-partly-before-retry'
    kind = case['label'].split(':')[0]
    if kind == 'scale':
        lab = case['label'].split(':')
        return 'reported-values-inconsistent-at-%s-scale' % ('small' if int(lab[1]) < 0 else 'unit-or-large')
    if kind == 'fn':
        lab = case['label'].split(':')
        if fin.get('fn_pred') == 'functions' and fin.get('fn_obs') == 'other':
            return '%s:registered-function-not-called:%s-name' % (clause, lab[1])
        return '%s:fn:%s' % (clause, lab[1])
    if kind == 'chain' and clause == 'C02_DecorativeExact':
        return 'C02_DecorativeExact:copy-chain-value-of-another-period'
    if kind == 'form':
        lab = case['label'].split(':')
        if fin.get('alias_pred') == 'kept' and fin.get('alias_obs') == 'substituted':
            return '%s:copy-variable-%s-substituted-textually' % (clause, lab[1])
        return '%s:form:%s:%s' % (clause, lab[1], lab[2])
    return '%s:%s' % (clause, kind)


# ----------------------------------------------------------------------------------------------
# the part of a check run shared by C02 and C11
# ----------------------------------------------------------------------------------------------

def tlc_behaviours(rep, core, tier):
    """exhaustive TLC runs of the control instance; returns the distinct maximal behaviours"""
    # MC_Solver_retry.cfg: the caller-level Retry (small alphabet, Cap 1), in both tiers
    # MC_Solver_zero.cfg: a requested tolerance of exactly 0 and the sweep outcome "approx"
    cfgs = ['MC_Solver_quick.cfg', 'MC_Solver_retry.cfg', 'MC_Solver_zero.cfg'] if tier == 'quick' else \
        ['MC_Solver_quick.cfg', 'MC_Solver_retry.cfg', 'MC_Solver_zero.cfg', 'MC_Solver_thorough.cfg']
    seen = {}
    for cfg in cfgs:
        res = core.tlc('MC_Solver', cfg, workers=1, tag=rep.prop.lower())
        if res.violated:
            raise core.MachineryError('spec invariant %s violated in %s' % (res.violated, cfg))
        rep.add_tlc(res, 'exhaustive ' + cfg)
        behs = core.json_of_printed(res, 'BEH')
        if not behs:
            raise core.MachineryError('TLC emitted no behaviours for ' + cfg)
        for b in behs:
            seen.setdefault(core.canonical(b), b)
        rep.extra.setdefault('behaviours_emitted', {})[cfg] = len(behs)
    return list(seen.values())


def expect_counterexample(rep, core, cfg, invariant, module='MC_Solver'):
    """the as-found / defective variant of the spec must still produce TLC's counterexample"""
    res = core.tlc(module, cfg, workers=1, tag=rep.prop.lower(), want_printed=False)
    if res.violated != invariant:
        raise core.MachineryError('%s: expected %s to be violated, TLC reports %r' % (cfg, invariant, res.violated))
    rep.add_tlc(res, 'as-found variant %s: counterexample to %s reproduced' % (cfg, invariant))


def judge_cases(rep, core, focus, items, nontrivial):
    """items: list of dicts {'case': case, 'behaviour': beh | None}.  Observes every case on the real
    solver, lets TLC (Solver_Trace, FOCUS=focus) judge, files violations / drift."""
    traces = []
    observed = []
    for i, it in enumerate(items):
        ev = observe(it['case'], whole=it.get('whole', True))
        observed.append(ev)
        traces.append((i, for_tla(ev)))
    verdicts, st, tr = core.validate_traces('MC_Solver_Trace', 'MC_Solver_Trace.cfg', traces,
                                            tag=rep.prop.lower(), env={'FOCUS': focus})
    rep.traces += len(traces)
    rep.extra['trace_validation_states'] = rep.extra.get('trace_validation_states', 0) + st
    n_steps = 0
    for i, it in enumerate(items):
        ev = observed[i]
        case = it['case']
        n_steps += sum(1 for e in ev if e['ev'] == 'Step')
        summary = {'label': case['label'], 'text': render(case), 'cap': case['cap'], 'reduction': case['reduction'],
                   'tolerance': tolerance_of(case), 'lam': case['lam'], 'funcs': case['funcs'],
                   'contractive': case['contractive']}
        if len(rep.samples) < 5:
            summary['observed'] = ev
        rep.add_case(summary, nontrivial(case, ev))
        v = verdicts[i]
        if v == 'ok:':
            continue
        kind, clause = v.split(':', 1)
        stored = {'case': case, 'behaviour': it.get('behaviour'), 'observed': ev}
        if kind == 'property':
            rep.violate(clause, signature(clause, case, ev), stored,
                        detail='%s | %s' % (render(case).replace('\n', '; ')[:200],
                                            ' '.join('k=%d:%s/%d' % (e['k'], e['exit'], e['sweeps'])
                                                     for e in ev if e['ev'] == 'Step')))
        else:
            rep.add_drift(clause, {'label': case['label'], 'text': render(case), 'observed': ev})
    rep.extra['periods_observed'] = rep.extra.get('periods_observed', 0) + n_steps
    return observed, verdicts


def replay_case(core, prop, focus, path):
    import json
    with open(path) as f:
        data = json.load(f)
    stored = data['case']
    case = stored['case']
    rep = core.Report(prop, 'quick', 0)
    observed, verdicts = judge_cases(rep, core, focus, [{'case': case, 'behaviour': stored.get('behaviour')}],
                                     lambda c, e: True)
    print(render(case))
    print(json.dumps({'observed_now': observed[0]}, indent=1, default=str))
    for v in rep.violations:
        print('VIOLATION property=%s replay=%s' % (prop, path))
        print('  clause=%s signature=%s' % (v.clause, v.signature))
        return 1
    print('replay: property clause holds on this case now (verdict %s)' % verdicts[0])
    return 0


# ----------------------------------------------------------------------------------------------
# solves harvested from the repository's own test suite (harness/pytest_harvest.py)
# ----------------------------------------------------------------------------------------------

class _Lists(object):
    """the two parser lists judge_period needs"""
    def __init__(self, endogenous, decoration):
        self.Endogenous = endogenous
        self.Decoration = decoration


def _fl(x):
    try:
        return float(x)
    except Exception:
        return float('nan')


def _names_in(text):
    import re
    return set(re.findall(r'[A-Za-z_][A-Za-z_0-9]*', text))


def run_suite_harvest(core, timeout=1800):
    """Runs the repository's test suite of the tree under test with the harvest plugin.
    -> (records, wall seconds, pytest summary line).  Raises MachineryError if nothing was harvested."""
    import json
    import os
    import subprocess
    import sys
    import time
    repo = core.repo_path()
    wd = core.workdir('c02_harvest')
    path = os.path.join(wd, 'harvest.ndjson')
    env = dict(os.environ)
    env['PYTHONPATH'] = core.VERIF + (os.pathsep + env['PYTHONPATH'] if env.get('PYTHONPATH') else '')
    env['SFC_REPO'] = repo
    env['HARVEST_FILE'] = path
    env['PYTHONDONTWRITEBYTECODE'] = '1'
    cmd = [sys.executable, '-m', 'pytest', '-q', '-p', 'no:cacheprovider', '-p', 'harness.pytest_harvest',
           'test', 'sfc_models']
    t0 = time.time()
    try:
        try:
            p = subprocess.run(cmd, cwd=repo, env=env, capture_output=True, text=True, timeout=timeout)
        except subprocess.TimeoutExpired:
            raise core.MachineryError('test-suite harvest timed out after %ds' % timeout)
        wall = time.time() - t0
        tail = (p.stdout.strip().splitlines() or [''])[-1]
        if p.returncode not in (0, 1):          # 1 = some tests failed (one known failure exists); others = pytest broke
            raise core.MachineryError('test-suite harvest: pytest exit %d\n%s\n%s' % (
                p.returncode, '\n'.join(p.stdout.splitlines()[-15:]), p.stderr[-1500:]))
        if not os.path.exists(path + '.done'):
            raise core.MachineryError('test-suite harvest: the plugin did not finish (no .done marker)\n' + p.stderr[-1500:])
        records = []
        if os.path.exists(path):
            with open(path) as f:
                for line in f:
                    if line.strip():
                        records.append(json.loads(line))
        if not records:
            raise core.MachineryError('test-suite harvest: zero solves harvested (%s)' % tail)
        return records, wall, tail
    finally:
        core.cleanup(wd)


def numeric_row_sums(rows, names, vals, env):
    """sup-norm row sums of the Jacobian of the one-sweep map `rows` (list of (lhs, rhs)) with respect
    to the variables `names`, by central differences at `vals`.  -> (max row sum, rows that failed)"""
    worst = 0.0
    failed = []
    for lhs, rhs in rows:
        total = 0.0
        used = _names_in(rhs)
        try:
            code = compile(rhs, '<row>', 'eval')
            for v in names:
                if v not in used or v not in vals or not finite(vals[v]):
                    continue
                h = 1e-6 * max(1.0, abs(vals[v]))
                up = dict(vals)
                dn = dict(vals)
                up[v] = vals[v] + h
                dn[v] = vals[v] - h
                d = (eval(code, env, up) - eval(code, env, dn)) / (2 * h)
                if not finite(d):
                    raise ValueError('derivative not finite')
                total += abs(d)
        except Exception:
            failed.append(lhs)
            continue
        worst = max(worst, total)
    return worst, failed


def harvested_events(rec):
    """One harvested SolveEquation() that returned normally -> (events, info).  Only clauses that hold
    for ANY equation block: finite values, residual of simultaneous rows (Lipschitz bound estimated
    numerically at the solution, doubled), decorative / lagged / exogenous exactness, lengths."""
    H = int(rec['max_time'])
    ts = {v: [_fl(x) for x in vals] for v, vals in rec['timeseries'].items()}
    endo = [(a, c) for a, kind, c in rec['endogenous'] if kind == 'text']
    deco = [(a, c) for a, kind, c in rec['decoration'] if kind == 'text']
    lag_used = [(a, c.strip()) for a, kind, c in rec['lagged'] if kind == 'text']
    info = {'test': rec['test'], 'source': 'equation_string', 'skipped_rows': [], 'notes': []}
    unknown_fns = [f for f in rec['functions'] if f not in FUNCS]
    # --- the submitted system: the text as the tree's own parser reads it, without reduction
    eqs = lags = None
    exo_text = {}
    try:
        from sfc_models.equation_parser import EquationParser
        import warnings
        with warnings.catch_warnings():
            warnings.simplefilter('ignore')
            p = EquationParser()
            p.ParseString(rec['equation_string'])
        sub_names = set(v for v, _ in p.Endogenous) | set(v for v, _ in p.Lagged) | set(v for v, _ in p.Exogenous)
        used_names = set(v for v, _ in endo) | set(v for v, _ in deco) | set(v for v, _ in lag_used) | \
            set(a for a, _, _ in rec['exogenous'] if a != 'k')
        if sub_names - {'k'} == used_names and sorted((a, b.strip()) for a, b in p.Lagged) == sorted(lag_used):
            eqs = [[v, e] for v, e in p.Endogenous]
            lags = [[v, e.strip()] for v, e in p.Lagged]
            exo_text = {v: e for v, e in p.Exogenous if isinstance(e, str)}
    except Exception as e:
        info['notes'].append('re-parse failed: ' + type(e).__name__)
    if eqs is None:
        # the test changed the parser's lists after parsing: judge the lists the solver used
        info['source'] = 'parser_lists'
        eqs = [[v, e] for v, e in endo + deco]
        lags = [[v, e] for v, e in lag_used]
    exos = []
    for name, kind, content in rec['exogenous']:
        if name == 'k':
            continue
        path = None
        if kind == 'list':
            path = [_fl(x) for x in content]
        else:
            text = exo_text.get(name, content)
            try:
                val = eval(text, dict(MATH_ENV))
                if isinstance(val, float):
                    val = [val] * (H + 1)
                path = [float(x) for x in list(val)]
            except Exception:
                info['notes'].append('exogenous path of %s not re-evaluated' % name)
        if path is not None and len(path) >= H + 1:
            exos.append([name, path[:H + 1]])
    skip = set()
    if unknown_fns:
        for lhs, rhs in eqs + [list(x) for x in endo]:
            if _names_in(rhs) & set(unknown_fns):
                skip.add(lhs)
        info['skipped_rows'] = sorted(skip)
        info['notes'].append('rows calling user functions %s are not re-evaluated' % ','.join(unknown_fns))
    tol = rec.get('tolerance')
    case = new_case('harvest:' + rec['test'], eqs=eqs, lags=lags, exos=exos, maxtime=H,
                    tol_param=tol if tol is not None else 1e-8, cap=rec['max_iterations'],
                    reduction=rec['reduction'], funcs=[f for f in rec['functions'] if f in FUNCS])
    lists = _Lists(endo, deco)
    sim_names = [v for v, _ in endo]
    env = dict(MATH_ENV)
    for entry in case['funcs']:
        name, f = func_impl(entry)
        env[name] = f
    events = []
    lam_max = 0.0
    nonexo = [v for v, _ in endo + deco + lag_used if v in ts]
    for k in range(1, H + 1):
        vals = {v: ts[v][k] for v in ts if len(ts[v]) > k}
        # a simultaneous variable whose row depends on no simultaneous variable and whose value equals
        # the previous period's bit for bit did not move during this period: its direction contributes
        # nothing to the difference of the last two iterates
        frozen = set(v for v, rhs in endo if not (_names_in(rhs) & set(sim_names)) and v in ts and len(ts[v]) > k
                     and _same(ts[v][k], ts[v][k - 1]))
        lam, failed = numeric_row_sums([r for r in endo if r[0] not in skip],
                                       [v for v in sim_names if v not in frozen], vals, env)
        lam_max = max(lam_max, lam)
        case['lam'] = 2.0 * lam + 1e-6           # conservative: twice the local estimate
        sk_rows = set(skip) | set(failed)
        if tol is None:
            sk_rows |= set(sim_names)
        if failed:
            info['skipped_rows'] = sorted(set(info['skipped_rows']) | set(failed))
        reported = [ts[v][k] for v in nonexo if len(ts[v]) > k]
        fin_ok = all(finite(x) for x in reported) and len(reported) == len(nonexo)
        ev = {'ev': 'Step', 'k': k, 'sweeps': -1, 'cap': int(rec['max_iterations']), 'horizon': H,
              'exit': 'converged', 'errNaN': not fin_ok, 'finite': bool(fin_ok), 'traced': False,
              'tol_ge1': bool(tol is not None and tol >= 1.0), 'tol_zero': bool(tol is not None and tol == 0.0),
              'met_tol': True,
              'resid_ok': True, 'deco_exact': True, 'lag_exact': True, 'exo_exact': True, 'undef': False,
              'len_sim': k + 1, 'len_lag': k + 1, 'len_deco': k + 1, 'len_min': k + 1, 'len_max': k + 1,
              'prefix_intact': True, 'exp_n': -1, 'returned': True, 'lam': round(case['lam'], 6)}
        ev.update(judge_period(case, lists, ts, k, skip=sk_rows))
        events.append(ev)
    lens_ok = all(len(x) == H + 1 for x in ts.values())
    events.append({'ev': 'Finish', 'returned': True, 'contractive': False, 'exc': 'none', 'horizon': H,
                   'whole_equal': True, 'steps': H, 'lens_ok': bool(lens_ok), 'exc_type': '', 'stage': 'solve',
                   'alias_pred': 'na', 'alias_obs': 'na', 'fn_pred': 'na', 'fn_obs': 'na'})
    info['lam_estimate'] = round(lam_max, 6)
    info['rows'] = {'simultaneous': len(endo), 'decorative': len(deco), 'lagged': len(lag_used), 'exogenous': len(exos)}
    case['lam'] = round(2.0 * lam_max + 1e-6, 6)
    return events, info, case


def judge_harvest(rep, core, records):
    traces = []
    built = []
    for i, rec in enumerate(records):
        events, info, case = harvested_events(rec)
        built.append((events, info, case))
        traces.append((i, for_tla(events)))
    verdicts, st, tr = core.validate_traces('MC_Solver_Trace', 'MC_Solver_Trace.cfg', traces,
                                            tag=rep.prop.lower() + 'h', env={'FOCUS': 'C02'})
    rep.traces += len(traces)
    rep.extra['trace_validation_states'] = rep.extra.get('trace_validation_states', 0) + st
    periods = 0
    skipped = 0
    by_source = {}
    for i, rec in enumerate(records):
        events, info, case = built[i]
        periods += len(events) - 1
        skipped += len(info['skipped_rows'])
        by_source[info['source']] = by_source.get(info['source'], 0) + 1
        summary = {'label': case['label'], 'rows': info['rows'], 'tolerance': rec.get('tolerance'),
                   'cap': rec['max_iterations'], 'reduction': rec['reduction'], 'horizon': rec['max_time'],
                   'lam_estimate': info['lam_estimate'], 'source': info['source'], 'notes': info['notes'],
                   'skipped_rows': info['skipped_rows']}
        rep.add_case(summary, rec['max_time'] >= 1 and info['rows']['simultaneous'] >= 1)
        v = verdicts[i]
        if v == 'ok:':
            continue
        kind, clause = v.split(':', 1)
        stored = {'harvested': rec, 'observed': events, 'info': info}
        if kind == 'property':
            bad = [e['k'] for e in events if e['ev'] == 'Step' and not (
                e['finite'] and e['resid_ok'] and e['deco_exact'] and e['lag_exact'] and e['exo_exact'])]
            rep.violate(clause, '%s:suite-harvest' % clause, stored,
                        detail='harvested from %s; periods %s; Lipschitz estimate %s' % (rec['test'], bad[:8], info['lam_estimate']))
        else:
            rep.add_drift(clause, {'test': rec['test'], 'observed': events[-3:], 'info': info})
    rep.extra['harvested_solves'] = len(records)
    rep.extra['harvested_periods'] = periods
    rep.extra['harvested_rows_skipped'] = skipped
    rep.extra['harvested_judged_from'] = by_source
    return verdicts
