"""C19 - the tab-delimited text table is a faithful table of the results.

spec:   spec/Table.tla (actions Put, Store, Delete, List, Solve, SolveFailed, Render - freely interleaved;
        invariants C19_Header, C19_RowCount, C19_CellIsFormattedValue).  Names are sequences of code
        points, Less() is the lexicographic order, so "the rest ascending by code point" is a TLA+ formula.
TLC:    exhaustive check of two bounded instances of MC_Table; every maximal behaviour is emitted.
        "grid": name pools mixing priority names, upper and lower case, underscore-leading names; ragged
        lengths 0..3; every subset of the pool with one value per series; solves from there; one render
        per applicable format class at the end.
        "edit": few names, EVERY interleaving of mutations (AppendValue, item assignment creating /
        replacing by a longer or shorter list, del, solve) with observations (GetSeriesList(),
        GenerateCSVtext()): a holder that has already been listed or rendered is changed and rendered
        again; each table is judged against what the holder stores at that moment.
replay: (a) each behaviour is executed on a REAL TimeSeriesHolder (Put = holder[name] = [] /
        AppendValue, Store = holder[name] = [...], Delete = del holder[name], List = GetSeriesList(),
        with seeded random ints and floats of any magnitude and sign; Solve = a real EquationSolver over
        the stored names, whose TimeSeries is the holder from then on; Render =
        GenerateCSVtext(<format string>)); the text is parsed back and for every cell the driver
        computes "parses back to value i of the series named by the column within the precision of the
        format" as a Boolean.
        (b) real models (gl_book SIM / SIMEX1 / PC through Model.main(), small EquationSolver blocks
        with different MaxTime, one set on the solver object) are solved and the table of
        EquationSolver.GenerateCSVtext() - and the one Model.main() wrote to the 'timeseries' log -
        is recorded the same way; then derived series are stored into the results
        (solver.TimeSeries[name] = [...]), the table is rendered again, one is deleted, rendered again.
trace:  TLC (Table_Trace) recomputes from the OBSERVED name set what the header must be, from the
        observed lengths what the row count must be (and horizon+1 after a successful solve) and
        demands every cell Boolean; one total verdict per trace.

Readings (the weaker one where the statement leaves a choice):
  * "alphabetically" = ascending by code point (Python's str order), as DESIGN.md fixes it.
  * an empty holder renders as the empty text: read as "no header, no rows".
  * horizon = the horizon the user STATED: EquationSolver.MaxTime set on the solver object if it was set
    (0 included), else the MaxTime line of the equation text (for a Model: Model.MaxTime, which
    Model.main() writes as that line), else 0.  What the solver ended up using (Parser.MaxTime) is
    only compared as conformance (DRIFT solve_horizon).
  * "each cell is the corresponding value rendered with the requested format" is judged literally too:
    the cell text must be <format> % <that stored value> (the sign of a zero, int vs float vs bool under
    %r / %s), next to the weaker "parses back within the precision".  '%r' and '%s' recover the value
    exactly, '%+.3f' to 1e-3 absolute.
  * precision of a format: '%.5g' relative 1e-4, '%.12g' relative 1e-11, '%e' relative 1e-6,
    '%f' absolute 1e-6, '%d' exact (only rendered on int-only series).  Values are compared as
    floats (an int beyond 2**53 is compared through float(int), which is what '%g' prints).
  * a failed solve only has to give min-length rows; horizon+1 is demanded after a successful one,
    and only while the solver's holder is as the solver left it (after a user stored / deleted a
    series, "one row per period up to the shortest series" is what is demanded).
  * an initial condition on a name that has no equation is tolerated by the library (ignored); the spec
    says it stores no series.  If it did, the clause that fails is the one the statement has: the table
    after a successful solve no longer has horizon+1 rows (a mere extra column with horizon 0 is DRIFT).
  * solver options set before the solve (TraceStep, ParameterSolveInitialSteadyState) are part of the
    history; they never change what the table must be: the model's variables plus k and t, stated
    horizon + 1 rows.
  * one EquationSolver object may parse and solve several blocks in a row: the table after a solve is
    the table of THAT block (its variables plus k and t, its stated horizon + 1 rows).
  * the priority order is the documented literal one (iteration, iteration_error, iteration_abs_change,
    k, t) whatever the holder's constructor argument (its axis name) is; the solver's step trace
    (TimeSeriesHolder('iteration'), which stores k as well) is a table of the same kind.
  * GetSeriesList() is the mechanism, not the table: a wrong list alone is reported as DRIFT; the
    property is judged on the text of the tables.
Names containing a tab or a newline are outside the explored space (no name of a model can).
"""
import json
import math
import os
import random
from fractions import Fraction

from harness import core

FORMATS = {'g5': '%.5g', 'g12': '%.12g', 'f': '%f', 'e': '%e', 'd': '%d', 'r': '%r', 's': '%s', 'pf3': '%+.3f'}
FLOAT_CLASSES = ['g5', 'g12', 'f', 'e']
SHOWING_CLASSES = ['r', 'pf3', 's']       # formats that show the type of a value and the sign of a zero
# equal values that differ in type or in the sign of zero ("twin" series)
TWINS = [[0.0, -0.0, 0, False, -0.0, 0.0], [1.0, 1, True], [2.0, 2], [-3.0, -3], [100000.0, 100000], [-0.0, 0.0]]

SPECIAL_FLOATS = [0.0, -0.0, 1e-300, -1e-300, 1e300, -1e300, 5e-324, -5e-324, 1.7976931348623157e308,
                  2.2250738585072014e-308, 0.1, -0.1, 1.0 / 3.0, -2.0 / 3.0, 123456.789, 99999.5, 999999.5,
                  100000.49999, 0.000123456, 1e-5, 9.9999e-5, 1e16, 1e15 + 0.5, 2.5, -2.5, 1e5, 0.5, 1.5,
                  123456789012.5, 1e-7, 4.9999995, 0.30000000000000004]
SPECIAL_INTS = [0, 1, -1, 7, -7, 10, 99999, 100000, 123456, -123456, 999999, 1000000, 2 ** 31, -2 ** 31,
                2 ** 53 - 1, -(2 ** 53 - 1)]
BIG_INTS = [10 ** 30, -10 ** 30, 2 ** 64, -(2 ** 64) - 1, 10 ** 18 + 1]


def codes(name):
    return [ord(c) for c in name]


def name_of(cs):
    return ''.join(chr(c) for c in cs)


def rand_float(rng):
    r = rng.random()
    if r < 0.3:
        return rng.choice(SPECIAL_FLOATS)
    if r < 0.7:
        return rng.uniform(-10.0, 10.0) * 10.0 ** rng.randint(-300, 300)
    if r < 0.9:
        return rng.uniform(-1000.0, 1000.0)
    return float(rng.randint(-10 ** 6, 10 ** 6))


def rand_int(rng, big):
    r = rng.random()
    if r < 0.4:
        return rng.choice(SPECIAL_INTS)
    if big and r < 0.5:
        return rng.choice(BIG_INTS)
    if r < 0.8:
        return rng.randint(-20, 20)
    return rng.randint(-10 ** 9, 10 ** 9)


# --------------------------------------------------------------------------------------
# projection: what the real objects hold, what the text says
# --------------------------------------------------------------------------------------

def kind_of(series):
    return 'int' if all(type(v) is int for v in series) else 'num'


def snapshot(holder):
    names = list(holder.keys())
    return {'names': [codes(n) for n in names],
            'lens': [len(holder[n]) for n in names],
            'kinds': [kind_of(holder[n]) for n in names]}


def cell_ok(cls, text, x):
    """Does the cell text parse back to the stored value x within the precision of the format?
    Floats first; when that says no, decided again in exact rational arithmetic (the decimal text of a
    value next to the largest double, '1.7977e+308', is a real number float() cannot hold)."""
    try:
        if cls == 'd':
            return type(x) is int and int(text) == x
        if cls in ('r', 's'):                      # repr round-trips: the value itself comes back
            if text in ('True', 'False'):
                return type(x) is bool and x == (text == 'True')
            if type(x) is bool:
                return False
            if type(x) is int:
                return int(text) == x
            p = float(text)
            return p == x or (math.isnan(p) and math.isnan(x))
        p = float(text)
        xf = float(x)
    except (ValueError, OverflowError, TypeError):
        return False
    if math.isnan(xf):
        return math.isnan(p)
    if math.isinf(xf):
        return p == xf
    rel = {'g5': 1e-4, 'g12': 1e-11, 'e': 1e-6, 'f': None, 'pf3': None}[cls]
    tol_abs = 1e-3 if cls == 'pf3' else 1e-6
    if not math.isinf(p) and not math.isnan(p):
        err = abs(p - xf)
        if (err <= tol_abs) if rel is None else (err <= rel * abs(xf)):
            return True
    try:
        pq = Fraction(text.strip())
    except (ValueError, ZeroDivisionError):
        return False
    xq = Fraction(xf)
    if rel is None:
        return abs(pq - xq) <= Fraction(tol_abs)
    return abs(pq - xq) <= Fraction(rel) * abs(xq)


def cell_exact(cls, text, x):
    """Is the cell text the stored value rendered with the requested format?  ('%' of Python on that one
    value is what "rendered with the format" means: '-0' for -0.0, '2.0' for the float, '2' for the int.)"""
    try:
        return text == FORMATS[cls] % (x,)
    except Exception:
        return False


def parse_table(text):
    """-> (header names, rows of cell texts).  '' is the table without header and rows."""
    if text == '':
        return [], []
    lines = text.split('\n')
    if lines[-1] == '':
        lines = lines[:-1]
    header = lines[0].split('\t')
    return header, [ln.split('\t') for ln in lines[1:]]


def observe_table(cls, text, holder):
    header, rows = parse_table(text)
    cells = []
    exact = []
    for i, row in enumerate(rows):
        out = []
        out2 = []
        for j, cell in enumerate(row):
            ok = False
            ex = False
            if j < len(header) and header[j] in holder and i < len(holder[header[j]]):
                ok = cell_ok(cls, cell, holder[header[j]][i])
                ex = cell_exact(cls, cell, holder[header[j]][i])
            out.append(bool(ok))
            out2.append(bool(ex))
        cells.append(out)
        exact.append(out2)
    return {'header': [codes(n) for n in header], 'rows': len(rows), 'cells': cells,
            'inexact': sum(1 for r in exact for c in r if not c)}


def render_event(cls, src, holder, produce):
    """produce() -> text.  The holder is observed before the call."""
    ev = {'ev': 'Render', 'fmt': cls, 'src': src}
    ev.update(snapshot(holder))
    before = {n: list(v) for n, v in holder.items()}
    try:
        text = produce()
        ev.update(ok=True, exc='')
        ev.update(observe_table(cls, text, before))
    except Exception as e:  # recorded, judged by the trace spec
        ev.update(ok=False, exc=type(e).__name__, header=[], rows=0, cells=[], inexact=0)
    return ev


# --------------------------------------------------------------------------------------
# (a) replay of a TLC behaviour
# --------------------------------------------------------------------------------------

def solver_text(names, holder, block_h, conds, rng, steady=False):
    """A well-posed block over the stored names (never a pure alias, no simultaneous loop), with the
    initial conditions of the history: conds = [(name, spaced)], on variables or on names without equation."""
    lines = []
    prev = None
    for n in names:
        if n == 'k':
            continue
        form = rng.randint(0, 2)
        c0 = round(rng.uniform(-50.0, 50.0), 3)
        c1 = round(rng.uniform(-5.0, 5.0), 3)
        if steady and form == 1 and n != 't':
            form = 0            # an initial steady state exists only when nothing but t moves with k
        if form == 0 or (form == 2 and prev is None):
            rhs = '%r*k + %r' % (c1, c0) if n == 't' else repr(c0)
        elif form == 1:
            rhs = '%r*k + %r' % (c1, c0)
        else:
            rhs = '%s + %r' % (prev, c0)
        lines.append('%s = %s' % (n, rhs.replace('+ -', '- ')))
        prev = n
    for n, spaced in conds:
        v = float(holder[n][0]) if n in holder and holder[n] else rand_float(rng)
        lines.append('%s%s(0) = %r' % (n, ' ' if spaced else '', v))
    if block_h is not None:
        lines.append('MaxTime = %d' % block_h)
    return '\n'.join(lines)


def hist_of(beh):
    """Behaviours are histories of calls; replay files written before the 'edit' instance existed
    hold {puts, solve, renders}."""
    if 'hist' in beh:
        return beh['hist']
    hist = [dict(op='put', name=p['name'], len=p['len'], kind=p['kind'], fmt='', h=0) for p in beh['puts']]
    if beh['solve']['is']:
        hist.append(dict(op='horizon', name=[], len=0, kind='int', fmt='', h=beh['solve']['horizon'], place='block'))
        hist.append(dict(op='solve', name=[], len=0, kind='num', fmt='', h=beh['solve']['horizon']))
    hist += [dict(op='render', name=[], len=0, kind='int', fmt=f, h=0) for f in beh['renders']]
    return hist


def make_values(rng, kind, n, big, twin=None):
    out = []
    for i in range(n):
        if kind == 'twin':
            # the next variant of the history's family of equal values; a series starts with a non-int one
            fam = twin['family']
            while True:
                v = fam[twin['next'] % len(fam)]
                twin['next'] += 1
                if i > 0 or type(v) is not int:
                    break
            out.append(v)
        elif kind == 'int':
            out.append(rand_int(rng, big=big))
        elif i == 0 or rng.random() < 0.75:
            out.append(rand_float(rng))         # the first value makes the series observably "num"
        else:
            out.append(rand_int(rng, big=False))
    return out


def execute(beh, seed):
    """Run one behaviour on the real code; returns the list of trace events."""
    from sfc_models.utils import TimeSeriesHolder
    from sfc_models.equation_solver import EquationSolver
    rng = random.Random('%d|%s' % (seed, core.canonical(beh)))
    hist = hist_of(beh)
    big = any(o['op'] == 'render' and o['fmt'] == 'd' for o in hist)
    twin = {'family': rng.choice(TWINS[:2]) if rng.random() < 0.6 else rng.choice(TWINS), 'next': rng.randint(0, 5)}
    events = []
    holder = TimeSeriesHolder('k')
    table_of = holder
    stated = {}
    conds = []
    opts = {}
    solver = None            # ONE solver object per history: a second block is parsed on the same object
    block_vars = None
    for o in hist:
        op = o['op']
        name = name_of(o['name'])
        if op == 'create':
            holder = TimeSeriesHolder(name)        # the constructor argument names the time axis
            table_of = holder
            ev = {'ev': 'Create', 'name': o['name']}
        elif op == 'block':
            block_vars = [name_of(v) for v in o['vars']]
            conds = []
            stated.pop('block', None)      # the MaxTime line belongs to the text of the block
            ev = {'ev': 'Block', 'vars': o['vars']}
        elif op == 'trace':
            h_eff = stated.get('solver', stated.get('block', 0))
            step = rng.randint(1, h_eff) if o['place'] == 'inside' else h_eff + rng.randint(1, 3)
            opts['trace'] = step
            ev = {'ev': 'Trace', 'place': o['place'], 'step': step}
        elif op == 'steady':
            opts['steady'] = True
            ev = {'ev': 'Steady'}
        elif op == 'cond':
            conds.append((name, bool(o.get('sp', False))))
            ev = {'ev': 'Condition', 'name': o['name'], 'sp': bool(o.get('sp', False))}
        elif op == 'horizon':
            if o['place'] not in ('block', 'solver'):
                raise core.MachineryError('a replayed behaviour states the horizon in %r' % (o['place'],))
            stated[o['place']] = o['h']
            ev = {'ev': 'Horizon', 'place': o['place'], 'h': o['h']}
        elif op == 'put':
            ev = {'ev': 'Put', 'name': o['name'], 'len': o['len'], 'kind': o['kind']}
            try:
                have = len(holder[name]) if name in holder else None
                if have is None and o['len'] == 0:
                    holder[name] = []
                for v in make_values(rng, o['kind'], o['len'] - (have or 0), big, twin):
                    holder.AppendValue(name, v)
                ev['ok'] = True
            except Exception:
                ev['ok'] = False
            ev.update(snapshot(holder))
        elif op == 'store':
            ev = {'ev': 'Store', 'name': o['name'], 'len': o['len'], 'kind': o['kind']}
            try:
                holder[name] = make_values(rng, o['kind'], o['len'], big, twin)
                ev['ok'] = True
            except Exception:
                ev['ok'] = False
            ev.update(snapshot(holder))
        elif op == 'del':
            ev = {'ev': 'Delete', 'name': o['name']}
            try:
                del holder[name]
                ev['ok'] = True
            except Exception:
                ev['ok'] = False
            ev.update(snapshot(holder))
        elif op == 'list':
            ev = {'ev': 'List'}
            ev.update(snapshot(holder))
            try:
                ev.update(ok=True, list=[codes(n) for n in holder.GetSeriesList()])
            except Exception:
                ev.update(ok=False, list=[])
        elif op == 'solve':
            ev = {'ev': 'Solve', 'used': -1, 'vs': [], 'must': True}
            try:
                if block_vars is None:
                    text = solver_text(list(holder.keys()), holder, stated.get('block'), conds, rng,
                                       steady=opts.get('steady', False))
                else:
                    text = solver_text(block_vars, {}, stated.get('block'), conds, rng,
                                       steady=opts.get('steady', False))
                if solver is None:
                    solver = EquationSolver()
                    if 'solver' in stated:
                        solver.MaxTime = stated['solver']  # stated on the solver object, before the text is parsed
                solver.ParseString(text)
                if 'trace' in opts:
                    solver.TraceStep = opts['trace']
                if opts.get('steady'):
                    solver.ParameterSolveInitialSteadyState = True
                solver.SolveEquation()
                ev.update(ok=True, used=int(solver.Parser.MaxTime))
            except Exception:
                ev['ok'] = False
            block_vars = None
            if solver is not None:
                holder = solver.TimeSeries      # from now on the solver's holder is the holder
                table_of = solver
            ev.update(snapshot(holder))
        elif op == 'render':
            cls = o['fmt']
            ev = render_event(cls, 'call', holder, lambda: table_of.GenerateCSVtext(FORMATS[cls]))
        else:
            raise core.MachineryError('unknown op %r in a behaviour' % (op,))
        events.append(ev)
    return events


# --------------------------------------------------------------------------------------
# (b) solved models
# --------------------------------------------------------------------------------------

BLOCKS = {
    'mixed': "_x = 0.5*k + 1.\nA = _x + 2.\na = 3.5\niteration = A * 2.\nt = k + 0.\nT = 7\n"
             "exogenous\nZ_1 = [1., 2., 3., 4., 5., 6., 7., 8., 9., 10., 11., 12., 13.]",
    'loop': "x = y + 1.\ny = 0.5*x\nx(0) = 3.",
    'lagged': "x = 0.5*LAG_x + 1e-3*k\nLAG_x = x(k-1)\nBig = 1e300*x\ntiny = 1e-300*x\nneg = -x\nx(0) = 2.",
    'plain': "x = 2.\ny = x + k",
    # zeros of both signs, ints next to equal floats (decoration constants stay ints)
    'signs': "pay = 0.*k\nout = -pay\nnet = out + pay\ntwo = 2\ntwof = 2.\nzero = 0",
    'steadyable': "x = 0.5*LAG_x + g\nLAG_x = x(k-1)\ny = 2.*x + 1e-300\nx(0) = 1.\nexogenous\ng = [2.]*20",
    'diverges': "x = x + 1.",                        # ConvergenceError: a failed solve
}
BOOK = ('SIM', 'SIMEX1', 'PC')


def model_specs(tier, rng):
    """Each spec says where the horizon is stated: 'block' (MaxTime line of the text; for a gl_book model
    Model.MaxTime, place "model") and / or 'solver' (EquationSolver.MaxTime); absent = not stated there."""
    specs = [{'model': 'SIM', 'block': 10}, {'model': 'SIMEX1', 'block': 6, 'solver': 2},
             {'model': 'PC', 'block': 15}, {'model': 'SIM', 'block': 3, 'solver': 0},
             {'block_text': 'mixed', 'block': 3}, {'block_text': 'loop', 'block': 0},
             {'block_text': 'lagged', 'block': 5}, {'block_text': 'loop', 'block': 9, 'solver': 2},
             {'block_text': 'loop', 'block': 4, 'solver': 0}, {'block_text': 'mixed', 'solver': 1},
             {'block_text': 'plain'}, {'block_text': 'plain', 'solver': 0},
             {'block_text': 'diverges', 'block': 4},
             {'block_text': 'lagged', 'block': 6, 'conds': [['z', False]]},            # left behind, no equation
             {'block_text': 'loop', 'block': 3, 'conds': [['y', True], ['w', False]]},   # "y (0) = ..." and dangling
             {'block_text': 'mixed', 'solver': 2, 'conds': [['A', False], ['k', False], ['a_b', True]]},
             {'model': 'SIM', 'block': 8, 'trace': 3}, {'model': 'SIMEX1', 'block': 5, 'trace': 9, 'steady': True},
             {'model': 'PC', 'block': 4, 'steady': True},
             {'block_text': 'lagged', 'block': 4, 'trace': 4}, {'block_text': 'loop', 'block': 6, 'trace': 1, 'steady': True},
             {'block_text': 'steadyable', 'block': 3, 'steady': True}, {'block_text': 'loop', 'solver': 3, 'trace': 7},
             {'block_text': 'signs', 'block': 3}, {'block_text': 'signs', 'solver': 0},
             # one solver object, two blocks in a row
             {'block_text': 'plain', 'block': 4, 'first': {'block_text': 'mixed', 'block': 1}},
             {'block_text': 'lagged', 'block': 2, 'first': {'block_text': 'loop', 'block': 5}},
             {'block_text': 'loop', 'block': 3, 'first': {'block_text': 'loop', 'block': 0}}]
    if tier != 'quick':
        specs += [{'model': 'SIM', 'block': 100}, {'model': 'SIM', 'block': 1}, {'model': 'SIM', 'block': 0},
                  {'model': 'SIMEX1', 'block': 40}, {'model': 'PC', 'block': 3}, {'model': 'PC', 'block': 60},
                  {'model': 'PC', 'block': 7, 'solver': 0}, {'model': 'SIMEX1', 'block': 0, 'solver': 3},
                  {'model': 'PC', 'block': 2, 'solver': 1}]
        for name in ('mixed', 'loop', 'lagged', 'plain', 'diverges', 'signs'):
            for b in [None] + sorted(rng.sample(range(0, 13), 3)):
                for sv in (None, 0, rng.randint(1, 6)):
                    spec = {'block_text': name}
                    if b is not None:
                        spec['block'] = b
                    if sv is not None:
                        spec['solver'] = sv
                    if rng.random() < 0.5:
                        spec['trace'] = rng.randint(0, 8)
                    if name in ('loop',) and rng.random() < 0.5:
                        spec['steady'] = True
                    extra = rng.choice([None, [['zz', False]], [['x', True]], [['q', True], ['x', False]]])
                    if extra is not None:
                        spec['conds'] = extra
                    if 'solver' not in spec and rng.random() < 0.4:
                        spec['first'] = {'block_text': rng.choice(['mixed', 'loop', 'lagged', 'plain']),
                                         'block': rng.randint(0, 6)}
                    if spec not in specs:
                        specs.append(spec)
    return specs


def legacy_spec(spec):
    """replay files written before the horizon statements were part of the case"""
    if 'maxtime' in spec:
        return {'model': spec['model'], 'block': spec['maxtime']}
    if 'h' in spec:
        name = spec['block']
        if name == 'override':
            return {'block_text': 'loop', 'block': 9, 'solver': spec['h']}
        if name == 'nomaxtime':
            return {'block_text': 'plain'}
        return {'block_text': name, 'block': spec['h']}
    return spec


def execute_model(spec, wd, box=None):
    """Build and solve a real model; returns the trace events (Horizon statements, Solve, then Renders)."""
    from sfc_models.equation_solver import EquationSolver
    from sfc_models.utils import Logger
    spec = legacy_spec(spec)
    events = []
    solver = None
    logged = None
    ok = True
    is_model = 'model' in spec
    first_solver = None
    if 'first' in spec and not is_model:
        f = spec['first']
        events.append({'ev': 'Horizon', 'place': 'block', 'h': f['block']})
        first_ok = True
        first_solver = EquationSolver()
        try:
            first_solver.ParseString(BLOCKS[f['block_text']] + '\nMaxTime = %d' % f['block'])
            first_solver.SolveEquation()
        except Exception:
            first_ok = False
        snap = snapshot(first_solver.TimeSeries)
        ev = {'ev': 'Solve', 'used': int(first_solver.Parser.MaxTime), 'vs': snap['names'], 'ok': first_ok, 'must': False}
        ev.update(snap)
        events.append(ev)
        events.append(render_event('g5', 'call-first-block', first_solver.TimeSeries,
                                   lambda: first_solver.GenerateCSVtext()))
        events.append({'ev': 'Block', 'vars': []})
    for n, spaced in spec.get('conds', []):
        events.append({'ev': 'Condition', 'name': codes(n), 'sp': bool(spaced)})
    if 'block' in spec:
        events.append({'ev': 'Horizon', 'place': 'model' if is_model else 'block', 'h': spec['block']})
    if 'solver' in spec:
        events.append({'ev': 'Horizon', 'place': 'solver', 'h': spec['solver']})
    h_eff = spec.get('solver', spec.get('block', 0))
    if 'trace' in spec:
        events.append({'ev': 'Trace', 'place': 'inside' if 1 <= spec['trace'] <= h_eff else 'outside',
                       'step': spec['trace']})
    if spec.get('steady'):
        events.append({'ev': 'Steady'})

    def options(solver):
        if 'trace' in spec:
            solver.TraceStep = spec['trace']
        if spec.get('steady'):
            solver.ParameterSolveInitialSteadyState = True
    try:
        if is_model:
            import sfc_models.gl_book.chapter3 as ch3
            import sfc_models.gl_book.chapter4 as ch4
            cls = {'SIM': ch3.SIM, 'SIMEX1': ch3.SIMEX1, 'PC': ch4.PC}[spec['model']]
            model = cls('C').build_model()
            model.MaxTime = spec['block']           # every gl_book spec states Model.MaxTime
            solver = model.EquationSolver
            if 'solver' in spec:
                model.EquationSolver.MaxTime = spec['solver']
            options(model.EquationSolver)
            path = os.path.join(wd, 'timeseries_%s.txt' % core.digest(spec))
            Logger.cleanup()
            Logger.register_log(path, log='timeseries')
            try:
                model.main()
            finally:
                Logger.cleanup()
                solver = model.EquationSolver
                if os.path.exists(path):
                    with open(path) as f:
                        logged = f.read()
        else:
            text = BLOCKS[spec['block_text']]
            for i, (n, spaced) in enumerate(spec.get('conds', [])):
                text += '\n%s%s(0) = %r' % (n, ' ' if spaced else '', 2.5 + i)
            if 'block' in spec:
                text += '\nMaxTime = %d' % spec['block']
            solver = first_solver if first_solver is not None else EquationSolver()
            if 'solver' in spec:
                solver.MaxTime = spec['solver']
            solver.ParseString(text)
            options(solver)
            solver.SolveEquation()
    except Exception:
        ok = False
    if solver is None:
        raise core.MachineryError('could not even construct %r' % (spec,))
    if box is not None and 'trace' in spec:
        box['step_trace'] = solver.TimeSeriesStepTrace
    holder = solver.TimeSeries
    snap = snapshot(holder)
    ev = {'ev': 'Solve', 'used': int(solver.Parser.MaxTime), 'vs': snap['names'], 'ok': ok, 'must': False}
    ev.update(snap)
    events.append(ev)
    events.append(render_event('g5', 'call-default', holder, lambda: solver.GenerateCSVtext()))
    for cls in FLOAT_CLASSES + SHOWING_CLASSES:
        events.append(render_event(cls, 'call', holder, lambda: solver.GenerateCSVtext(FORMATS[cls])))
    if logged is not None:
        events.append(render_event('g5', 'timeseries-log', holder, lambda: logged))
    # a user works on the results: derived series stored into the holder, rendered again, one removed
    n = min([len(v) for v in holder.values()] or [0])
    first = next((v for v in holder.values() if len(v) >= n and n > 0), [0.0] * n)
    for name, vals in (('AA_derived', [2.0 * float(x) + 0.125 for x in first[:n]]),
                       ('zz_derived', [float(i) / 3.0 for i in range(n)])):
        ev = {'ev': 'Store', 'name': codes(name), 'len': n, 'kind': 'num'}
        try:
            holder[name] = vals
            ev['ok'] = True
        except Exception:
            ev['ok'] = False
        ev.update(snapshot(holder))
        events.append(ev)
    events.append(render_event('g12', 'call-after-store', holder, lambda: solver.GenerateCSVtext(FORMATS['g12'])))
    ev = {'ev': 'Delete', 'name': codes('AA_derived')}
    try:
        del holder['AA_derived']
        ev['ok'] = True
    except Exception:
        ev['ok'] = False
    ev.update(snapshot(holder))
    events.append(ev)
    events.append(render_event('g5', 'call-after-delete', holder, lambda: solver.GenerateCSVtext()))
    return events


def steptrace_events(trace_holder):
    """The solver's own convergence trace (a TimeSeriesHolder('iteration') that also stores k, the other
    exogenous values and the endogenous guesses) as a history: the constructor, one Put per series as
    the solver filled it, then its table under several formats (the default one is what the 'step' log
    receives)."""
    from sfc_models.utils import TimeSeriesHolder
    events = [{'ev': 'Create', 'name': codes(str(trace_holder.TimeSeriesName))}]
    seen = TimeSeriesHolder(trace_holder.TimeSeriesName)
    for n in list(trace_holder.keys()):
        dict.__setitem__(seen, n, trace_holder[n])
        ev = {'ev': 'Put', 'name': codes(n), 'len': len(trace_holder[n]), 'kind': kind_of(trace_holder[n]),
              'ok': True}
        ev.update(snapshot(seen))
        events.append(ev)
    events.append(render_event('g5', 'step-trace-default', trace_holder, lambda: trace_holder.GenerateCSVtext()))
    for cls in ('g12', 'e'):
        events.append(render_event(cls, 'step-trace', trace_holder,
                                   lambda: trace_holder.GenerateCSVtext(FORMATS[cls])))
    return events


def model_cases(spec, wd):
    """-> [(case, events)]: the results table of the spec and, when a step inside the horizon was traced,
    the table of the solver's step trace."""
    box = {}
    out = [({'kind': 'model', 'spec': spec}, execute_model(spec, wd, box))]
    tr = box.get('step_trace')
    if tr is not None and len(tr) > 0:
        out.append(({'kind': 'steptrace', 'spec': spec}, steptrace_events(tr)))
    return out


# --------------------------------------------------------------------------------------
# judging
# --------------------------------------------------------------------------------------

PRIORITY = ('iteration', 'iteration_error', 'iteration_abs_change', 'k', 't')


def signature(clause, events):
    """What fails, from the first Render event the clause is false on (names the root cause)."""
    solved = None
    stated = {}
    cond_keys = set()
    variables = set()
    options = set()
    blocks_parsed = 0
    solves = 0
    axis = 'k'
    for ev in events:
        if ev['ev'] == 'Create':
            axis = name_of(ev['name'])
        if ev['ev'] == 'Solve':
            axis = 'k'
        if ev['ev'] == 'Block':
            blocks_parsed += 1
            stated.pop('block', None)
        if ev['ev'] == 'Solve':
            solves += 1
        if ev['ev'] == 'Trace':
            options.add('TraceStep-' + ev['place'])
        if ev['ev'] == 'Steady':
            options.add('InitialSteadyState')
        if ev['ev'] == 'Condition':
            cond_keys.add(name_of(ev['name']) + (' ' if ev['sp'] else ''))
        if ev['ev'] == 'Put':
            variables.add(name_of(ev['name']))
        if ev['ev'] == 'Horizon':
            stated['solver' if ev['place'] == 'solver' else 'block'] = ev['h']
        if ev['ev'] == 'Solve':
            if 'used' not in ev:                  # events of an old replay file
                solved = ev['h'] if ev['ok'] else None
            else:
                solved = stated.get('solver', stated.get('block', 0)) if ev['ok'] else None
        if ev['ev'] in ('Put', 'Store', 'Delete'):
            solved = None                     # the holder is no longer as the solver left it
        if ev['ev'] != 'Render':
            continue
        names = [name_of(c) for c in ev['names']]
        header = [name_of(c) for c in ev['header']]
        if clause == 'C19_Header':
            if not ev['ok']:
                return 'render-raises:' + ev.get('exc', '')
            if sorted(header) != sorted(names):
                return 'header-names-differ-from-stored-names'
            pri = [n for n in header if n in PRIORITY]
            if header[:len(pri)] != [n for n in PRIORITY if n in names]:
                return 'header-priority-names-not-first-in-order' + \
                    (':holder-axis-named-' + axis if axis != 'k' else '')
            if header[len(pri):] != sorted(header[len(pri):]):
                return 'header-remainder-not-ascending-by-code-point'
        elif clause == 'C19_RowCount':
            if ev['ok'] and ev['lens'] and ev['rows'] != min(ev['lens']):
                return 'rows-differ-from-shortest-series'
            if ev['ok'] and not ev['lens'] and ev['rows'] != 0:
                return 'rows-without-series'
            if ev['ok'] and solved is not None and ev['rows'] != solved + 1:
                short = [n for n, ln in zip(names, ev['lens']) if ln == ev['rows']]
                if any(ln > ev['rows'] for ln in ev['lens']) and \
                        any(n in cond_keys and n not in variables for n in short):
                    return 'rows-cut-by-the-series-of-an-initial-condition-without-equation'
                if any(ln > ev['rows'] for ln in ev['lens']) and blocks_parsed and solves >= 2:
                    return 'rows-cut-by-a-series-left-from-an-earlier-block-on-the-same-solver'
                if any(ln > ev['rows'] for ln in ev['lens']) and options:
                    return 'rows-cut-by-a-short-series-after-solve-with-options:' + '+'.join(sorted(options))
                where = '+'.join(sorted(stated)) or 'nowhere'
                return 'rows-differ-from-horizon+1-after-solve:horizon-stated-in-' + where + \
                    (':zero' if solved == 0 else '')
        elif clause == 'C19_CellIsFormattedValue':
            if ev['ok'] and (len(ev['cells']) != ev['rows'] or
                             any(len(r) != len(ev['header']) or not all(r) for r in ev['cells'])):
                return 'cell-does-not-parse-back:' + ev['fmt'] + ':' + ev['src']
            if ev['ok'] and ev.get('inexact', 0) > 0:
                return 'cell-is-not-the-stored-value-in-the-requested-format:' + ev['fmt'] + ':' + ev['src']
    return clause


def nontrivial(events):
    """at least two stored series and at least one data row in some rendered table"""
    return any(ev['ev'] == 'Render' and len(ev['names']) >= 2 and ev['rows'] >= 1 for ev in events)


def brief(events):
    out = []
    for ev in events:
        d = {k: v for k, v in ev.items() if k not in ('cells', 'vs')}
        for k in ('names', 'header', 'list'):
            if k in d:
                d[k] = [name_of(c) for c in d[k]]
        if 'name' in d:
            d['name'] = name_of(d['name'])
        if 'cells' in ev:
            d['cells_false'] = sum(1 for r in ev['cells'] for c in r if not c)
        out.append(d)
    return out


def judge(rep, cases):
    """cases: list of (case dict, events)."""
    traces = [(i, ev) for i, (_, ev) in enumerate(cases)]
    for i, (case, ev) in enumerate(cases):
        rep.add_case({'case': case, 'observed': brief(ev)} if len(rep.samples) < 3 else case, nontrivial(ev))
    verdicts, st, tr = core.validate_traces('MC_Table_Trace', 'MC_Table_Trace.cfg', traces, chunk=1500, tag='c19')
    rep.traces += len(traces)
    rep.extra['trace_validation_states'] = rep.extra.get('trace_validation_states', 0) + st
    for i, (case, ev) in enumerate(cases):
        v = verdicts[i]
        if v == 'ok:':
            continue
        kind, clause = v.split(':', 1)
        if kind == 'property':
            rep.violate(clause, signature(clause, ev), case,
                        detail='observed %s' % json.dumps(brief(ev))[:600])
        else:
            rep.add_drift(clause, {'case': case, 'observed': brief(ev)})


def run(rep):
    quick = rep.tier == 'quick'
    cfgs = ['MC_Table_quick.cfg', 'MC_Table_quick2.cfg'] if quick else \
        ['MC_Table_thorough.cfg', 'MC_Table_thorough2.cfg']
    rep.rule = ('behaviours = all maximal histories of two bounded Table instances emitted by TLC. grid: Puts of '
                'pool names in pool order with ragged lengths 0..3 for up to MaxRagged series, every subset of the '
                'pool with one value per series, optionally a Solve with a horizon of the instance, then one Render '
                'per applicable format class. edit: every interleaving of <= MaxMut mutations (AppendValue, item '
                'assignment creating/replacing, del, Solve) over a small pool with exactly MaxObs observations '
                '(GetSeriesList, GenerateCSVtext), the last a render. Each is replayed on a real TimeSeriesHolder / '
                'EquationSolver with seeded random values; plus the listed real models (gl_book SIM/SIMEX1/PC via '
                'Model.main(), EquationSolver blocks), rendered, extended by derived series, rendered again, one '
                'series deleted, rendered again. distinct = distinct case JSON; non-trivial = some rendered table '
                'has >= 2 stored series and >= 1 data row')
    rep.exhaustive = False
    rep.extra['behaviour_space_exhaustive'] = True
    rep.assumptions = ['the space of names, lengths, horizons, format classes and call interleavings of the '
                       'instances is enumerated completely; the stored VALUES are seeded random samples '
                       '(VERIF_SEED), not exhaustive',
                       'precision of a format: %.5g rel 1e-4, %.12g rel 1e-11, %e rel 1e-6, %f abs 1e-6, %d exact',
                       'alphabetical = ascending by code point; horizon = the stated one (EquationSolver.MaxTime if set, '
                       '0 included, else the MaxTime line / Model.MaxTime, else 0); horizon+1 rows demanded while the '
                       'solved holder is untouched',
                       'TLC 1.8 / tla2tools; float()/int()/Fraction of Python parse the cells']
    behs = []
    seen = set()
    for cfg in cfgs:
        res = core.tlc('MC_Table', cfg, workers=1 if quick else 8, tag='c19')
        if res.violated:
            raise core.MachineryError('spec invariant %s violated in %s' % (res.violated, cfg))
        rep.add_tlc(res, 'exhaustive ' + cfg)
        got = core.json_of_printed(res, 'BEH')
        if not got:
            raise core.MachineryError('TLC emitted no behaviours for ' + cfg)
        for b in got:
            k = core.canonical(b)
            if k in seen:
                raise core.MachineryError('TLC emitted a behaviour twice (%s)' % cfg)
            seen.add(k)
            behs.append(b)
        rep.extra['behaviours_' + cfg.replace('MC_Table_', '').replace('.cfg', '')] = len(got)
    del seen
    cases = []
    for b in behs:
        cases.append(({'kind': 'holder', 'behaviour': b, 'seed': rep.seed}, execute(b, rep.seed)))
    rep.extra['behaviours_replayed'] = len(cases)
    rep.extra['solves_replayed'] = sum(1 for b in behs for o in b['hist'] if o['op'] == 'solve')
    rep.extra['solves_with_horizon_stated_on_solver'] = sum(
        1 for b in behs for o in b['hist'] if o['op'] == 'horizon' and o['place'] == 'solver')
    rep.extra['renders_after_a_change_of_an_observed_holder'] = sum(
        1 for b in behs if any(o['op'] in ('list', 'render') and
                               any(m['op'] in ('put', 'store', 'del') for m in b['hist'][i + 1:])
                               for i, o in enumerate(b['hist'])))
    wd = core.workdir('c19_models')
    try:
        rng = random.Random('%d|models' % rep.seed)
        specs = model_specs(rep.tier, rng)
        n0 = len(cases)
        for spec in specs:
            cases.extend(model_cases(spec, wd))
        rep.extra['solved_models'] = len(specs)
        rep.extra['step_trace_tables'] = len(cases) - n0 - len(specs)
    finally:
        core.cleanup(wd)
    rep.extra['tables_rendered'] = sum(1 for _, evs in cases for e in evs if e['ev'] == 'Render')
    rep.extra['cells_checked'] = sum(len(r) for _, evs in cases for e in evs if e['ev'] == 'Render' for r in e['cells'])
    judge(rep, cases)


def replay(path):
    with open(path) as f:
        data = json.load(f)
    case = data['case']
    if 'case' in case and 'observed' in case:
        case = case['case']
    wd = core.workdir('c19_replay')
    try:
        if case['kind'] == 'holder':
            events = execute(case['behaviour'], case['seed'])
        elif case['kind'] == 'steptrace':
            got = [ev for c, ev in model_cases(legacy_spec(case['spec']), wd) if c['kind'] == 'steptrace']
            if not got:
                raise core.MachineryError('the model of this replay file leaves no step trace now')
            events = got[0]
        else:
            events = execute_model(case['spec'], wd)
    finally:
        core.cleanup(wd)
    rep = core.Report('C19', 'quick', 0)
    judge(rep, [(case, events)])
    print(json.dumps({'case': case, 'observed_now': brief(events)}, indent=1))
    for v in rep.violations:
        print('VIOLATION property=C19 replay=%s' % path)
        print('  clause=%s signature=%s' % (v.clause, v.signature))
        return 1
    print('replay: property clause holds on this case now')
    return 0
