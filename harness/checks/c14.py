"""C14 - equation text is classified faithfully; comments are inert.

spec:   spec/Parser.tla (one action per line form; LineOp / FinishOp; invariants C14_*)
TLC:    exhaustive check of the bounded instances (all blocks of <= 3 / <= 4 lines over the reduced
        alphabet; every form of the full alphabet before and after the section marker); every
        maximal behaviour (= one equation block as a sequence of line forms) is emitted
replay: each block is spelled out as text and given to the REAL EquationParser.ParseString, and so is
        its comment-free twin; the observed lists / parameters / messages of both are logged
trace:  TLC (Parser_Trace) recomputes the lists from the line forms with the spec's LineOp and judges
        the property clauses; class assignment = the spec's, with/without comments identical
reuse:  Parser!Begin - ParseString called again on the SAME parser object: TLC enumerates all pairs of blocks
        (block B after block A) over the re-use alphabet; the driver lets one real EquationParser object parse
        them in turn; what each call reports is judged against the block alone (Block events with again = TRUE)
pairs:  observed-vs-observed runs that differ in free text only: (a) solvable blocks solved by
        EquationSolver with and without hostile trailing comments, (b) model SIM built with plain
        and with hostile long names / descriptions; same lists and identical series are required
        (clause "comments never alter which equations exist or their solution"); TLC judges the logged
        Booleans (event Pair)
model:  spec/ModelText.tla (actions Describe(slot, class), Main): TLC enumerates the assignments of hostile
        free-text classes (the library's own tag EXOGENOUS in every case variant, the marker line, MaxTime,
        Err_Tolerance, '=') to the slots through which free text reaches the model's final text (descriptions
        of a simultaneous / lagged / exogenous / decorative variable, sector long names); each is built on
        the real Model next to its twin with plain texts; TLC (event Model) judges the classes of the slot
        variables in the final text against TextOf/MainOp and the whole-run comparison

Readings (the weaker one where the statement leaves a choice):
* "right-hand side unchanged in meaning": the stored text equals the written right-hand side up to
  white space (for a lag: the lagged variable's name). The parser never rewrites expressions.
* order inside a class is not part of the property (bags); order differences are drift.
* after the section marker every one-'=' line that is not a run parameter is exogenous.
* comment-only lines that merely mention the marker word are not generated; the marker is the
  canonical line the model emits.
* a run-parameter line with a malformed value (MaxTime not an integer literal, Err_Tolerance not a number) is
  "reported" when the call raises (any exception) or adds a message; integral spellings such as 3.0 / 1e2 are
  not generated (the statement does not say whether they are malformed).

Signatures: a violating case that contains free text with the marker word is re-run with that text
replaced by plain words; if the violation disappears the signature is
'marker-word-in-trailing-comment' (root cause: the 'exogenous' substring test runs on the raw line),
otherwise, if it disappears when also the free text with line-separator characters (classes sep*) is
replaced: 'line-separator-character-in-free-text'; likewise for free text ending in a backslash / operator /
ellipsis (classes end*): 'line-continuation-character-at-end-of-free-text';
otherwise: 'default-t-added-although-user-defines-time-axis' when the block defines t / t_minus_1 and
the observed simultaneous list nevertheless holds t = k; else the signature spells the line forms.  A block with a malformed run-parameter value (MaxTime = 2.5, Err_Tolerance = CAT) that
the call accepts without raising or reporting: 'malformed-run-parameter-value-accepted'.  Several calls on one object: 'state-carried-over-from-an-earlier-ParseString-call'
when every block is judged fine on a fresh parser object.  Model events: 'model-free-text-not-inert:<classes>' (the twin
differs in the free texts only).
"""
import concurrent.futures
import json
import random
import re

from harness import core

CLAUSE = {'E': 'C14_ExactlyOneClass', 'M': 'C14_MeaningUnchanged', 'T': 'C14_TimeSupplied',
          'R': 'C14_MalformedReported', 'I': 'C14_CommentsInert'}
DRIFT = {'o': 'list_or_message_order'}
SIG_MARKER = 'marker-word-in-trailing-comment'
SIG_TIME = 'default-t-added-although-user-defines-time-axis'
SIG_SEP = 'line-separator-character-in-free-text'
SIG_JOIN = 'line-continuation-character-at-end-of-free-text'
SIG_PARAM = 'malformed-run-parameter-value-accepted'
SIG_REUSE = 'state-carried-over-from-an-earlier-ParseString-call'
SIG_MODEL = 'model-free-text-not-inert:'       # + the classes of the free texts of the model
TAG_CLASSES = ('exoU', 'exoM', 'tagline', 'pmax', 'ptol')
MARKER_WORD_CLASSES = ('exo', 'exoU', 'exoM', 'tagline')

ONE_EQ = ('eq', 'lag1', 'lag2', 'lag3', 'ic', 'maxtime', 'errtol', 'usert')

# texts of the comment classes; text variant 0 is the model's own layout ('  # text'), text variant 1 glues
# the comment to the code and uses other spellings.  <S> stands for a line-separator character that is not
# '\n' (classes sep*); a rendering variant v selects the text variant v % 2 and the separator SEPS[v // 2].
COMMENTS = [
    {'plain': 'household consumption', 'eq': 'where a = b + c', 'hash': 'see # note #2',
     'digits': '12345 0.5 (0) 1e-3', 'exo': 'an exogenous shock',
     'sepeq': 'the 2015 version had<S> q = 0.25 * y', 'sepic': 'the 2015 version started from<S> x(0) = 0.',
     'sepexo': 'tax rule<S> (the rate is exogenous in later versions)', 'sepplain': 'tax rule<S> flat rate',
     'exoU': 'labour supply is not EXOGENOUS here', 'exoM': 'Exogenous demand',
     'tagline': 'see # Exogenous Variables', 'pmax': 'MaxTime = 9', 'ptol': 'Err_Tolerance = 1',
     'endbs': 'see C:\\data\\', 'endop': 'continued: a + b +', 'enddots': 'and so on ...'},
    {'plain': 'Lagged value (previous period)', 'eq': 'x=1', 'hash': '## ## #',
     'digits': '42 (k-1) 2.', 'exo': 'Exogenous demand, G = 20 #1',
     'sepeq': 'was<S>x = 7', 'sepic': 'init<S>z(0)=1<S>MaxTime = 9', 'sepexo': 'note<S># Exogenous Variables',
     'sepplain': 'a<S>b<S><S>c',
     'exoU': 'EXOGENOUS', 'exoM': 'see Exogenous Variables', 'tagline': '# Exogenous Variables',
     'pmax': 'uses MaxTime=1', 'ptol': 'Err_Tolerance=1e-2',
     'endbs': 'x_{t-1}\\', 'endop': 'f(a,', 'enddots': 'continued _ ^ &'},
]
# what str.splitlines() (and text tools built like it) cuts at, besides '\n': form feed, vertical tab, the
# ASCII file / group / record separators, NEL, the Unicode line / paragraph separators, a bare carriage return
SEPS = ['\x0c', '\x0b', '\x1c', '\x1d', '\x1e', '\x85', u'\u2028', u'\u2029', '\r']
SEP_NAMES = ['FF', 'VT', 'FS', 'GS', 'RS', 'NEL', 'U+2028', 'U+2029', 'CR']
SEP_CLASSES = ('sepeq', 'sepic', 'sepexo', 'sepplain')
END_CLASSES = ('endbs', 'endop', 'enddots')
ALL_SEP_VARIANTS = tuple(2 * i + i % 2 for i in range(len(SEPS)))      # every separator, texts alternating


def free_text(table, cc, variant):
    return table[variant % 2][cc].replace('<S>', SEPS[(variant // 2) % len(SEPS)])


EQ = {'tight': '=', 'one': ' = ', 'wide': '   =  '}
OPSEP = {'tight': '', 'one': ' ', 'wide': '  '}
BLANK = {'tight': '', 'one': ' ', 'wide': ' \t  '}
LAG = {'lag1': '(k-1)', 'lag2': '(t-1)', 'lag3': ' (k -1 )'}
MARKER_LINE = '# Exogenous Variables'
_TOK = re.compile(r'[A-Za-z_]\w*|\d+\.?\d*(?:e-?\d+)?|\.\d+|\S')


# --------------------------------------------------------------------------------------
# behaviours -> text
# --------------------------------------------------------------------------------------

def decode(code):
    """'kind|v|r|cc|sp;...' as printed by MC_Parser!Emit -> list of form dicts"""
    if code == '':
        return []
    out = []
    for part in code.split(';'):
        kind, v, r, cc, sp = part.split('|')
        out.append({'kind': kind, 'v': v, 'r': r, 'cc': cc, 'sp': sp})
    return out


def behaviours_of(res):
    """BEH tuples from raw TLC output (TLC wraps tuples longer than 80 columns over two lines,
    which core._collect_printed does not read)."""
    return re.findall(r'<<\s*"BEH",\s*"([^"]*)"\s*>>', res.stdout)


def spaced(r, sp):
    return OPSEP[sp].join(_TOK.findall(r))


def no_comment(f):
    """Parser!NoComment"""
    if f['kind'] == 'comment':
        return {'kind': 'blank', 'v': '', 'r': '', 'cc': 'none', 'sp': f['sp']}
    g = dict(f)
    g['cc'] = 'none'
    return g


def render(f, variant=0):
    kind, sp = f['kind'], f['sp']
    if kind == 'marker':
        return MARKER_LINE
    if kind == 'blank':
        return BLANK[sp]
    if kind == 'comment':
        return '# ' + free_text(COMMENTS, f['cc'], variant)
    if kind == 'eq' or kind == 'usert':
        code = f['v'] + EQ[sp] + spaced(f['r'], sp)
    elif kind in LAG:
        code = f['v'] + EQ[sp] + f['r'] + LAG[kind]
    elif kind == 'ic':
        code = f['v'] + '(0)' + EQ[sp] + f['r']
    elif kind in ('maxtime', 'errtol', 'badmax', 'baderr'):
        code = f['v'] + EQ[sp] + f['r']
    elif kind == 'noeq':
        code = spaced(f['r'], sp)
    elif kind == 'multieq':
        code = f['v'] + EQ[sp] + spaced(f['r'], sp) + EQ[sp] + '2'
    else:
        raise core.MachineryError('unknown line kind %r' % (kind,))
    if sp == 'wide':
        code = '  ' + code + ' \t'
    if f['cc'] == 'none':
        return code
    text = free_text(COMMENTS, f['cc'], variant)
    return code + ('  # ' + text if variant % 2 == 0 else '#' + text)


def render_block(forms, variant=0):
    return '\n'.join(render(f, variant) for f in forms)


# --------------------------------------------------------------------------------------
# the real parser
# --------------------------------------------------------------------------------------

def _norm(s):
    return ''.join(str(s).split())


def _pairs(lst):
    return [{'var': str(v), 'rhs': _norm(r)} for v, r in lst]


def observe(text, parser=None):
    """ParseString on the real EquationParser (a fresh one, or the given object once more) -> projection
    (uniformly typed)."""
    from sfc_models.equation_parser import EquationParser
    p = parser if parser is not None else EquationParser()
    try:
        msg = p.ParseString(text)
    except Exception as e:
        return {'ok': False, 'endo': [], 'lag': [], 'exo': [], 'ic': [], 'maxTime': '', 'errTol': '',
                'msgs': [], 'exc': type(e).__name__}
    kinds = []
    for ln in str(msg or '').split('\n'):
        if not ln.strip():
            continue
        if ln.startswith('Ignored line'):
            kinds.append('noeq')
        elif ln.startswith('Line with multiple'):
            kinds.append('multi')
        else:
            kinds.append('other')
    ic = [{'var': str(k), 'rhs': _norm(v)} for k, v in sorted(p.InitialConditions.items())]
    return {'ok': True, 'endo': _pairs(p.Endogenous), 'lag': _pairs(p.Lagged), 'exo': _pairs(p.Exogenous),
            'ic': ic, 'maxTime': str(p.MaxTime), 'errTol': str(p.Err_Tolerance), 'msgs': kinds, 'exc': ''}


def execute(forms, variant=0):
    """One block on the real code: the Block event of the trace."""
    text = render_block(forms, variant)
    twin = render_block([no_comment(f) for f in forms], variant)
    return {'ev': 'Block', 'again': False, 'lines': forms, 'obs': observe(text), 'twin': observe(twin)}


def decode_blocks(code):
    """'A-lines//B-lines' (MC_Parser!Emit with MaxBlocks > 1) -> list of blocks (lists of form dicts)"""
    return [decode(part) for part in code.split('//')]


def execute_reuse(blocks, variant=0):
    """Parser!Begin: ONE EquationParser object parses the blocks one after the other (and a second object
    their comment-free twins); one Block event per call, `again` from the second call on."""
    from sfc_models.equation_parser import EquationParser
    p, q = EquationParser(), EquationParser()
    events = []
    for n, forms in enumerate(blocks):
        text = render_block(forms, variant)
        twin = render_block([no_comment(f) for f in forms], variant)
        events.append({'ev': 'Block', 'again': n > 0, 'lines': forms, 'obs': observe(text, p),
                       'twin': observe(twin, q)})
    return events


def reuse_signature(blocks):
    return 'calls:' + ' // '.join(generic_signature(b)[len('lines:'):] for b in blocks)


def judge_reuse_gen(rep, items):
    """items: list of (blocks, variant): several ParseString calls on one parser object."""
    traces = []
    for i, (blocks, variant) in enumerate(items):
        traces.append((i, execute_reuse(blocks, variant)))
        rep.add_case({'blocks': blocks, 'variant': variant}, any(nontrivial(b) for b in blocks))
    verdicts = yield traces
    rep.traces += len(traces)
    bad = []
    for i, (blocks, variant) in enumerate(items):
        kind, letters = split_verdict(verdicts[i])
        if kind == 'drift':
            for c in letters:
                rep.add_drift(DRIFT.get(c, c), {'blocks': blocks, 'variant': variant, 'observed': traces[i][1]})
        elif kind == 'property':
            bad.append((i, letters))
    if not bad:
        return
    # differential diagnosis: is every block judged fine when a fresh parser object parses it?
    fresh = []
    for i, _ in bad:
        for b in items[i][0]:
            fresh.append((len(fresh), [execute(b, items[i][1])]))
    fv = yield fresh
    n = 0
    for i, letters in bad:
        blocks, variant = items[i]
        ok_fresh = True
        for _b in blocks:
            ok_fresh = ok_fresh and not fv[n].startswith('property')
            n += 1
        if ok_fresh:
            sig = SIG_REUSE
        elif 'R' in letters and any(ev['obs']['ok'] and any(f['kind'] in ('badmax', 'baderr') for f in ev['lines'])
                                    for ev in traces[i][1]):
            sig = SIG_PARAM
        else:
            sig = reuse_signature(blocks)
        case = {'blocks': blocks, 'variant': variant, 'texts': [render_block(b, variant) for b in blocks],
                'observed': traces[i][1]}
        for c in letters:
            cnt = _filed.setdefault((id(rep), c, sig), [0])
            cnt[0] += 1
            if cnt[0] <= 20:
                rep.violate(CLAUSE.get(c, c), sig, case,
                            detail='one parser object, ParseString calls %r -> last call observed %s' % (
                                case['texts'], json.dumps(traces[i][1][-1]['obs'])[:260]))
            else:
                rep.violate(CLAUSE.get(c, c), sig, {'blocks': blocks, 'variant': variant})


# --------------------------------------------------------------------------------------
# judging
# --------------------------------------------------------------------------------------

def has_marker_text(forms):
    return any(f['cc'] in MARKER_WORD_CLASSES for f in forms)


def user_time(forms):
    """Parser!HasUserT"""
    return any(f['kind'] in ONE_EQ and f['kind'] != 'ic' and f['v'] in ('t', 't_minus_1') for f in forms)


def has_sep_text(forms):
    return any(f['cc'] in SEP_CLASSES for f in forms)


def cured(forms, classes=MARKER_WORD_CLASSES):
    return [dict(f, cc='plain') if f['cc'] in classes else f for f in forms]


def generic_signature(forms):
    return 'lines:' + ','.join(f['kind'] + ('/' + f['cc'] if f['cc'] != 'none' else '') for f in forms)


def nontrivial(forms):
    return any(f['kind'] in ONE_EQ for f in forms)


def _validate(traces, rep, tag='c14'):
    verdicts, st, tr = core.validate_traces('MC_Parser_Trace', 'MC_Parser_Trace.cfg', traces, tag=tag,
                                            chunk=3000)
    rep.extra['trace_validation_states'] = rep.extra.get('trace_validation_states', 0) + st
    return verdicts


def split_verdict(v):
    kind, letters = v.split(':', 1)
    return kind, letters


_filed = {}


def run_together(rep, gens, tag='c14'):
    """The judge_*_gen generators yield lists of (local tid, events) to be validated and are sent back
    {local tid: verdict}.  The requests of all generators of one round go to TLC as ONE batch."""
    active = []
    for g in gens:
        try:
            active.append((g, next(g)))
        except StopIteration:
            pass
    while active:
        batch, spans = [], []
        for _g, req in active:
            base = len(batch)
            spans.append((base, len(req)))
            batch.extend([(base + n, evs) for n, (_tid, evs) in enumerate(req)])
        verdicts = _validate(batch, rep, tag=tag) if batch else {}
        nxt = []
        for (g, req), (base, n) in zip(active, spans):
            try:
                nxt.append((g, g.send({req[k][0]: verdicts[base + k] for k in range(n)})))
            except StopIteration:
                pass
        active = nxt


def judge_blocks(rep, items):
    run_together(rep, [judge_blocks_gen(rep, items)])


def judge_reuse(rep, items):
    run_together(rep, [judge_reuse_gen(rep, items)], tag='c14reuse')


def judge_pairs(rep, cases):
    run_together(rep, [judge_pairs_gen(rep, cases)], tag='c14pair')


def judge_models(rep, items):
    run_together(rep, [judge_models_gen(rep, items)], tag='c14model')


def judge_blocks_gen(rep, items):
    """items: list of (forms, variant).  Executes, validates with TLC, files violations / drift."""
    traces = []
    for i, (forms, variant) in enumerate(items):
        ev = execute(forms, variant)
        traces.append((i, [ev]))
        case = {'behaviour': forms, 'variant': variant}
        rep.add_case(dict(case, text=render_block(forms, variant), observed=ev) if len(rep.samples) < 3 else case,
                     nontrivial(forms))
    verdicts = yield traces
    rep.traces += len(traces)
    bad = []
    for i, (forms, variant) in enumerate(items):
        kind, letters = split_verdict(verdicts[i])
        if kind == 'ok':
            continue
        if kind == 'drift':
            for c in letters:
                rep.add_drift(DRIFT.get(c, c), {'behaviour': forms, 'variant': variant,
                                                'observed': traces[i][1][0]})
            continue
        bad.append((i, letters))
    if not bad:
        return
    # differential diagnosis: does the violation go away when the marker word leaves the free text?
    # if not: when the line-separator characters (and the marker word) leave it?
    def cure_batch(idx, classes):
        out = {}
        if idx:
            cv = yield [(n, [execute(cured(items[i][0], classes), items[i][1])]) for n, i in enumerate(idx)]
            for n, i in enumerate(idx):
                out[i] = not cv[n].startswith('property')
        return out
    cure_marker = yield from cure_batch([i for i, _ in bad if has_marker_text(items[i][0])], MARKER_WORD_CLASSES)
    cure_sep = yield from cure_batch([i for i, _ in bad if has_sep_text(items[i][0]) and not cure_marker.get(i)],
                                     MARKER_WORD_CLASSES + SEP_CLASSES)
    cure_end = yield from cure_batch([i for i, _ in bad if any(f['cc'] in END_CLASSES for f in items[i][0])
                                      and not cure_marker.get(i) and not cure_sep.get(i)],
                                     MARKER_WORD_CLASSES + SEP_CLASSES + END_CLASSES)
    for i, letters in bad:
        forms, variant = items[i]
        ev = traces[i][1][0]
        if cure_marker.get(i):
            sig = SIG_MARKER
        elif cure_sep.get(i):
            sig = SIG_SEP
        elif cure_end.get(i):
            sig = SIG_JOIN
        elif 'R' in letters and ev['obs']['ok'] and any(f['kind'] in ('badmax', 'baderr') for f in forms):
            sig = SIG_PARAM
        elif user_time(forms) and {'var': 't', 'rhs': 'k'} in ev['obs']['endo']:
            sig = SIG_TIME
        else:
            sig = generic_signature(forms)
        small = {'behaviour': forms, 'variant': variant}
        for c in letters:
            # the full record (text, observation) only for the first cases of each (clause, signature)
            n = _filed.setdefault((id(rep), c, sig), [0])
            n[0] += 1
            if n[0] <= 20:
                text = render_block(forms, variant)
                rep.violate(CLAUSE.get(c, c), sig, dict(small, text=text, observed=ev),
                            detail='block %r -> observed %s' % (text, json.dumps(ev['obs'])[:260]))
            else:
                rep.violate(CLAUSE.get(c, c), sig, small)


# --------------------------------------------------------------------------------------
# pairs: observed-vs-observed under a change of free text only
# --------------------------------------------------------------------------------------

def L(kind, v='', r='', cc='none', sp='one'):
    return {'kind': kind, 'v': v, 'r': r, 'cc': cc, 'sp': sp}


TEMPLATES = {
    'lagloop': [L('eq', 'x', '0.5*y+g'), L('eq', 'y', 'LAG_x+1'), L('lag1', 'LAG_x', 'x'), L('ic', 'x', '1.5'),
                L('marker'), L('eq', 'g', '[2.]*10'), L('maxtime', 'MaxTime', '3')],
    'sim': [L('eq', 'Y', 'C+G'), L('eq', 'C', '0.6*YD+0.4*LAG_H'), L('eq', 'YD', 'Y-T'), L('eq', 'T', '0.2*Y'),
            L('eq', 'H', 'LAG_H+YD-C'), L('lag1', 'LAG_H', 'H'), L('usert', 't', 'k+1'),
            L('errtol', 'Err_Tolerance', '1e-6'), L('marker'), L('eq', 'G', '[20.]*10'),
            L('maxtime', 'MaxTime', '5')],
    # the user's time axis defined on a lag line
    'lagtime': [L('eq', 's', 't+1'), L('lag1', 't', 's'), L('ic', 't', '2000.'), L('eq', 'y', '0.5*y+s'),
                L('marker'), L('eq', 'g', '[2.]*10'), L('maxtime', 'MaxTime', '3')],
}
HOSTILE = ('plain', 'eq', 'hash', 'digits', 'exo') + SEP_CLASSES + END_CLASSES
SPACINGS = ('tight', 'one', 'wide')
LAGS = ('lag1', 'lag2', 'lag3')


def dress(template, classes, spacings, lagkind):
    out = []
    for f, cc, sp in zip(template, classes, spacings):
        g = dict(f)
        if g['kind'] == 'marker':
            out.append(g)
            continue
        if g['kind'] in LAG:
            g['kind'] = lagkind
        g['cc'] = cc
        g['sp'] = sp
        out.append(g)
    return out


def solve(text):
    """-> (ok, lists, series) observed on the real EquationSolver."""
    from sfc_models.equation_solver import EquationSolver
    import warnings
    try:
        with warnings.catch_warnings():
            warnings.simplefilter('ignore')
            s = EquationSolver(text)
            s.SolveEquation()
        return True, _solver_lists(s), _series(s.TimeSeries), ''
    except Exception as e:
        return False, {}, {}, type(e).__name__ + ': ' + str(e)[:120]


def _solver_lists(s):
    p = s.Parser
    return {'endo': sorted(_pairs_any(p.Endogenous)), 'lag': sorted(_pairs_any(p.Lagged)),
            'exo': sorted(_pairs_any(p.Exogenous)), 'deco': sorted(_pairs_any(p.Decoration)),
            'ic': sorted([str(k), _norm(v)] for k, v in p.InitialConditions.items()),
            'maxTime': str(p.MaxTime), 'errTol': str(p.Err_Tolerance)}


def _pairs_any(lst):
    return [[str(v), _norm(r)] for v, r in lst]


def _series(ts):
    return {str(k): [repr(float(x)) for x in ts[k]] for k in ts.keys()}


def solve_pair(name, forms, variant):
    """plain block vs the same block with the trailing comments of `forms`."""
    plain_text = render_block([no_comment(f) for f in forms], variant)
    host_text = render_block(forms, variant)
    ok_a, lists_a, ser_a, exc_a = solve(plain_text)
    if not ok_a:
        raise core.MachineryError('well-posed block %s does not solve without comments: %s\n%s' % (
            name, exc_a, plain_text))
    ok_b, lists_b, ser_b, exc_b = solve(host_text)
    ev = {'ev': 'Pair', 'what': 'solve', 'okA': ok_a, 'okB': ok_b, 'lists': lists_a == lists_b,
          'series': ser_a == ser_b}
    return ev, {'pair': 'solve', 'template': name, 'behaviour': forms, 'variant': variant,
                'hostile_text': host_text, 'hostile_exception': exc_b}


# model level ---------------------------------------------------------------------------

SIM_NAMES = {'country': 'C', 'GOV': 'Government', 'HH': 'Household', 'BUS': 'Business Sector', 'TF': 'TaxFlow',
             'LAB': 'Labour market', 'GOOD': 'Goods market'}
SIM_KEYS = ('country', 'GOV', 'HH', 'BUS', 'TF', 'LAB', 'GOOD', 'desc1', 'desc2')
NAME_TEXT = [
    {'plain': 'Sector of the plain kind', 'eq': 'Sector where a = b', 'hash': 'Sector #2 (see # note)',
     'digits': 'Sector 12345 (0) 0.5', 'exo': 'Sector hit by an exogenous shock',
     'sepeq': 'Sector; the 2015 version had<S> HH__AlphaIncome = 0.25', 'sepic': 'Sector; started from<S> HH__F(0) = 50.',
     'sepexo': 'Sector<S> (demand is exogenous in later versions)', 'sepplain': 'Sector<S> second page'},
    {'plain': 'Another name', 'eq': 'MaxTime = 1', 'hash': '###', 'digits': '2. (k-1) 1e-3',
     'exo': 'EXOGENOUS = # 7',
     'sepeq': 'Name<S>GOV__T = 0.', 'sepic': 'Name<S>GOV__F(0)=1<S>MaxTime = 2', 'sepexo': 'Name<S># Exogenous Variables',
     'sepplain': 'a<S>b<S><S>c'},
]


for _v in (0, 1):
    for _c in ('endbs', 'endop', 'enddots'):
        NAME_TEXT[_v][_c] = 'Sector; ' + COMMENTS[_v][_c]


def build_sim(names, extras=True, max_time=3):
    """The calls of sfc_models.gl_book.chapter3.SIM.build_model with the long names (and the
    descriptions of two added decorative variables) taken from `names`; returns (ok, lists, series, exc, text)."""
    from sfc_models.models import Model, Country
    from sfc_models.sector import Market
    from sfc_models.sector_definitions import ConsolidatedGovernment, Household, FixedMarginBusiness, TaxFlow
    mod = None
    try:
        mod = Model()
        country = Country(mod, 'C', names['country'])
        gov = ConsolidatedGovernment(country, 'GOV', names['GOV'])
        hh = Household(country, 'HH', names['HH'], alpha_income=.6, alpha_fin=.4)
        FixedMarginBusiness(country, 'BUS', names['BUS'])
        TaxFlow(country, 'TF', names['TF'], taxrate=.2)
        Market(country, 'LAB', names['LAB'])
        Market(country, 'GOOD', names['GOOD'])
        gov.SetExogenous('DEM_GOOD', '[0.,] + [20.,] * 105')
        if extras:
            hh.AddVariable('TWICE', names['desc1'], '2*AfterTax')
            gov.AddVariable('HALF', names['desc2'], '0.5*T')
        mod.MaxTime = max_time
        text = mod.main()
        s = mod.EquationSolver
        return True, _solver_lists(s), _series(s.TimeSeries), '', text
    except Exception as e:
        text = getattr(mod, 'FinalEquations', '') if mod is not None else ''
        return False, {}, {}, type(e).__name__ + ': ' + str(e)[:120], text if isinstance(text, str) else ''


def check_sim_reference():
    """build_sim with SIM's own names must be the bundled builder (else the check tests something else)."""
    try:
        from sfc_models.gl_book.chapter3 import SIM
        mod = SIM('C').build_model()
        mod.MaxTime = 3
        ref_text = mod.main()
        ref_series = _series(mod.EquationSolver.TimeSeries)
    except Exception as e:
        raise core.MachineryError('gl_book.chapter3.SIM does not run on this tree: %s: %s' % (
            type(e).__name__, str(e)[:200]))
    ok, _l, ser, exc, text = build_sim(dict(SIM_NAMES, desc1='', desc2=''), extras=False)
    if not ok or text != ref_text or ser != ref_series:
        raise core.MachineryError('build_sim does not reproduce gl_book.chapter3.SIM (%s)' % exc)


def model_names(classes, variant):
    """classes: dict key -> comment class ('none' keeps SIM's own name)"""
    names = dict(SIM_NAMES, desc1='Twice the after-tax income', desc2='Half of the taxes')
    for k, c in classes.items():
        if c != 'none':
            names[k] = free_text(NAME_TEXT, c, variant)
    return names


_plain_model = {}


def model_pair(classes, variant):
    if 'p' not in _plain_model:
        _plain_model['p'] = build_sim(model_names({}, 0))
    ok_a, lists_a, ser_a, exc_a, _t = _plain_model['p']
    if not ok_a:
        raise core.MachineryError('model SIM with plain names does not run: ' + exc_a)
    ok_b, lists_b, ser_b, exc_b, text_b = build_sim(model_names(classes, variant))
    ev = {'ev': 'Pair', 'what': 'model', 'okA': ok_a, 'okB': ok_b, 'lists': lists_a == lists_b,
          'series': ser_a == ser_b}
    return ev, {'pair': 'model', 'classes': classes, 'variant': variant, 'hostile_exception': exc_b,
                'hostile_text_head': text_b[:600]}


def pair_cases(rep):
    """-> list of ('solve', name, forms, variant) / ('model', classes, variant)"""
    rnd = random.Random(rep.seed)
    cases = []
    nv = 2 * len(SEPS)
    count = 0
    for name in sorted(TEMPLATES):
        tpl = TEMPLATES[name]
        n = len(tpl)
        for j, cc in enumerate(HOSTILE):
            for m in range(3):
                count += 1       # walks through the separators and the two text variants
                cases.append(('solve', name, dress(tpl, [cc] * n, [SPACINGS[(m + i) % 3] for i in range(n)],
                                                   LAGS[m]), (2 * count + (j + m) % 2) % nv))
        for _ in range(5 if rep.tier == 'quick' else 150):
            cases.append(('solve', name, dress(tpl, [rnd.choice(('none',) + HOSTILE) for _i in range(n)],
                                               [rnd.choice(SPACINGS) for _i in range(n)], rnd.choice(LAGS)),
                          rnd.randrange(nv)))
    for j, cc in enumerate(HOSTILE):
        cases.append(('model', {k: cc for k in SIM_KEYS}, (2 * (3 * j) + j % 2) % nv))
    for _ in range(3 if rep.tier == 'quick' else 60):
        cases.append(('model', {k: rnd.choice(('none',) + HOSTILE) for k in SIM_KEYS}, rnd.randrange(nv)))
    return cases


def run_pair(c):
    if c[0] == 'solve':
        return solve_pair(c[1], c[2], c[3])
    return model_pair(c[1], c[2])


def pair_has(c, classes):
    if c[0] == 'solve':
        return any(f['cc'] in classes for f in c[2])
    return any(v in classes for v in c[1].values())


def pair_cured(c, classes):
    if c[0] == 'solve':
        return ('solve', c[1], cured(c[2], classes), c[3])
    return ('model', {k: ('plain' if v in classes else v) for k, v in c[1].items()}, c[2])


def pair_signature(c):
    if c[0] == 'solve':
        return 'solve:' + generic_signature(c[2])
    return 'model:' + ','.join('%s/%s' % (k, v) for k, v in sorted(c[1].items()) if v != 'none')


def judge_pairs_gen(rep, cases):
    traces = []
    info = []
    for i, c in enumerate(cases):
        ev, case = run_pair(c)
        traces.append((i, [ev]))
        info.append(case)
        rep.add_case(case if c[0] == 'model' else {k: case[k] for k in ('pair', 'template', 'behaviour', 'variant')},
                     True)
    verdicts = yield traces
    rep.traces += len(traces)
    bad = [i for i in range(len(cases)) if split_verdict(verdicts[i])[0] == 'property']
    # differential diagnosis as for blocks
    def cure_batch(idx, classes):
        out = {}
        if idx:
            cv = yield [(n, [run_pair(pair_cured(cases[i], classes))[0]]) for n, i in enumerate(idx)]
            for n, i in enumerate(idx):
                out[i] = not cv[n].startswith('property')
        return out
    cure_marker = yield from cure_batch([i for i in bad if pair_has(cases[i], MARKER_WORD_CLASSES)],
                                        MARKER_WORD_CLASSES)
    cure_sep = yield from cure_batch([i for i in bad if pair_has(cases[i], SEP_CLASSES) and not cure_marker.get(i)],
                                     MARKER_WORD_CLASSES + SEP_CLASSES)
    cure_end = yield from cure_batch([i for i in bad if pair_has(cases[i], END_CLASSES) and not cure_marker.get(i)
                                      and not cure_sep.get(i)], MARKER_WORD_CLASSES + SEP_CLASSES + END_CLASSES)
    for i in bad:
        c = cases[i]
        letters = split_verdict(verdicts[i])[1]
        if cure_marker.get(i):
            sig = SIG_MARKER
        elif cure_sep.get(i):
            sig = SIG_SEP
        elif cure_end.get(i):
            sig = SIG_JOIN
        else:
            sig = pair_signature(c)
        case = dict(info[i], observed=traces[i][1][0], case=list(c))
        for ch in letters:
            rep.violate(CLAUSE.get(ch, ch), sig, case,
                        detail='%s pair: %s; hostile run: %s' % (c[0], json.dumps(traces[i][1][0]),
                                                                 info[i].get('hostile_exception', '')))


# --------------------------------------------------------------------------------------
# model text: behaviours of spec/ModelText.tla (free-text classes in the slots of a model)
# --------------------------------------------------------------------------------------

# spec/ModelTextConsts.tla!MC_SlotSeq: slot id -> full name of the variable whose row carries the text
SLOT_VAR = {'d_endo': 'HH__AlphaIncome', 'd_lag': 'HH__LAG_F', 'd_deco': 'HH__TWICE', 'n_hh': 'LAB__SUP_HH',
            'n_bus': 'GOOD__SUP_BUS', 'd_exo': 'GOV__DEM_GOOD', 'n_rest': ''}
MODEL_MAX_TIME = 2        # ModelMaxTime of the cfg files


def decode_desc(code):
    """'slot=class;...' as printed by MC_ModelText!Emit -> [{'slot':.., 'cc':..}, ...]"""
    return [{'slot': p.split('=')[0], 'cc': p.split('=')[1]} for p in code.split(';') if p]


def build_slots(desc, variant):
    """The calls of gl_book.chapter3.SIM.build_model, every slot of ModelTextConsts!MC_SlotSeq given a free
    text of its class (plain when not in `desc`): long names as constructor arguments, descriptions through
    AddVariable on a simultaneous (AlphaIncome), a lagged (LAG_F), an exogenous (DEM_GOOD) and a decorative
    (TWICE) variable.  -> (ok, parser projection of the final text, solver lists, series, exception)"""
    from sfc_models.models import Model, Country
    from sfc_models.sector import Market
    from sfc_models.sector_definitions import ConsolidatedGovernment, Household, FixedMarginBusiness, TaxFlow
    cls = {d['slot']: d['cc'] for d in desc}
    text = {k: free_text(COMMENTS, cls.get(k, 'plain'), variant) for k in SLOT_VAR}
    mod = None
    try:
        mod = Model()
        country = Country(mod, 'C', text['n_rest'])
        gov = ConsolidatedGovernment(country, 'GOV', text['n_rest'])
        hh = Household(country, 'HH', text['n_hh'], alpha_income=.6, alpha_fin=.4)
        FixedMarginBusiness(country, 'BUS', text['n_bus'])
        TaxFlow(country, 'TF', text['n_rest'], taxrate=.2)
        Market(country, 'LAB', text['n_rest'])
        Market(country, 'GOOD', text['n_rest'])
        gov.AddVariable('DEM_GOOD', text['d_exo'], '0.0')
        gov.SetExogenous('DEM_GOOD', '[0.,] + [20.,] * 105')
        hh.AddVariable('AlphaIncome', text['d_endo'], '0.6000')
        hh.AddVariable('LAG_F', text['d_lag'], 'F(k-1)')
        hh.AddVariable('TWICE', text['d_deco'], '2*AfterTax')
        mod.MaxTime = MODEL_MAX_TIME
        final = mod.main()
        s = mod.EquationSolver
        return True, project(observe(final)), _solver_lists(s), _series(s.TimeSeries), '', final
    except Exception as e:
        final = getattr(mod, 'FinalEquations', '') if mod is not None else ''
        final = final if isinstance(final, str) else ''
        # the text may exist although the run failed: what the parser makes of it is still observed
        obs = project(observe(final)) if final else dict(observe('MaxTime = x'), exc=type(e).__name__)
        return False, dict(obs, ok=False), {}, {}, type(e).__name__ + ': ' + str(e)[:120], final


def project(obs):
    """parser projection restricted to the slot variables (and the time axis)"""
    keep = set(SLOT_VAR.values()) | {'t'}
    out = dict(obs)
    for k in ('endo', 'lag', 'exo', 'ic'):
        out[k] = [e for e in obs[k] if e['var'] in keep]
    return out


_plain_slots = {}


def execute_model(desc, variant):
    """One behaviour of ModelText on the real Model: the Model event of the trace."""
    if 'p' not in _plain_slots:
        _plain_slots['p'] = build_slots([], 0)
    ok_a, obs_a, lists_a, ser_a, exc_a, _t = _plain_slots['p']
    if not ok_a:
        raise core.MachineryError('the model with plain free texts does not run: ' + exc_a)
    ok_b, obs_b, lists_b, ser_b, exc_b, text_b = build_slots(desc, variant)
    ev = {'ev': 'Model', 'desc': desc, 'obs': obs_b, 'twin': obs_a, 'okA': ok_a, 'okB': ok_b,
          'lists': lists_a == lists_b, 'series': ser_a == ser_b}
    return ev, exc_b, text_b


def judge_models_gen(rep, items):
    """items: list of (desc, variant)"""
    traces, extra = [], []
    for i, (desc, variant) in enumerate(items):
        ev, exc, text = execute_model(desc, variant)
        traces.append((i, [ev]))
        extra.append((exc, text))
        rep.add_case({'model': desc, 'variant': variant}, len(desc) > 0)
    verdicts = yield traces
    rep.traces += len(traces)
    for i, (desc, variant) in enumerate(items):
        kind, letters = split_verdict(verdicts[i])
        case = {'model': desc, 'variant': variant, 'observed': traces[i][1][0], 'hostile_exception': extra[i][0]}
        if kind == 'drift':
            for c in letters:
                rep.add_drift(DRIFT.get(c, c), case)
        if kind != 'property':
            continue
        # the twin is the same model with plain texts: the free text is the only difference
        sig = SIG_MODEL + '+'.join(sorted(set(d['cc'] for d in desc)))
        marker = extra[i][1].split(MARKER_LINE)
        for c in letters:
            rep.violate(CLAUSE.get(c, c), sig, case,
                        detail='model with free texts %s -> %s; after the marker: %r' % (
                            json.dumps(desc), extra[i][0] or json.dumps(traces[i][1][0]['obs'])[:200],
                            marker[1][:300] if len(marker) > 1 else ''))


def model_cfg(rep):
    return 'MC_ModelText_quick.cfg' if rep.tier == 'quick' else 'MC_ModelText_thorough.cfg'


def model_behaviours(rep, res=None):
    cfg = model_cfg(rep)
    if res is None:
        res = core.tlc('MC_ModelText', cfg, workers=1, tag='c14m', want_printed=False, heap='2g')
    if res.violated:
        raise core.MachineryError('spec invariant %s violated in %s' % (res.violated, cfg))
    rep.add_tlc(res, 'exhaustive ' + cfg)
    codes = re.findall(r'<<\s*"MBEH",\s*"([^"]*)"\s*>>', res.stdout)
    if not codes or 2 * len(set(codes)) != res.distinct:
        raise core.MachineryError('%s: read %d distinct behaviours from TLC output, %d states' % (
            cfg, len(set(codes)), res.distinct))
    rep.extra.setdefault('behaviours_emitted', {})[cfg] = len(codes)
    # quick: the two spellings alternate; thorough: both
    if rep.tier == 'quick':
        return [(decode_desc(c), n % 2) for n, c in enumerate(codes)]
    out = []
    for n, c in enumerate(codes):
        d = decode_desc(c)
        out.extend((d, v) for v in ((0, 1) if len(d) <= 1 else (n % 2,)))
    return out


# --------------------------------------------------------------------------------------
# entry points
# --------------------------------------------------------------------------------------

def run(rep):
    # (cfg, variants used to spell each behaviour)
    # 'rot' = one variant per behaviour, walking through the separators
    plan = [('MC_Parser_quick.cfg', (0,)), ('MC_Parser_quick2.cfg', (0, 1)), ('MC_Parser_quick3.cfg', (0, 1)),
            ('MC_Parser_quick4.cfg', ALL_SEP_VARIANTS), ('MC_Parser_quick6.cfg', (0, 1))]
    if rep.tier != 'quick':
        plan += [('MC_Parser_thorough3.cfg', (0, 1)), ('MC_Parser_thorough4.cfg', ALL_SEP_VARIANTS),
                 ('MC_Parser_thorough6.cfg', (0, 1)),
                 ('MC_Parser_thorough2.cfg', 'rot'), ('MC_Parser_thorough.cfg', (0,))]
    rep.rule = ('behaviours = all maximal behaviours of the bounded Parser instance emitted by TLC = equation blocks '
                'as sequences of line forms (kind x variable/right-hand side x trailing-comment class x spacing), '
                'each spelled out in the listed text variants (two spellings of the comment texts x the non-newline '
                'line-separator characters FF VT FS GS RS NEL U+2028 U+2029 CR for the sep* comment classes) and parsed by the real EquationParser together with '
                'its comment-free twin; pairs of blocks parsed one after the other by ONE parser object; plus solve pairs / model pairs (plain vs hostile free text); distinct = '
                'distinct (block, variant) JSON; non-trivial = the block has at least one well-formed one-"=" line')
    rep.exhaustive = True
    rep.assumptions = ['right-hand sides are compared as text up to white space (the parser never rewrites them)',
                       'comment-only lines that merely mention the marker word are not generated; variable names '
                       'never contain the marker word',
                       'TLC 1.8 / tla2tools; batched trace validation with Parser_Trace']
    reuse_cfg = 'MC_Parser_quick5.cfg' if rep.tier == 'quick' else 'MC_Parser_thorough5.cfg'
    plan.append((reuse_cfg, (0, 1)))

    def run_tlc(cfg):
        if cfg.startswith('MC_ModelText'):
            return core.tlc('MC_ModelText', cfg, workers=1, tag='c14m', want_printed=False, heap='2g')
        return core.tlc('MC_Parser', cfg, workers=(4 if 'thorough' in cfg else 1), tag='c14', want_printed=False,
                        heap='4g')
    # the small instances run side by side (one worker each); the large ones one after the other
    small = [cfg for cfg, _v in plan if 'thorough' not in cfg or cfg in ('MC_Parser_thorough3.cfg',
                                                                          'MC_Parser_thorough4.cfg',
                                                                          'MC_Parser_thorough6.cfg')]
    small.append(model_cfg(rep))
    results = {}
    with concurrent.futures.ThreadPoolExecutor(max_workers=7) as ex:
        for cfg, res in zip(small, ex.map(run_tlc, small)):
            results[cfg] = res
    seen = set()
    batch = []
    multi = []
    for cfg, variants in plan:
        res = results[cfg] if cfg in results else run_tlc(cfg)
        if res.violated:
            raise core.MachineryError('spec invariant %s violated in %s' % (res.violated, cfg))
        rep.add_tlc(res, 'exhaustive ' + cfg)
        codes = behaviours_of(res)
        if not codes:
            raise core.MachineryError('TLC emitted no behaviours for ' + cfg)
        # every unfinished block has exactly one Finish successor, and no two behaviours share a state
        if 2 * len(set(codes)) != res.distinct:
            raise core.MachineryError('%s: read %d distinct behaviours from TLC output, %d states' % (
                cfg, len(set(codes)), res.distinct))
        rep.extra.setdefault('behaviours_emitted', {})[cfg] = len(codes)
        if cfg == reuse_cfg:
            # single-call behaviours of this instance are covered by the other instances
            multi = [(decode_blocks(c), v) for c in codes if '//' in c for v in variants]
            rep.extra['reuse_behaviours'] = len(multi)
            continue
        items = []
        for n, code in enumerate(codes):
            for variant in ((2 * (n % len(SEPS)) + 1,) if variants == 'rot' else variants):
                k = (code, variant)
                if k not in seen:
                    seen.add(k)
                    items.append((decode(code), variant))
        if len(items) + len(batch) <= 40000:
            batch.extend(items)          # judged together with the other small instances (one TLC batch)
            continue
        for a in range(0, len(items), 40000):
            judge_blocks(rep, items[a:a + 40000])
    # the small instances and the two-call behaviours go to TLC as one batch
    gens = [judge_blocks_gen(rep, batch)] if batch else []
    gens += [judge_reuse_gen(rep, multi[a:a + 40000]) for a in range(0, len(multi), 40000)]
    run_together(rep, gens)
    # observed-vs-observed pairs need a reference run that works; when it does not and the blocks above
    # already falsified the property, that result stands (exit 1) and the pairs are skipped
    try:
        cases = pair_cases(rep)
        check_sim_reference()
        items = model_behaviours(rep, results[model_cfg(rep)])
        run_together(rep, [judge_pairs_gen(rep, [c for c in cases if c[0] == 'solve']),
                           judge_pairs_gen(rep, [c for c in cases if c[0] == 'model']),
                           judge_models_gen(rep, items)], tag='c14pair')
        rep.extra['solve_pairs'] = sum(1 for c in cases if c[0] == 'solve')
        rep.extra['model_pairs'] = sum(1 for c in cases if c[0] == 'model')
        rep.extra['model_text_builds'] = len(items)
    except core.MachineryError as e:
        if not rep.violations:
            raise
        rep.extra['pairs_skipped'] = str(e)[:300]
        print('NOTE property=C14 pair comparisons skipped (reference run unusable): %s' % str(e)[:200])


def replay(path):
    with open(path) as f:
        data = json.load(f)
    case = data['case']
    rep = core.Report('C14', 'quick', data.get('seed', 0))
    if 'blocks' in case:
        judge_reuse(rep, [(case['blocks'], case.get('variant', 0))])
        print(json.dumps({'observed_now': execute_reuse(case['blocks'], case.get('variant', 0))}, indent=1)[:3000])
    elif 'model' in case:
        judge_models(rep, [(case['model'], case.get('variant', 0))])
        print(json.dumps({'observed_now': execute_model(case['model'], case.get('variant', 0))[0]}, indent=1)[:3000])
    elif 'pair' in case:
        c = tuple(case['case'])
        judge_pairs(rep, [c])
        ev, info = run_pair(c)
        print(json.dumps({'pair': info, 'observed_now': ev}, indent=1)[:3000])
    else:
        forms, variant = case['behaviour'], case.get('variant', 0)
        judge_blocks(rep, [(forms, variant)])
        print(json.dumps({'text': render_block(forms, variant), 'observed_now': execute(forms, variant)},
                         indent=1)[:3000])
    for v in rep.violations:
        print('VIOLATION property=C14 replay=%s' % path)
        print('  clause=%s signature=%s' % (v.clause, v.signature))
        return 1
    print('replay: property clauses hold on this case now')
    return 0
