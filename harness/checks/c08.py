"""C08 - results do not depend on the order in which sectors are declared.

spec:   ModelBuild.tla - Declare(s) is enabled when the objects s's constructor receives exist, so TLC's
        interleavings are exactly the dependency-respecting declaration orders; invariant
        C08_OrderIndependent compares the final state of every order with the canonical order's.
replay: for a (seeded sample quick / large sample thorough) of the emitted orders the real model is
        built in that order and in the canonical order with identical parameters; both are solved exactly
        (Fractions) and compared: same variable set, identical series for every variable (observed vs observed).
trace:  ModelBuild_Trace judges the Compare event (property clause) and the ledger conformance of the
        permuted build (drift).
thorough tier only: harness/stepscheck.py - the GUI step API as an alternative schedule of the same pipeline
        (spec/Steps.tla, all orders of the per-sector commands), clause C08_StepOrderIndependent.
"""
import json

from harness import core, modelcheck

PROP = 'C08'


def compare_series(b1, b0):
    """-> dict(both_built, decided, same_vars, same_series, detail)"""
    out = {'both_built': False, 'decided': False, 'same_vars': False, 'same_series': False, 'detail': ''}
    if b0.final_text is None or b1.final_text is None or b0.system is None or b1.system is None:
        out['detail'] = 'not both built: %r / %r' % (b1.error, b0.error)
        return out
    out['both_built'] = True
    v1, v0 = b1.system.defined(), b0.system.defined()
    out['same_vars'] = v1 == v0
    if not out['same_vars']:
        out['decided'] = True
        out['detail'] = 'variables only in permuted: %s; only in canonical: %s' % (sorted(v1 - v0)[:5], sorted(v0 - v1)[:5])
        return out
    if b1.exact is None or b0.exact is None:
        out['detail'] = 'exact oracle undecided: %s / %s' % (b1.exact_error, b0.exact_error)
        return out
    out['decided'] = True
    diff = [v for v in sorted(b0.exact.series) if b1.exact.series.get(v) != b0.exact.series[v]]
    out['same_series'] = not diff
    if diff:
        v = diff[0]
        out['detail'] = '%d variables differ, e.g. %s: %s vs %s' % (
            len(diff), v, [str(x) for x in b1.exact.series.get(v, [])][:4], [str(x) for x in b0.exact.series[v]][:4])
    return out


def _job(args):
    bp, decl, seed = args
    from harness import modelkit
    n = len(bp['sectors'])
    canon = list(range(1, n + 1))
    try:
        events, info = modelcheck.observe(bp, decl, seed, with_ic=None)
        b1 = modelkit.execute(modelcheck.program_for(bp, decl, seed), horizon=modelcheck.HORIZON)
        b0 = modelkit.execute(modelcheck.program_for(bp, canon, seed), horizon=modelcheck.HORIZON)
    except core.MachineryError as e:
        return 'MACHINERY: %s' % e, None
    cmp_ = compare_series(b1, b0)
    ev = {'ev': 'Compare', 'kind': 'order', 'clause': 'C08_OrderIndependent', 'name': bp['name'], 'decl': list(decl),
          'required': bool(bp['wellformed']), 'both_built': cmp_['both_built'], 'decided': cmp_['decided'],
          'same_vars': cmp_['same_vars'], 'same_series': cmp_['same_series']}
    info['compare'] = cmp_
    return events + [ev], info


def run(rep):
    import concurrent.futures
    modelcheck.describe(rep, PROP)
    rep.rule += ('; C08: each rebuilt order is compared with the canonical order of the same blueprint (same parameters); '
                 'non-trivial = the order differs from the canonical one')
    cfg = 'MC_ModelBuild_quick.cfg' if rep.tier == 'quick' else 'MC_ModelBuild_thorough.cfg'
    bps, behs = modelcheck.generate(rep, cfg)
    behs = [b for b in behs if bps[b['name']]['wellformed']]
    chosen = modelcheck.sample_behaviours(behs, bps, 80 if rep.tier == 'quick' else 2500, rep.seed)
    chosen = [b for b in chosen if b['decl'] != list(range(1, len(bps[b['name']]['sectors']) + 1))]
    rep.extra['orders_emitted_by_tlc'] = len(behs)
    for b in chosen:
        b['seed'] = modelcheck.case_seed(rep.seed, b['decl'])
    jobs = [(bps[b['name']], b['decl'], b['seed']) for b in chosen]
    with concurrent.futures.ProcessPoolExecutor(max_workers=min(16, len(jobs) or 1)) as ex:
        results = list(ex.map(_job, jobs, chunksize=max(1, len(jobs) // 64)))
    for r in results:
        if isinstance(r[0], str):
            raise core.MachineryError(r[0])
    judge(rep, chosen, results)
    if rep.tier == 'thorough':
        # extension: the GUI step API (_GetSteps / _RunStep) as an alternative schedule of main() - spec/Steps.tla
        from harness import stepscheck
        try:
            stepscheck.run_steps(rep)
        except stepscheck.StepApiMissing as e:
            # the API is experimental: its absence says nothing about C08
            rep.add_drift('drift_step_api_missing', {'kind': 'steps', 'error': str(e)})


def judge(rep, chosen, results):
    traces = []
    for i, (beh, (events, info)) in enumerate(zip(chosen, results)):
        traces.append((i, events))
        rep.add_case({'name': beh['name'], 'decl': beh['decl']}, True)
    verdicts, st, tr = core.validate_traces('MC_ModelBuild_Trace', 'MC_ModelBuild_Trace.cfg', traces,
                                            chunk=max(8, len(traces) // 16 + 1), tag='c08', stack='256m')
    rep.traces += len(traces)
    rep.extra['trace_validation_states'] = st
    for i, (beh, (events, info)) in enumerate(zip(chosen, results)):
        clauses = [c for c in verdicts[i].split(':', 1)[1].split(',') if c]
        case = {'name': beh['name'], 'decl': beh['decl'], 'seed': beh.get('seed', rep.seed)}
        for c in clauses:
            if c.startswith('C08_'):
                rep.violate(c, 'C08_OrderIndependent:%s' % beh['name'], case, detail=info['compare']['detail'])
            elif c.startswith('drift_'):
                rep.add_drift(c, case)


def replay(path):
    with open(path) as f:
        data = json.load(f)
    case = data['case']
    if case.get('kind') == 'steps':
        from harness import stepscheck
        return stepscheck.replay_case(data)
    rep = core.Report(PROP, 'quick', case.get('seed', 0))
    bps, behs = modelcheck.generate(rep, 'MC_ModelBuild_thorough.cfg' if data.get('tier') == 'thorough' else 'MC_ModelBuild_quick.cfg')
    beh = {'name': case['name'], 'decl': case['decl'], 'seed': case.get('seed', 0)}
    res = _job((bps[case['name']], case['decl'], case.get('seed', 0)))
    judge(rep, [beh], [res])
    print(json.dumps({'case': case, 'compare': res[1]['compare']}, default=str))
    if rep.violations:
        print('VIOLATION property=C08 replay=%s' % path)
        return 1
    print('replay: property clause holds on this case now')
    return 0
