"""C12 - equation-building arithmetic preserves value.

spec:   spec/Equation.tla (actions Start, AddTerm, Join; invariants C12_*)
TLC:    exhaustive check of the bounded instance; every maximal behaviour is emitted
replay: each behaviour is executed on the real Equation / create_equation_from_terms; after every
        call the rendered right-hand side is evaluated on the two integer valuations of the spec
trace:  the recorded executions are validated by TLC against Equation_Trace (same operators)
"""
import json

from harness import core

ENVS = [dict(x=6, y=3, a=5, b=2, c=4, w=40), dict(x=-4, y=2, a=-3, b=7, c=-5, w=-20)]


def form_text(f):
    inner = f['s2'] + f['body']
    return f['s1'] + ('(' + inner + ')' if f['br'] else f['body'])


def evaluate(text):
    """-> (ok, [int, int])"""
    vals = []
    try:
        for env in ENVS:
            v = eval(text, {'__builtins__': {}}, dict(env))
            if isinstance(v, bool) or not isinstance(v, (int, float)):
                return False, [0, 0]
            # the spec's Den(.) is twice the value (every value of the alphabet is a multiple of 1/2)
            if float(2 * v) != int(2 * v):
                return False, [0, 0]
            vals.append(int(2 * v))
    except Exception:
        return False, [0, 0]
    return True, vals


def observe(eq):
    try:
        text = eq.RHS()
        text2 = eq.GetRightHandSide()
        s = str(eq)
    except Exception as e:
        return {'ok': False, 'text': 'EXC ' + type(e).__name__, 'vals': [0, 0]}
    ok, vals = evaluate(text)
    # str(Equation) must carry the same right-hand side
    if ok:
        rhs_in_str = s.split('=', 1)[1].split('#')[0].strip() if '=' in s else ''
        ok2, vals2 = evaluate(rhs_in_str)
        if not ok2 or vals2 != vals or text2 != text:
            ok = False
    return {'ok': ok, 'text': text, 'vals': vals}


def execute(beh):
    """Run one behaviour on the real code; returns the list of trace events."""
    from sfc_models.equation import Equation, Term
    from sfc_models.utils import create_equation_from_terms
    events = []
    if beh['mode'] == 'join':
        arg = list(beh['join'])
        before = list(arg)
        ev = {'ev': 'Join', 'list': before}
        try:
            out = create_equation_from_terms(arg)
            if len(before) == 0:
                ok, vals = (out == ''), [0, 0]
            else:
                ok, vals = evaluate(out)
            ev.update(ok=ok, vals=vals, text=out, after=list(arg))
        except Exception as e:
            ev.update(ok=False, vals=[0, 0], text='EXC ' + type(e).__name__, after=list(arg))
        events.append(ev)
        return events
    st = beh['start']
    ev = {'ev': 'Start', 'kind': st['kind'], 'lead': st['lead']}
    eq = None
    try:
        if st['kind'] == 'none':
            eq = Equation('lhs', 'desc', rhs=())
        elif st['kind'] == 'parsed':
            eq = Equation('lhs', 'desc', rhs=st['lead'])
        elif st['kind'] == 'assign':
            # the one-string form (also reached through Sector.AddVariableFromEquation): 'lhs = rhs # description'
            eq = Equation('lhs = ' + st['lead'] + ' # note: a=1 # and more')
        else:
            eq = Equation('lhs', 'desc', [Term(st['lead'], is_blob=True)])
        ev.update(observe(eq))
    except Exception as e:
        ev.update(ok=False, text='EXC ' + type(e).__name__, vals=[0, 0])
    events.append(ev)
    for f in beh['added']:
        ev = {'ev': 'AddTerm', 'form': f}
        try:
            eq.AddTerm(form_text(f))
            ev.update(observe(eq))
        except Exception as e:
            ev.update(ok=False, text='EXC ' + type(e).__name__, vals=[0, 0])
        events.append(ev)
    return events


def execute_objs(beh):
    """Two equations and a pool of Term objects: 'new' creates a Term object and adds that object, 're' adds an
    already existing object again (to the same or to the other equation), 'str' adds the text."""
    from sfc_models.equation import Equation, Term
    eqs = {1: Equation('lhs1', 'd', rhs=()), 2: Equation('lhs2', 'd', rhs=())}
    pool = []
    events = []
    for op in beh['ops']:
        ev = {'ev': 'ObjOp', 'op': op}
        try:
            if op['kind'] == 'str':
                eqs[op['eq']].AddTerm(form_text(op['form']))
            elif op['kind'] == 'new':
                t = Term(form_text(op['form']))
                if op['form'].get('w2', 2) != 2:
                    # the caller gives the Term object a weight (Term.Constant is the public coefficient)
                    t.Constant = t.Constant * op['form']['w2'] / 2
                pool.append(t)
                eqs[op['eq']].AddTerm(t)
            else:
                eqs[op['eq']].AddTerm(pool[op['idx'] - 1])
            o1, o2 = observe(eqs[1]), observe(eqs[2])
            ev.update(ok=bool(o1['ok'] and o2['ok']), vals1=o1['vals'], vals2=o2['vals'], text1=o1['text'], text2=o2['text'])
        except Exception as e:
            ev.update(ok=False, vals1=[0, 0], vals2=[0, 0], text1='EXC ' + type(e).__name__, text2='')
        events.append(ev)
    return events


def judge_objs(rep, behs):
    traces = []
    for i, b in enumerate(behs):
        traces.append((i, execute_objs(b)))
        rep.add_case({'behaviour': b, 'observed': traces[-1][1]} if i < 2 else b, True)
    verdicts, st, tr = core.validate_traces('MC_EquationObj_Trace', 'MC_EquationObj_Trace.cfg', traces, tag='c12o')
    rep.traces += len(traces)
    rep.extra['trace_validation_states'] = rep.extra.get('trace_validation_states', 0) + st
    for i, b in enumerate(behs):
        v = verdicts[i]
        if v == 'ok:':
            continue
        kind, clause = v.split(':', 1)
        if kind == 'property':
            kinds = [op['kind'] for op in b['ops']]
            sig = 'term-object-reused' if 're' in kinds else ('term-object-added' if 'new' in kinds else 'strings-two-equations')
            rep.violate(clause, sig, {'behaviour': b, 'observed': traces[i][1], 'objects': True},
                        detail='observed %s' % json.dumps(traces[i][1])[:300])
        else:
            rep.add_drift(clause, {'behaviour': b})


def signature(clause, beh):
    if beh['mode'] == 'join':
        l = beh['join']
        if clause == 'C12_JoinLeavesArgument':
            return 'join-mutates-argument'
        if l and '+' in l[0].strip()[1:]:
            return 'join-strips-interior-plus-of-first-element'
        return 'join:' + json.dumps(l)
    st = beh['start']
    bodies = [f['body'] for f in beh['added']]
    if st['kind'] != 'none' and st['lead'] in bodies:
        return 'addterm-after-lead-spelled-like-term:' + st['kind']
    return 'history:' + st['kind'] + ':' + st['lead'] + ':' + ','.join(form_text(f) for f in beh['added'])


def nontrivial(beh):
    if beh['mode'] == 'join':
        return len(beh['join']) >= 2
    return len(beh['added']) >= 1


def judge(rep, behs):
    traces = []
    for i, b in enumerate(behs):
        traces.append((i, execute(b)))
        rep.add_case({'behaviour': b, 'observed': traces[-1][1]} if i < 3 else b, nontrivial(b))
    verdicts, st, tr = core.validate_traces('MC_Equation_Trace', 'MC_Equation_Trace.cfg', traces, tag='c12')
    rep.traces += len(traces)
    rep.extra['trace_validation_states'] = rep.extra.get('trace_validation_states', 0) + st
    for i, b in enumerate(behs):
        v = verdicts[i]
        if v == 'ok:':
            continue
        kind, clause = v.split(':', 1)
        if kind == 'property':
            rep.violate(clause, signature(clause, b), {'behaviour': b, 'observed': traces[i][1]},
                        detail='observed %s' % json.dumps(traces[i][1])[:300])
        else:
            rep.add_drift(clause, {'behaviour': b, 'observed': traces[i][1]})


def run(rep):
    cfgs = ['MC_Equation_quick.cfg', 'MC_Equation_quick2.cfg'] if rep.tier == 'quick' else \
        ['MC_Equation_quick.cfg', 'MC_Equation_quick2.cfg', 'MC_Equation_thorough.cfg', 'MC_Equation_thorough2.cfg']
    rep.rule = ('behaviours = all maximal histories of the bounded Equation instance emitted by TLC '
                '(Start kind x lead, then <= MaxTerms AddTerm forms; or one Join of a list <= MaxJoin); '
                'distinct = distinct behaviour JSON; non-trivial = at least one AddTerm / a list of >= 2 elements')
    rep.exhaustive = True
    rep.assumptions = ['values are compared on two fixed integer valuations (every value a multiple of 1/2 in both; the spec carries twice the value)',
                      'TLC 1.8 / tla2tools; Python eval of the rendered right-hand side']
    seen = set()
    for cfg in cfgs:
        res = core.tlc('MC_Equation', cfg, workers=1, tag='c12')
        if res.violated:
            raise core.MachineryError('spec invariant %s violated in %s' % (res.violated, cfg))
        rep.add_tlc(res, 'exhaustive ' + cfg)
        behs = []
        for b in core.json_of_printed(res, 'BEH'):
            k = core.canonical(b)
            if k not in seen:
                seen.add(k)
                behs.append(b)
        if not behs:
            raise core.MachineryError('TLC emitted no behaviours for ' + cfg)
        judge(rep, behs)
    # Term objects (identity): two equations sharing caller-created Term objects
    ocfg = 'MC_EquationObj_quick.cfg' if rep.tier == 'quick' else 'MC_EquationObj_thorough.cfg'
    res = core.tlc('MC_EquationObj', ocfg, workers=1 if rep.tier == 'quick' else 4, tag='c12o')
    if res.violated:
        raise core.MachineryError('spec invariant %s violated in %s' % (res.violated, ocfg))
    rep.add_tlc(res, 'exhaustive ' + ocfg)
    obehs = core.json_of_printed(res, 'BEH')
    if not obehs:
        raise core.MachineryError('TLC emitted no behaviours for ' + ocfg)
    judge_objs(rep, obehs)


def replay(path):
    with open(path) as f:
        data = json.load(f)
    beh = data['case']['behaviour']
    rep = core.Report('C12', 'quick', 0)
    if data['case'].get('objects'):
        judge_objs(rep, [beh])
        print(json.dumps({'behaviour': beh, 'observed_now': execute_objs(beh)}, indent=1))
    else:
        judge(rep, [beh])
        print(json.dumps({'behaviour': beh, 'observed_now': execute(beh)}, indent=1))
    for v in rep.violations:
        print('VIOLATION property=C12 replay=%s' % path)
        print('  clause=%s signature=%s' % (v.clause, v.signature))
        return 1
    print('replay: property clause holds on this case now')
    return 0
