"""C16 - reading results never changes them.

spec:   spec/Results.tla (actions Get, MutateHeld, SetSuppress, SetCutoff, RenderTable, BaseCsv, Extend;
        action property C16_ReadsArePure, invariants C16_GetValue, C16_Repeatable)
TLC:    exhaustive check of the bounded instance; every maximal call history is emitted
replay: each history is executed on
          * a real Model whose EquationSolver.TimeSeries (a TimeSeriesHolder) holds the known series
            of the unit tests  ('t': [0, 1, 2], 'x': [4, 5, 6])                       - world "known"
          * thorough tier: a really solved model (gl_book.chapter3.SIM, MaxTime 8, main()) using its
            own series 't' and 'HH__F'; the stored lists are restored between histories - world "solved"
          * RAGGED stores (series of unequal length; instance MC_Results_ragged*: 't' has 5 points, 'x' 3,
            Extend = TimeSeriesHolder.AppendValue on one series): on the known-series Model in both tiers
            and, thorough tier, on a Model whose run was really interrupted (S__X = 1/(S__G - 3) fails at
            step 3: the exogenous S__G and k keep MaxTime+1 = 5 points, S__X and t stop at 3) - world
            "interrupted"; all four stored series are tracked.  The rendering that Model.main() itself
            performs in its `finally` is observed through a harness-side wrapper around the bound method
            (snapshot before / after) and judged as one more trace (behaviour "main-finally")
          * SERIES GROUPS and FAILING retrievals (instances MC_Results_miss*): Get carries the group
            ('main' EquationSolver.TimeSeries, 'step' .TimeSeriesStepTrace, 'initial'
            .TimeSeriesInitialSteadyState - GetTimeSeries(group_of_series=...)) and may ask for a name the
            group does not hold ('q' = a typo, stored nowhere; 't' / 'x' asked of the step / initial group),
            with and without cutoff and time-zero suppression, followed by further reads and renderings
            (RenderTable also of the step group).  The step / initial holders are empty (known world,
            interrupted world), hold one series (MC_StepStore) or hold the real sweep trace of the solved
            SIM model (TraceStep = 2, thorough tier).  All three holders are snapshotted.
          * BOUNDARY of the time-zero suppression (instances MC_Results_edge*): stored series of 3, 2 and 1
            points (step group after one traced sweep), cutoff 0 given as argument and as
            Model.TimeSeriesCutoff, suppression on: the truncated result has exactly one point, the k=0 point,
            and the retrieval must return [].  Thorough tier also on a solver that has only been initialised
            (ParseString; SetInitialConditions: every endogenous series has exactly its k=0 point, the
            exogenous one MaxTime+1) - world "initialised".  The evidence counts these retrievals
            (suppressed_one_point_gets); none executed = machinery failure.
          * Model.MaxTime as state (instances MC_Results_horizon*): SetMaxTime assigns Model.MaxTime between
            calls (1, 0, back to 100); the step group holds 5 points, the initial group 4, the main group 3;
            cutoff 3 (argument or TimeSeriesCutoff) is larger than MaxTime.  The length of a stored series has
            nothing to do with Model.MaxTime (step group: one point per sweep), so no retrieval may depend on
            it.  Thorough tier also on the solved SIM model (MaxTime 8) whose step group really holds 160
            sweeps of HH__F (tracked for these histories only).
          * the ORDERED NAME LIST and edits that keep the number of series (instances MC_Results_names*):
            GetNames = <holder>.GetSeriesList() hands the caller a list, MutateHeld may reverse it in place /
            append to it / pop from it (as it may the lists of values), Replace = holder[new] = holder.pop(old)
            swaps one stored series for another.  Every RenderTable is accompanied by a reference rendering:
            the driver builds a NEW TimeSeriesHolder holding copies of the series stored just before the call
            and renders that (same code, same stored series, no call history); fresh_same says whether the two
            texts are equal.  "The same stored series always give the same text" -> C16_Repeatable requires it.
          * renderings with DIFFERENT formats (instances MC_Results_formats*): '%.5g' and '%.2f', of the main
            holder and of a second holder (step group) that shares the series name x.  The reference rendering
            of every RenderTable is made by the PRISTINE process: forked from the driver before anything of
            sfc_models was executed, it forks once more for every request, so the reference - a new holder with
            copies of the stored series, rendered with the format of the call - comes from a state that no
            rendering anywhere else can have touched (class attributes, default arguments, module globals).
            References are cached by (class, stored series, format): that they are a function of exactly that
            is the point.  A violation found in the shared driver process is executed again alone in a fork
            of the pristine process; a history that reproduces there is the one reported.
          * CUTOFFS x the NON-MAIN GROUPS with their own k axis (instances MC_Results_kaxis*): every group holds
            a series k next to x - main k = 0,1,2; step k = 2,2,2 (the traced step's constant column);
            initial k = -2,-1,0 (the steady-state run counts up to 0) - and Get asks for step:x, initial:x,
            main:x with cutoffs none / 0 / 1, argument and model default, with and without suppression.  A
            cutoff counts stored points, whatever the k column of the holder says.  The evidence counts the
            retrievals with a cutoff from a non-main group whose k does not start at 0 (cutoff_gets_off_axis).
            Thorough tier: the same histories also on the solved SIM model, whose real step group has k = 2.
          * names that differ only in LETTER CASE and the way the store was filled (instances MC_Results_case*):
            the main group holds x and X; Reinsert = holder[name] = holder.pop(name) takes a series out and puts
            it back unchanged between renderings.  The stored results are a mapping name -> series; the order
            in which it was filled is not part of them, so the reference holder is filled in sorted name order
            whatever the real holder's history, and the real text must equal the reference text.
          * a small BaseSolver subclass (the object of test_base_solver.py) for BaseCsv
        after every call a deep snapshot of the three holders, of BaseSolver.VariableList and of
        the BaseSolver's series attributes is taken and compared with the previous one; lists returned
        by GetTimeSeries are kept and mutated (append 99 / pop) when the history says MutateHeld
trace:  the recorded executions are validated by TLC against Results_Trace (same operators)

Property clauses (observed vs observed, see Results_Trace.tla):
  C16_ReadsArePure  a Get / MutateHeld / RenderTable / BaseCsv leaves every snapshot as it was
  C16_GetValue      the list returned = first cutoff+1 points of the series as stored just before the
                    call (all without a cutoff), without the first point under suppression
  C16_Repeatable    same stored series (whole-store digest) and same arguments => same list / same text;
                    a retrieval that fails, fails the same way (same exception type) each time
A retrieval of a name that is not stored is a read: C16_ReadsArePure and C16_Repeatable apply to it.  That it
raises KeyError is what the spec action predicts but not a sentence of C16 -> conformance (drift
get_missing_keyerror); C16_GetValue speaks only about names that are stored.
Reading choices (the weaker one each time): "same stored series" is judged on the whole store, not per
series; the text of a rendering is only compared with earlier texts of the same call, never with a
predicted spelling (cells / header against the spec are conformance clauses -> drift); the column order
is C19's subject.  BaseSolver.VariableList counts as part of the stored results of a BaseSolver (it
names the attributes that are its series), as DESIGN.md section 6 C16 fixes.

Values are shipped to TLC as small ints: the known series are small ints already; the floats of the
solved model are coded 100 + rank among the distinct values of the tracked series (injective), the
driver's own values are the ints 99 (sentinel appended to returned lists) and 7 (Extend), anything else is -99
(UNKNOWN); the known series may hold small negative ints (the k axis of the initial group starts below 0).
"""
import concurrent.futures
import importlib
import json
import os
import pickle
import random
import struct
import sys

from harness import core

SENTINEL = 99
EXTVAL = 7                                                            # = ExtVal in Results.tla
NOCUT = -1
UNKNOWN = -99                                                         # code of a value that is none of the above
GROUPS = ('main', 'step', 'initial')
ASK_NAMES = ('t', 'x', 'q', 'a', 'X')                                         # names the instances' Asks use
KNOWN = {'main': {'t': [0, 1, 2], 'x': [4, 5, 6]}, 'step': {}, 'initial': {}}      # = MC_InitStore
BASE = {'x': [1., 1., 1.], 'y': [2., 2., 2.], 't': [0., 1., 2.]}      # = MC_BaseStore
SOLVED_NAMES = {'t': 't', 'x': 'HH__F'}                               # behaviour name -> series of SIM
SOLVED_ABSENT = {'q': 'HH_x'}                                         # a name no group of the solved model holds
SOLVED_MAXTIME = 8
SOLVED_STEP_NAMES = {'x': 'HH__F'}                                     # tracked only when a history asks for step:x
SOLVED_TRACESTEP = 2                                                  # fills the 'step' group with the sweeps of k=2
# interrupted run: behaviour name -> stored series; every stored series is tracked
INTERRUPTED_NAMES = {'t': 'S__G', 'x': 'S__X', 'k': 'k', 'tt': 't'}
INTERRUPTED_ABSENT = {'q': 'S_G'}
INTERRUPTED_G = [1., 2., 4., 3., 5.]                                  # S__X = 1/(S__G - 3) fails at step 3
MAIN_FINALLY = 'main-finally'
# solver after SetInitialConditions only: x, LAG_x, t have one point, the exogenous g and k have five
INITIALISED_EQ = """
 x = 0.5*LAG_x + g
 LAG_x = x(k-1)
 x(0) = 2.
 exogenous
 g = [1., 2., 3., 4., 5.]
 MaxTime = 4
"""
INITIALISED_NAMES = {'t': 'g', 'x': 'x', 'lag': 'LAG_x', 'k': 'k', 'tt': 't'}
INITIALISED_ABSENT = {'q': 'x_'}


# --------------------------------------------------------------------------------------
# worlds: the real objects a history is executed on
# --------------------------------------------------------------------------------------

class World(object):
    """A real Model with stored series, restorable to its pristine stored results."""

    def __init__(self, kind):
        from sfc_models.models import Model
        from sfc_models.utils import TimeSeriesHolder
        self.kind = kind
        self.pristine = None
        self.main_render = None
        self.absent = {}
        if kind == 'known':
            self.model = Model()
            for g, h in self.holders().items():
                if not isinstance(h, TimeSeriesHolder):
                    raise core.MachineryError('group %s is not a TimeSeriesHolder' % g)
                for k, v in KNOWN[g].items():
                    h[k] = list(v)
            self.names = {g: {k: k for k in KNOWN[g]} for g in GROUPS}
            self.table = None
        elif kind == 'solved':
            from sfc_models.gl_book.chapter3 import SIM
            self.model = SIM('C').build_model()
            self.model.MaxTime = SOLVED_MAXTIME
            self.model.EquationSolver.TraceStep = SOLVED_TRACESTEP
            self.model.main()
            self.names = {'main': dict(SOLVED_NAMES), 'step': {}, 'initial': {}}
            self.absent = dict(SOLVED_ABSENT)
            ts = self.model.EquationSolver.TimeSeries
            vals = set()
            for real in self.names['main'].values():
                if real not in ts or len(ts[real]) != SOLVED_MAXTIME + 1:
                    raise core.MachineryError('solved model has no usable series %r' % real)
                vals.update(ts[real])
            step = self.holders()['step']
            if not step:
                raise core.MachineryError('TraceStep left the step group of the solved model empty')
            for real in SOLVED_STEP_NAMES.values():
                if real not in step or len(step[real]) <= SOLVED_MAXTIME + 1:
                    raise core.MachineryError('step group of the solved model is not longer than MaxTime+1')
                vals.update(step[real])
            self.table = {v: 100 + i for i, v in enumerate(sorted(vals))}
        elif kind == 'interrupted':
            self._build_interrupted()
        elif kind == 'initialised':
            from sfc_models.equation_solver import EquationSolver
            es = EquationSolver()
            es.RunEquationReduction = False
            es.ParseString(INITIALISED_EQ)
            es.ExtractVariableList()
            es.SetInitialConditions()
            self.model = Model()
            self.model.EquationSolver = es
            self.names = {'main': dict(INITIALISED_NAMES), 'step': {}, 'initial': {}}
            self.absent = dict(INITIALISED_ABSENT)
            lens = {n: len(v) for n, v in es.TimeSeries.items()}
            if set(lens) != set(INITIALISED_NAMES.values()) or lens['x'] != 1 or lens['g'] != 5:
                raise core.MachineryError('initialised solver has an unexpected store shape %r' % (lens,))
            vals = set()
            for v in es.TimeSeries.values():
                vals.update(v)
            self.table = {v: 100 + i for i, v in enumerate(sorted(vals))}
        else:
            raise core.MachineryError('unknown world ' + repr(kind))
        if self.pristine is None:
            self.pristine = self.deep()
        if not self.pristine['main']:
            raise core.MachineryError('world %s has no stored series' % kind)
        for real in self.absent.values():
            if any(real in h for h in self.pristine.values()):
                raise core.MachineryError('the supposedly absent name %r is stored' % real)
        self.base_keys = {g: set(self.pristine[g]) for g in GROUPS}
        self.maxtime0 = self.model.MaxTime
        if not isinstance(self.maxtime0, int) or isinstance(self.maxtime0, bool):
            raise core.MachineryError('Model.MaxTime is not an int: %r' % (self.maxtime0,))

    def _build_interrupted(self):
        """A Model whose run really stops at step 3.  Model.main() renders the (ragged) store in its
        `finally`; that call is observed by wrapping the bound method on this one solver object."""
        from sfc_models.models import Model, Country
        from sfc_models.sector import Sector
        mod = Model()
        ca = Country(mod, 'CA', 'Canada')
        sec = Sector(ca, 'S', 'Sector', has_F=False)
        sec.AddVariable('G', 'exogenous driver', '0.')
        sec.AddVariable('X', 'undefined when G reaches 3', '1./(G - 3.)')
        mod.AddExogenous('S', 'G', repr(INTERRUPTED_G))
        mod.EquationSolver.MaxTime = len(INTERRUPTED_G) - 1
        mod.EquationSolver.MaxIterations = 20
        es = mod.EquationSolver
        orig = es.GenerateCSVtext
        seen = []

        def wrapped(*a, **k):
            before = {n: list(v) for n, v in es.TimeSeries.items()}
            text = orig(*a, **k)
            seen.append((before, {n: list(v) for n, v in es.TimeSeries.items()}, text,
                         a[0] if a else k.get('format_str', '%.5g')))
            return text

        es.GenerateCSVtext = wrapped
        failed = False
        try:
            mod.main()
        except Exception:
            failed = True
        finally:
            del es.GenerateCSVtext
        self.model = mod
        self.names = {'main': dict(INTERRUPTED_NAMES), 'step': {}, 'initial': {}}
        self.absent = dict(INTERRUPTED_ABSENT)
        if not failed:
            raise core.MachineryError('the interrupted-run model solved without an error')
        self.pristine = self.deep()
        if seen:
            other = {g: self.pristine[g] for g in GROUPS if g != 'main'}
            self.main_render = (dict(other, main=seen[0][0]), dict(other, main=seen[0][1]), seen[0][2], seen[0][3])
            self.pristine['main'] = {n: list(v) for n, v in seen[0][0].items()}
        lens = {n: len(v) for n, v in self.pristine['main'].items()}
        if set(self.names['main'].values()) != set(lens) or len(set(lens.values())) < 2 or \
                lens.get('S__G') != len(INTERRUPTED_G):
            raise core.MachineryError('interrupted run left an unexpected store shape %r' % (lens,))
        vals = set()
        for v in self.pristine['main'].values():
            vals.update(v)
        self.table = {v: 100 + i for i, v in enumerate(sorted(vals))}

    def holders(self):
        es = self.model.EquationSolver
        return {'main': es.TimeSeries, 'step': es.TimeSeriesStepTrace, 'initial': es.TimeSeriesInitialSteadyState}

    def holder(self):
        return self.model.EquationSolver.TimeSeries

    def deep(self):
        return {g: {k: list(v) for k, v in h.items()} for g, h in self.holders().items()}

    def restore(self, store=None, track_step=False):
        """Back to the pristine stored results (all three groups); the known world takes the store of
        the behaviour."""
        src = self.pristine
        if store and self.kind == 'known':
            src = {g: dict(store.get(g) or {}) for g in GROUPS}
            self.names = {g: {k: k for k in src[g]} for g in GROUPS}
        # every history starts on NEW holder objects of the same class holding copies of the pristine series,
        # so that nothing a previous history left inside a holder (beyond its dict content) can leak into
        # this one and every recorded history reproduces on its own
        es = self.model.EquationSolver
        attr = {'main': 'TimeSeries', 'step': 'TimeSeriesStepTrace', 'initial': 'TimeSeriesInitialSteadyState'}
        for g, h in self.holders().items():
            new = type(h)(getattr(h, 'TimeSeriesName', 'k'))
            for k, v in src[g].items():
                new[k] = list(v)
            setattr(es, attr[g], new)
        self.base_keys = {g: set(src[g]) for g in GROUPS}
        if self.kind == 'solved':       # the long step series is shipped only to histories that ask for it
            self.names['step'] = dict(SOLVED_STEP_NAMES) if track_step else {}
        self.model.MaxTime = self.maxtime0
        self.model.TimeSeriesCutoff = None
        self.model.TimeSeriesSupressTimeZero = False

    def real(self, grp, bname):
        """stored name a behaviour name stands for in a group"""
        if bname in self.names[grp]:
            return self.names[grp][bname]
        if bname in self.absent:
            return self.absent[bname]
        return self.names['main'].get(bname, bname)

    def code(self, v):
        if type(v) is int and v in (SENTINEL, EXTVAL):
            return v
        if isinstance(v, bool) or not isinstance(v, (int, float)):
            return UNKNOWN
        if self.table is not None:
            return self.table.get(v, UNKNOWN)
        if v == int(v) and -50 <= v < SENTINEL:
            return int(v)
        return UNKNOWN

    def bname(self, grp, real):
        """behaviour name under which a stored series is shipped to TLC: a tracked series under its own
        name; a series that was not stored when the history began under the name a Get may have asked for
        it (else '+name'); any other series is not shipped (None)"""
        for b, r in self.names[grp].items():
            if r == real:
                return b
        if real in self.base_keys[grp]:
            return None
        for b in sorted(set(ASK_NAMES) | set(self.absent) | set(self.names['main'])):
            if b not in self.names[grp] and self.real(grp, b) == real:
                return b
        return '+' + str(real)

    def project(self, deep):
        """group -> the shipped series (see bname), values coded"""
        out = {}
        for g in GROUPS:
            d = {}
            for real, vals in deep[g].items():
                b = self.bname(g, real)
                if b is not None:
                    d[b] = [self.code(v) for v in vals]
            out[g] = d
        return out


_WORLDS = {}


def world(kind):
    pristine()      # must exist before the first object of the package is built
    if kind not in _WORLDS:
        _WORLDS[kind] = World(kind)
    return _WORLDS[kind]


def make_base(varlist):
    from sfc_models.base_solver import BaseSolver

    class SmallSolver(BaseSolver):
        def __init__(self, variable_list):
            BaseSolver.__init__(self, variable_list)
            for k, v in BASE.items():
                setattr(self, k, list(v))

    return SmallSolver(list(varlist))


def base_cell(cell):
    try:
        f = float(cell)
    except ValueError:
        return UNKNOWN
    return int(f) if f == int(f) and 0 <= f < SENTINEL else UNKNOWN


# --------------------------------------------------------------------------------------
# replay
# --------------------------------------------------------------------------------------

# --------------------------------------------------------------------------------------
# the pristine process: where reference renderings (and confirmations of witnesses) are made
# --------------------------------------------------------------------------------------

def _send(fd, obj):
    data = pickle.dumps(obj, protocol=pickle.HIGHEST_PROTOCOL)
    data = struct.pack('>Q', len(data)) + data
    while data:
        n = os.write(fd, data)
        data = data[n:]


def _recv(fd):
    def read(n):
        buf = b''
        while len(buf) < n:
            chunk = os.read(fd, n - len(buf))
            if not chunk:
                raise EOFError()
            buf += chunk
        return buf
    return pickle.loads(read(struct.unpack('>Q', read(8))[0]))


def _serve(req):
    if req[0] == 'ref':
        _, module, clsname, tsname, before, fmt = req
        try:
            cls = getattr(importlib.import_module(module), clsname)
            fresh = cls(tsname)
            for k in sorted(before):        # a fixed filling order: the reference depends on the content only
                fresh[k] = list(before[k])
            text = fresh.GenerateCSVtext(fmt)
            return (True, text) if isinstance(text, str) else (False, '')
        except Exception:
            return False, ''
    if req[0] == 'exec':
        global PRISTINE
        PRISTINE = None             # this process has executed nothing yet: it gets a pristine process of its own
        _WORLDS.clear()
        try:
            return execute(req[1], req[2])
        finally:
            if PRISTINE is not None:
                PRISTINE.close()
    raise ValueError('unknown request')


class Pristine(object):
    """A process forked off before anything in sfc_models was executed (the package is imported, no object was
    built, nothing was rendered).  Every request is served by a fork of that process which exits afterwards, so
    each answer comes from a state that no call made anywhere else - in the driver, or for an earlier request -
    can have touched."""

    def __init__(self):
        if _WORLDS:
            raise core.MachineryError('the pristine process must be started before any world is built')
        req_r, req_w = os.pipe()
        ans_r, ans_w = os.pipe()
        sys.stdout.flush()
        sys.stderr.flush()
        pid = os.fork()
        if pid == 0:
            try:
                os.close(req_w)
                os.close(ans_r)
                while True:
                    try:
                        req = _recv(req_r)
                    except EOFError:
                        break
                    if req is None:
                        break
                    r, w = os.pipe()
                    kid = os.fork()
                    if kid == 0:
                        try:
                            os.close(r)
                            try:
                                out = ('ok', _serve(req))
                            except BaseException as e:      # reported to the driver as a machinery failure
                                out = ('error', '%s: %s' % (type(e).__name__, e))
                            _send(w, out)
                        finally:
                            os._exit(0)
                    os.close(w)
                    try:
                        out = _recv(r)
                    except Exception as e:
                        out = ('error', 'no answer from the serving process: %r' % (e,))
                    os.close(r)
                    os.waitpid(kid, 0)
                    _send(ans_w, out)
            finally:
                os._exit(0)
        os.close(req_r)
        os.close(ans_w)
        self.pid, self.req_w, self.ans_r = pid, req_w, ans_r
        self.cache = {}
        self.asked = 0

    def ask(self, req):
        try:
            _send(self.req_w, req)
            status, out = _recv(self.ans_r)
        except Exception as e:
            raise core.MachineryError('pristine process failed: %r' % (e,))
        if status != 'ok':
            raise core.MachineryError('pristine process: ' + str(out))
        self.asked += 1
        return out

    def close(self):
        try:
            _send(self.req_w, None)
            os.close(self.req_w)
            os.close(self.ans_r)
            os.waitpid(self.pid, 0)
        except Exception:
            pass


PRISTINE = None


def pristine():
    global PRISTINE
    if PRISTINE is None:
        PRISTINE = Pristine()
    return PRISTINE


def fresh_text(holder, before, fmt):
    """Reference rendering: a NEW holder of the same class holding copies of the series in `before`, rendered
    with the same format by a process that has not rendered (or done) anything else.  It is a function of
    (class, stored series, format) by construction, hence cached."""
    p = pristine()
    cls = type(holder)
    key = (cls.__module__, cls.__name__, str(getattr(holder, 'TimeSeriesName', 'k')), core.digest(before), fmt)
    if key not in p.cache:
        p.cache[key] = tuple(p.ask(('ref', key[0], key[1], key[2], before, fmt)))
    return p.cache[key]


def bnames(w, grp, reals):
    """stored names -> the behaviour names that stand for them (series that are not shipped are left out)"""
    out = [w.bname(grp, r) for r in reals]
    return [b for b in out if b is not None]


def render_event(w, grp, fmt, before, text):
    """Projection of one rendered table of a group: per tracked series the cells, coded by the stored
    value they spell (UNKNOWN = the cell is not `fmt % stored value`).  before = that group's snapshot."""
    lines = text.split('\n')
    hdr = lines[0].split('\t') if text != '' else []
    rows = [ln.split('\t') for ln in lines[1:] if ln != '']
    cols = {}
    for real in before:
        b = w.bname(grp, real)
        if b is None:                   # not shipped to TLC
            continue
        if real not in hdr:             # a stored series without a column: one cell that matches nothing
            cols[b] = [UNKNOWN]
            continue
        j = hdr.index(real)
        col = []
        for i, r in enumerate(rows):
            stored = before[real]
            same = i < len(stored) and j < len(r) and (fmt % (stored[i],)) == r[j]
            col.append(w.code(stored[i]) if same else UNKNOWN)
        cols[b] = col
    return {'ok': True, 'hdr': hdr, 'cols': cols, 'ncols': len(hdr), 'tdig': core.digest(text), 'exc': ''}


def main_finally_events(w, base_varlist):
    """The rendering Model.main() performed in its `finally` on the interrupted run, as a trace."""
    if w.main_render is None:
        raise core.MachineryError('Model.main() of the interrupted run did not render')
    before, after, text, fmt = w.main_render
    vl = [str(x) for x in base_varlist]
    bdig = core.digest({k: list(v) for k, v in BASE.items()})
    common = {'vl': vl, 'bdig': bdig, 'vl_same': True, 'base_same': True}
    w.base_keys = {g: set(before[g]) for g in GROUPS}
    ev0 = dict({'ev': 'Init', 'world': w.kind, 'maxtime': w.maxtime0, 'snap': w.project(before), 'dig': core.digest(before),
                'store_same': False}, **common)
    ev1 = {'ev': 'RenderTable', 'grp': 'main', 'fmt': fmt, 'same_first': True}
    fok, ftext = fresh_text(w.holder(), before['main'], fmt)
    ev1.update(fresh_ok=fok, fresh_same=bool(fok and ftext == text))
    ev1.update(render_event(w, 'main', fmt, before['main'], text))
    ev1.update(dict({'snap': w.project(after), 'dig': core.digest(after), 'store_same': before == after},
                    **common))
    return [ev0, ev1]


def normalise(beh):
    """Behaviours recorded before Get / RenderTable carried a group: main group, flat store."""
    if all('grp' in c for c in beh['calls']) and ('store' not in beh or 'main' in beh['store']):
        return beh
    out = dict(beh)
    out['calls'] = [dict(c, grp=c.get('grp', 'main' if c['ev'] in ('Get', 'RenderTable', 'Extend') else ''))
                    for c in beh['calls']]
    if 'store' in beh and 'main' not in beh['store']:
        out['store'] = {'main': beh['store'], 'step': {}, 'initial': {}}
    return out


def execute(beh, kind='known'):
    """Run one call history on the real objects; returns the list of trace events."""
    w = world(kind)
    beh = normalise(beh)
    if beh.get('special') == MAIN_FINALLY:
        return main_finally_events(w, beh['varlist'])
    w.restore(beh.get('store'), track_step=any(c['ev'] == 'Get' and c['grp'] == 'step' and
                                               c['name'] in SOLVED_STEP_NAMES for c in beh['calls']))
    m = w.model
    base = make_base(beh['varlist'])
    held = []
    held_kind = []
    first_text = {}
    state = {'gdig': {}}

    def observe():
        deep = w.deep()
        vl = [str(x) for x in base.VariableList]
        battr = {k: list(getattr(base, k, [])) for k in BASE}
        prev = state.get('deep')
        for g in GROUPS:        # a group's digest is recomputed only when that group differs from before
            if prev is None or deep[g] != prev[g] or g not in state['gdig']:
                state['gdig'][g] = core.digest(deep[g])
        o = {'snap': w.project(deep), 'dig': '/'.join(state['gdig'][g] for g in GROUPS), 'vl': vl,
             'bdig': core.digest(battr),
             'store_same': deep == prev, 'vl_same': vl == state.get('vl'),
             'base_same': battr == state.get('battr')}
        state.update(deep=deep, vl=vl, battr=battr, snap=o['snap'])
        return o

    ev = {'ev': 'Init', 'world': kind, 'maxtime': m.MaxTime}
    ev.update(observe())
    events = [ev]
    for call in beh['calls']:
        what = call['ev']
        if what == 'Get':
            grp = call['grp']
            real = w.real(grp, call['name'])
            holder = w.holders()[grp]
            ev = {'ev': 'Get', 'grp': grp, 'name': call['name'], 'c': call['c'], 'real': real,
                  'stored': real in holder}
            if ev['stored'] and call['name'] not in state['snap'][grp]:
                raise core.MachineryError('behaviour asks for the stored but untracked series %s:%s' % (grp, real))
            kw = {} if grp == 'main' else {'group_of_series': grp}
            n_pre = len(holder[real]) if ev['stored'] else 0
            cut_eff = m.TimeSeriesCutoff if call['c'] == NOCUT else call['c']
            ev['cut_eff'] = NOCUT if cut_eff is None else cut_eff
            ev['sup'] = bool(m.TimeSeriesSupressTimeZero)
            ev['maxtime'] = m.MaxTime
            # census only: cutoff above Model.MaxTime asked of a series that is longer than MaxTime+1
            ev['beyond'] = bool(ev['stored'] and cut_eff is not None and isinstance(m.MaxTime, int) and
                                cut_eff > m.MaxTime and n_pre > m.MaxTime + 1)
            # census only: a cutoff asked of a holder whose k column does not start at 0
            kcol = holder.get('k') if hasattr(holder, 'get') else None
            ev['off_axis'] = bool(ev['stored'] and cut_eff is not None and isinstance(kcol, list) and kcol and
                                  kcol[0] != 0)
            # census only: suppression on and the (truncated) series has exactly its k=0 point
            ev['one_point'] = bool(ev['sup'] and ev['stored'] and
                                   (n_pre if cut_eff is None else min(n_pre, cut_eff + 1)) == 1)
            val = None
            try:
                if call['c'] == NOCUT:
                    val = m.GetTimeSeries(real, **kw)
                else:
                    val = m.GetTimeSeries(real, cutoff=call['c'], **kw)
                if isinstance(val, list):
                    ev.update(ok=True, ret=[w.code(v) for v in val], exc='',
                              aliased=any(val is s for h in w.holders().values() for s in h.values()))
                else:
                    ev.update(ok=False, ret=[], exc='returned ' + type(val).__name__, aliased=False)
            except Exception as e:
                ev.update(ok=False, ret=[], exc=type(e).__name__, aliased=False)
            held.append(val if isinstance(val, list) else [])
            held_kind.append('vals')
        elif what == 'GetNames':
            grp = call['grp']
            ev = {'ev': 'GetNames', 'grp': grp}
            lst = None
            try:
                lst = w.holders()[grp].GetSeriesList()
                if isinstance(lst, list):
                    ev.update(ok=True, names=bnames(w, grp, lst), nnames=len(lst), exc='')
                else:
                    ev.update(ok=False, names=[], nnames=0, exc='returned ' + type(lst).__name__)
            except Exception as e:
                ev.update(ok=False, names=[], nnames=0, exc=type(e).__name__)
            held.append(lst if isinstance(lst, list) else [])
            held_kind.append('names')
        elif what == 'Replace':
            ev = {'ev': 'Replace', 'name': call['name'], 'op': call['op'], 'done': True}
            try:
                h = w.holder()
                h[w.real('main', call['op'])] = h.pop(w.real('main', call['name']))
            except Exception as e:
                ev.update(done=False, exc=type(e).__name__)
        elif what == 'MutateHeld':
            ev = {'ev': 'MutateHeld', 'i': call['i'], 'op': call['op'], 'done': True}
            lst = held[call['i'] - 1] if 0 < call['i'] <= len(held) else None
            if lst is None:
                ev['done'] = False
            elif call['op'] == 'append':
                lst.append(SENTINEL if held_kind[call['i'] - 1] == 'vals' else 'zz')
            elif call['op'] == 'reverse':
                lst.reverse()
            elif lst:
                lst.pop()
            else:
                ev['done'] = False
        elif what == 'SetSuppress':
            ev = {'ev': 'SetSuppress', 'b': bool(call['b'])}
            m.TimeSeriesSupressTimeZero = bool(call['b'])
        elif what == 'SetCutoff':
            ev = {'ev': 'SetCutoff', 'c': call['c']}
            m.TimeSeriesCutoff = None if call['c'] == NOCUT else call['c']
        elif what == 'Reinsert':
            ev = {'ev': 'Reinsert', 'name': call['name'], 'done': True}
            try:
                h = w.holder()
                real = w.real('main', call['name'])
                h[real] = h.pop(real)
            except Exception as e:
                ev.update(done=False, exc=type(e).__name__)
        elif what == 'SetMaxTime':
            ev = {'ev': 'SetMaxTime', 'c': call['c']}
            m.MaxTime = call['c']
        elif what == 'RenderTable':
            grp = call['grp']
            ev = {'ev': 'RenderTable', 'grp': grp, 'fmt': call['fmt']}
            before = state['deep'][grp]
            try:
                # the documented default format is requested the way callers (WriteCSV, the log output) request it:
                # by leaving the argument out, so a format that sticks from an earlier rendering is seen
                fargs = () if call['fmt'] == DEFAULT_FMT else (call['fmt'],)
                if grp == 'main':
                    text = m.EquationSolver.GenerateCSVtext(*fargs)
                else:
                    text = w.holders()[grp].GenerateCSVtext(*fargs)
                if not isinstance(text, str):
                    raise TypeError('returned ' + type(text).__name__)
            except Exception as e:
                text = None
                ev.update(ok=False, hdr=[], cols={}, ncols=0, tdig='', same_first=False, exc=type(e).__name__)
            if text is not None:        # the projection is the driver's own code: its errors are not observations
                ev.update(render_event(w, grp, call['fmt'], before, text))
                first_text.setdefault((grp, call['fmt']), text)
                ev['same_first'] = (text == first_text[(grp, call['fmt'])])
            fok, ftext = fresh_text(w.holders()[grp], before, call['fmt'])
            ev.update(fresh_ok=fok, fresh_same=bool(fok and text is not None and ftext == text))
        elif what == 'Extend':
            ev = {'ev': 'Extend', 'name': call['name'], 'done': True}
            try:
                w.holder().AppendValue(w.names['main'][call['name']], EXTVAL)
            except Exception as e:
                ev.update(done=False, exc=type(e).__name__)
        elif what == 'BaseCsv':
            ev = {'ev': 'BaseCsv'}
            try:
                text = base.CreateCsvString()
                lines = text.split('\n')
                hdr = lines[0].split('\t')
                rows = [ln.split('\t') for ln in lines[1:] if ln != '']
                cols = {h: [base_cell(r[j]) if j < len(r) else UNKNOWN for r in rows] for j, h in enumerate(hdr)}
                first_text.setdefault('base', text)
                ev.update(ok=True, hdr=hdr, cols=cols, ncols=len(hdr), tdig=core.digest(text),
                          same_first=(text == first_text['base']), exc='')
            except Exception as e:
                ev.update(ok=False, hdr=[], cols={}, ncols=0, tdig='', same_first=False, exc=type(e).__name__)
            ev.update(fresh_ok=False, fresh_same=True)      # no reference rendering for the BaseSolver
        else:
            raise core.MachineryError('unknown call %r in behaviour' % (what,))
        ev.update(observe())
        events.append(ev)
    return events


# --------------------------------------------------------------------------------------
# verdicts
# --------------------------------------------------------------------------------------

def _cs(ev):
    cut = ev.get('cut_eff', NOCUT)
    mt = ev.get('maxtime')
    return 'cutoff=%s,suppress=%s' % ('none' if cut == NOCUT else ('n>MaxTime' if isinstance(mt, int) and cut > mt
                                                                     else 'n'),
                                      'true' if ev.get('sup') else 'false')


def _changed(ev):
    parts = []
    if not ev.get('store_same', True):
        parts.append('store')
    if not ev.get('vl_same', True):
        parts.append('VariableList')
    if not ev.get('base_same', True):
        parts.append('base-series')
    return '+'.join(parts) or 'snapshot'


def signature(clause, at, events):
    """Names what fails: the call at which TLC reached the verdict, its effective configuration
    and which snapshot moved.  Different root causes give different strings."""
    ev = events[at - 1] if 0 < at <= len(events) else {'ev': '?'}
    what = ev['ev']
    if clause == 'C16_ReadsArePure':
        if what == 'Get':
            return 'get-changes-%s:%s%s' % (_changed(ev), '' if ev.get('stored', True) else 'name-not-stored:', _cs(ev))
        if what == 'MutateHeld':
            gets = [e for e in events if e['ev'] == 'Get']
            src = gets[ev['i'] - 1] if 0 < ev['i'] <= len(gets) else {}
            return 'mutating-returned-list-changes-%s:list-from-get(%s)' % (_changed(ev), _cs(src))
        if what == 'BaseCsv':
            return 'basecsv-changes-%s' % _changed(ev)
        pre = events[at - 2].get('snap', {}).get(ev.get('grp', 'main'), {}) if at >= 2 else {}
        ragged = len(set(len(v) for v in pre.values())) > 1
        return 'render-changes-%s%s' % (_changed(ev), ':ragged-store' if ragged else '')
    if clause == 'C16_GetValue':
        return 'get-wrong-value:%s%s' % (_cs(ev), '' if ev.get('ok') else ':raises-' + str(ev.get('exc')))
    if clause == 'C16_Repeatable':
        if what == 'Get':
            return 'get-not-repeatable:%s%s' % ('' if ev.get('stored', True) else 'name-not-stored:', _cs(ev))
        if what == 'BaseCsv':
            return 'basecsv-text-differs-for-same-series'
        if not ev.get('fresh_same', True) or not ev.get('ok', True):
            # what happened since the start that the stored series do not show
            before = [e['ev'] + (':' + e['op'] if e['ev'] == 'MutateHeld' else '') for e in events[1:at - 1]
                      if e['ev'] in ('GetNames', 'MutateHeld', 'Replace', 'Reinsert', 'RenderTable', 'Extend')]
            return 'render-differs-from-fresh-holder-with-same-series:after-%s%s' % (
                '+'.join(sorted(set(before))) or 'nothing', '' if ev.get('ok', True) else ':raises-' + str(ev.get('exc')))
        return 'render-text-differs-for-same-series:%s' % ev.get('fmt')
    return '%s@%s' % (clause, what)


def nontrivial(beh):
    reads = [c for c in beh['calls'] if c['ev'] in ('Get', 'RenderTable', 'BaseCsv', 'GetNames')]
    return len(reads) >= 1 and len(beh['calls']) >= 2


def call_text(c):
    if c['ev'] == 'Get':
        return 'Get(%s%s%s)' % ('' if c.get('grp', 'main') == 'main' else c['grp'] + ':', c['name'],
                                '' if c['c'] == NOCUT else ',cutoff=%d' % c['c'])
    if c['ev'] == 'MutateHeld':
        return 'MutateHeld(%d,%s)' % (c['i'], c['op'])
    if c['ev'] == 'SetSuppress':
        return 'SetSuppress(%s)' % c['b']
    if c['ev'] == 'SetCutoff':
        return 'SetCutoff(%s)' % ('None' if c['c'] == NOCUT else c['c'])
    if c['ev'] == 'RenderTable':
        return 'RenderTable(%s%s)' % ('' if c.get('grp', 'main') == 'main' else c['grp'] + ':', c['fmt'])
    if c['ev'] == 'Extend':
        return 'Extend(%s)' % c['name']
    if c['ev'] == 'SetMaxTime':
        return 'SetMaxTime(%s)' % c['c']
    if c['ev'] == 'GetNames':
        return 'GetNames(%s)' % c['grp']
    if c['ev'] == 'Reinsert':
        return 'Reinsert(%s)' % c['name']
    if c['ev'] == 'Replace':
        return 'Replace(%s->%s)' % (c['name'], c['op'])
    return c['ev']


def parse_verdict(v):
    kind, rest = v.split(':', 1)
    clause, _, at = rest.rpartition('@')
    return kind, clause, int(at or 0)


def judge(rep, behs, kind, need_failing_get=False, need_one_point=False, need_beyond=False, need_off_axis=False):
    """Replays the behaviours in one world and has TLC judge all recorded traces in one batch."""
    traces = []
    failing = 0
    one_point = 0
    beyond = 0
    off_axis = 0
    for i, b in enumerate(behs):
        traces.append((i, execute(b, kind)))
        failing += sum(1 for e in traces[-1][1] if e['ev'] == 'Get' and not e['stored'])
        one_point += sum(1 for e in traces[-1][1] if e['ev'] == 'Get' and e.get('one_point'))
        beyond += sum(1 for e in traces[-1][1] if e['ev'] == 'Get' and e.get('beyond'))
        off_axis += sum(1 for e in traces[-1][1] if e['ev'] == 'Get' and e.get('off_axis'))
        case = {'world': kind, 'behaviour': b}
        if len(rep.samples) < 3:
            case = dict(case, observed=traces[-1][1])
        rep.add_case(case, nontrivial(b))
    if need_failing_get and not failing:
        raise core.MachineryError('no retrieval of a name that is not stored was executed in world ' + kind)
    if need_one_point and not one_point:
        raise core.MachineryError('no suppressed retrieval of a one-point slice was executed in world ' + kind)
    if need_beyond and not beyond:
        raise core.MachineryError('no retrieval with a cutoff above Model.MaxTime from a series longer than '
                                  'MaxTime+1 was executed in world ' + kind)
    if need_off_axis and not off_axis:
        raise core.MachineryError('no retrieval with a cutoff from a group whose k does not start at 0 was '
                                  'executed in world ' + kind)
    rep.extra['cutoff_gets_off_axis'] = rep.extra.get('cutoff_gets_off_axis', 0) + off_axis
    rep.extra['gets_beyond_maxtime'] = rep.extra.get('gets_beyond_maxtime', 0) + beyond
    rep.extra['gets_of_names_not_stored'] = rep.extra.get('gets_of_names_not_stored', 0) + failing
    rep.extra['suppressed_one_point_gets'] = rep.extra.get('suppressed_one_point_gets', 0) + one_point
    verdicts, st, tr = core.validate_traces('MC_Results_Trace', 'MC_Results_Trace.cfg', traces, tag='c16')
    rep.traces += len(traces)
    rep.extra['trace_validation_states'] = rep.extra.get('trace_validation_states', 0) + st
    rep.extra['replayed_' + kind] = rep.extra.get('replayed_' + kind, 0) + len(traces)
    def detail_of(b, events, at, note=''):
        bad = events[at - 1] if 0 < at <= len(events) else {}
        return 'world=%s calls=[%s] failing call #%d %s observed %s%s' % (
            kind, '; '.join(call_text(c) for c in b['calls']), at - 1, bad.get('ev'),
            json.dumps({k: bad.get(k) for k in ('ok', 'ret', 'stored', 'aliased', 'fresh_ok', 'fresh_same', 'hdr',
                                                'snap', 'vl', 'store_same', 'vl_same', 'base_same', 'same_first',
                                                'exc') if k in bad}, sort_keys=True), note)

    found = []                      # (index, clause, at, signature)
    for i, b in enumerate(behs):
        kindv, clause, at = parse_verdict(verdicts[i])
        if kindv == 'ok':
            continue
        if kindv == 'property':
            found.append((i, clause, at, signature(clause, at, traces[i][1])))
        else:
            rep.add_drift(clause, {'world': kind, 'behaviour': b, 'observed': traces[i][1]})
    if not found:
        return
    # The histories of one world share a process.  A violation that only shows because of what an EARLIER
    # history left behind in the process is a violation all the same, but its history alone would not
    # reproduce it.  So, per signature, the shortest histories are executed again in a process of their own
    # (forked from the pristine one) and judged again; a history that reproduces is reported first.
    by_sig = {}
    for f in found:
        by_sig.setdefault((f[1], f[3]), []).append(f)
    cand = []
    for key, fs in by_sig.items():
        fs.sort(key=lambda f: (len(behs[f[0]]['calls']), f[0]))
        cand.extend(fs[:4])
    cand = cand[:40]
    again = [(j, pristine().ask(('exec', behs[f[0]], kind))) for j, f in enumerate(cand)]
    verdicts2, _, _ = core.validate_traces('MC_Results_Trace', 'MC_Results_Trace.cfg', again, tag='c16c')
    confirmed = {}
    for j, f in enumerate(cand):
        kindv, clause2, at2 = parse_verdict(verdicts2[j])
        if kindv == 'property' and clause2 == f[1] and signature(clause2, at2, again[j][1]) == f[3]:
            confirmed.setdefault((f[1], f[3]), (f, again[j][1], at2))
    for key, (f, events2, at2) in confirmed.items():
        b = behs[f[0]]
        rep.violate(f[1], f[3], {'world': kind, 'behaviour': b, 'observed': events2},
                    detail=detail_of(b, events2, at2, ' [reproduces in a process of its own]'))
    for i, clause, at, sig in found:
        if (clause, sig) in confirmed:
            if confirmed[(clause, sig)][0][0] == i:
                continue            # already reported above
            rep.violate(clause, sig, {'world': kind, 'behaviour': behs[i], 'observed': traces[i][1]},
                        detail=detail_of(behs[i], traces[i][1], at))
        else:
            rep.violate(clause, sig + ':after-earlier-histories-in-the-same-process',
                        {'world': kind, 'behaviour': behs[i], 'observed': traces[i][1]},
                        detail=detail_of(behs[i], traces[i][1], at,
                                         ' [the histories replayed before this one in the same process are part '
                                         'of the witness; alone it does not reproduce]'))


def behaviours_of(rep, cfg, seen, res):
    if res.violated:
        raise core.MachineryError('spec property %s violated in %s' % (res.violated, cfg))
    rep.add_tlc(res, 'exhaustive ' + cfg)
    behs = []
    for b in core.json_of_printed(res, 'BEH'):
        k = core.canonical(b)
        if k not in seen:
            seen.add(k)
            behs.append(b)
    if not behs:
        raise core.MachineryError('TLC emitted no behaviours for ' + cfg)
    return behs


DEFAULT_FMT = '%.5g'     # = the default of GenerateCSVtext in the documentation and in Results.tla
QUICK_CFGS = ['MC_Results_quick.cfg', 'MC_Results_quick2.cfg', 'MC_Results_ragged.cfg', 'MC_Results_miss.cfg',
              'MC_Results_edge.cfg', 'MC_Results_horizon.cfg', 'MC_Results_names.cfg', 'MC_Results_formats.cfg',
              'MC_Results_kaxis.cfg', 'MC_Results_case.cfg']
THOROUGH_CFGS = ['MC_Results_thorough.cfg', 'MC_Results_thorough2.cfg', 'MC_Results_ragged_thorough.cfg',
                 'MC_Results_miss_thorough.cfg', 'MC_Results_miss_thorough2.cfg', 'MC_Results_edge_thorough.cfg',
                 'MC_Results_horizon_thorough.cfg', 'MC_Results_names_thorough.cfg', 'MC_Results_formats_thorough.cfg',
                 'MC_Results_kaxis_thorough.cfg', 'MC_Results_case_thorough.cfg']


def run(rep):
    pristine()      # before any thread is started and before anything of sfc_models is executed
    try:
        _run(rep)
    finally:
        rep.extra['reference_renderings_in_pristine_process'] = PRISTINE.asked if PRISTINE else 0
        if PRISTINE is not None:
            PRISTINE.close()


def _run(rep):
    cfgs = QUICK_CFGS if rep.tier == 'quick' else QUICK_CFGS + THOROUGH_CFGS
    rep.rule = ('behaviours = all maximal call histories of the bounded Results instances emitted by TLC '
                '(Get group x name x cutoff incl. names the group does not hold and cutoff 0, MutateHeld index x '
                '{append,pop}, SetSuppress, SetCutoff, RenderTable group x fmt, BaseCsv, Extend name; MaxHist calls; '
                'rectangular and ragged initial stores, series of 1, 2, 3, 5 points, empty and filled step group); '
                'each is executed on a real Model holding the known series (and, thorough tier, the quick-, miss- and '
                'edge-instance histories also on a solved SIM model with a traced step, the ragged-, miss- and '
                'edge-instance histories on a Model whose run was interrupted, the edge- and miss-instance histories '
                'on a solver that was only initialised, plus the rendering done by Model.main() itself); '
                'distinct = distinct (world, history) JSON; non-trivial = at least one read call and >= 2 calls')
    rep.exhaustive = True
    rep.assumptions = ['stored series of length 1, 2, 3 or 5/3 ragged (known) / 9 (solved SIM model, MaxTime 8; two '
                       'series tracked; step group = 160 sweeps) / 5,5,3,3 (interrupted run; all tracked) / '
                       '5,5,1,1,1 (initialised solver; all tracked)',
                       'snapshots are deep copies of the three TimeSeriesHolders taken through the dict interface',
                       'TLC 1.8 / tla2tools; CommunityModules Json/IOUtils']
    # the bounded instances are independent TLC jobs: run them side by side
    with concurrent.futures.ThreadPoolExecutor(max_workers=min(len(cfgs), 6)) as ex:
        results = list(ex.map(lambda c: core.tlc('MC_Results', c, workers=1, tag='c16'), cfgs))
    seen = set()
    by_cfg = {}
    for cfg, res in zip(cfgs, results):
        by_cfg[cfg] = behaviours_of(rep, cfg, seen, res)
    for cfg, behs in by_cfg.items():
        if 'ragged' in cfg and (not any(c['ev'] == 'RenderTable' for b in behs for c in b['calls']) or
                                len(set(len(v) for v in behs[0]['store']['main'].values())) < 2):
            raise core.MachineryError('%s does not render a ragged store' % cfg)
        if 'miss' in cfg and not any(c['ev'] == 'Get' and c['name'] not in (b['store'][c['grp']] or {})
                                     for b in behs for c in b['calls']):
            raise core.MachineryError('%s never asks for a name that is not stored' % cfg)
    everything = [b for cfg in cfgs for b in by_cfg[cfg]]
    judge(rep, everything, 'known', need_failing_get=True, need_one_point=True, need_beyond=True, need_off_axis=True)
    if rep.tier != 'quick':
        rnd = random.Random(rep.seed)
        ragged = by_cfg['MC_Results_ragged.cfg'] + by_cfg['MC_Results_ragged_thorough.cfg']
        # these ask only for tracked or absent names: usable in every world
        quick_miss = by_cfg['MC_Results_miss.cfg']
        longer = list(by_cfg['MC_Results_miss_thorough.cfg'])
        rnd.shuffle(longer)                                         # a seeded sample of the longer ones
        edge = by_cfg['MC_Results_edge.cfg'] + by_cfg['MC_Results_edge_thorough.cfg']
        main_edge = [b for b in edge if all(c['grp'] != 'step' for c in b['calls'] if c['ev'] == 'Get')]
        # horizon histories on the solved model (MaxTime 8, 160 sweeps in the step group): those that do not
        # ask for the initial group's x, which this model does not hold
        horizon = by_cfg['MC_Results_horizon.cfg'] + by_cfg['MC_Results_horizon_thorough.cfg']
        horizon = [b for b in horizon if all(c['grp'] != 'initial' for c in b['calls'] if c['ev'] == 'Get')]
        rnd.shuffle(horizon)
        kaxis = by_cfg['MC_Results_kaxis.cfg'] + by_cfg['MC_Results_kaxis_thorough.cfg']
        rnd.shuffle(kaxis)
        judge(rep, by_cfg['MC_Results_quick.cfg'] + quick_miss + longer[:6000] + main_edge + horizon[:3000] +
              kaxis[:3000], 'solved', need_failing_get=True, need_one_point=True, need_beyond=True,
              need_off_axis=True)
        special = {'special': MAIN_FINALLY, 'varlist': ['x', 'y', 't'],
                   'calls': [{'ev': 'RenderTable', 'grp': 'main', 'name': '', 'c': NOCUT, 'i': 0, 'op': '',
                              'b': False, 'fmt': '%.5g'}]}
        judge(rep, [special] + ragged + quick_miss + edge, 'interrupted', need_failing_get=True, need_one_point=True)
        judge(rep, edge + quick_miss, 'initialised', need_failing_get=True, need_one_point=True)
        # a seeded sample of the name-list / replace histories on the real models
        names = by_cfg['MC_Results_names.cfg'] + by_cfg['MC_Results_names_thorough.cfg']
        rnd.shuffle(names)
        # ... and all two-format histories (these models have rendered their own store in main() already)
        formats = by_cfg['MC_Results_formats.cfg'] + by_cfg['MC_Results_formats_thorough.cfg']
        judge(rep, names[:3000] + formats, 'solved')
        judge(rep, names[:3000] + formats, 'interrupted')


def replay(path):
    with open(path) as f:
        data = json.load(f)
    case = data['case']
    beh = case['behaviour']
    kind = case.get('world', 'known')
    rep = core.Report('C16', 'quick', 0)
    pristine()
    judge(rep, [beh], kind)
    print(json.dumps({'world': kind, 'behaviour': beh, 'observed_now': execute(beh, kind)}, indent=1))
    for v in rep.violations:
        print('VIOLATION property=C16 replay=%s' % path)
        print('  clause=%s signature=%s' % (v.clause, v.signature))
        return 1
    print('replay: property clause holds on this case now')
    return 0
