"""C16 - reading results never changes them.

spec:   spec/Results.tla (actions Get, MutateHeld, SetSuppress, SetCutoff, RenderTable, BaseCsv, Extend;
        action property C16_ReadsArePure, invariants C16_GetValue, C16_Repeatable)
TLC:    exhaustive check of the bounded instance; every maximal call history is emitted
replay: each history is executed on
          * a real Model whose EquationSolver.TimeSeries (a TimeSeriesHolder) holds the known series
            of the unit tests  ('t': [0, 1, 2], 'x': [4, 5, 6])                       - world "known"
          * thorough tier: a really solved model (gl_book.chapter3.SIM, MaxTime 8, main()) using its
            own series 't' and 'HH__F'; the stored lists are restored between histories - world "solved"
          * RAGGED stores (series of unequal length; instance MC_Results_ragged*: 't' has 5 points, 'x' 3,
            Extend = TimeSeriesHolder.AppendValue on one series): on the known-series Model in both tiers
            and, thorough tier, on a Model whose run was really interrupted (S__X = 1/(S__G - 3) fails at
            step 3: the exogenous S__G and k keep MaxTime+1 = 5 points, S__X and t stop at 3) - world
            "interrupted"; all four stored series are tracked.  The rendering that Model.main() itself
            performs in its `finally` is observed through a harness-side wrapper around the bound method
            (snapshot before / after) and judged as one more trace (behaviour "main-finally")
          * a small BaseSolver subclass (the object of test_base_solver.py) for BaseCsv
        after every call a deep snapshot of EquationSolver.TimeSeries, of BaseSolver.VariableList and of
        the BaseSolver's series attributes is taken and compared with the previous one; lists returned
        by GetTimeSeries are kept and mutated (append 99 / pop) when the history says MutateHeld
trace:  the recorded executions are validated by TLC against Results_Trace (same operators)

Property clauses (observed vs observed, see Results_Trace.tla):
  C16_ReadsArePure  a Get / MutateHeld / RenderTable / BaseCsv leaves every snapshot as it was
  C16_GetValue      the list returned = first cutoff+1 points of the series as stored just before the
                    call (all without a cutoff), without the first point under suppression
  C16_Repeatable    same stored series (whole-store digest) and same arguments => same list / same text
Reading choices (the weaker one each time): "same stored series" is judged on the whole store, not per
series; the text of a rendering is only compared with earlier texts of the same call, never with a
predicted spelling (cells / header against the spec are conformance clauses -> drift); the column order
is C19's subject.  BaseSolver.VariableList counts as part of the stored results of a BaseSolver (it
names the attributes that are its series), as DESIGN.md section 6 C16 fixes.

Values are shipped to TLC as small ints: the known series are small ints already; the floats of the
solved model are coded 100 + rank among the distinct values of the tracked series (injective), the
driver's own values are the ints 99 (sentinel appended to returned lists) and 7 (Extend), anything else is -1.
"""
import json
import random

from harness import core

SENTINEL = 99
EXTVAL = 7                                                            # = ExtVal in Results.tla
NOCUT = -1
KNOWN = {'t': [0, 1, 2], 'x': [4, 5, 6]}                              # = MC_InitStore
BASE = {'x': [1., 1., 1.], 'y': [2., 2., 2.], 't': [0., 1., 2.]}      # = MC_BaseStore
SOLVED_NAMES = {'t': 't', 'x': 'HH__F'}                               # behaviour name -> series of SIM
SOLVED_MAXTIME = 8
# interrupted run: behaviour name -> stored series; every stored series is tracked
INTERRUPTED_NAMES = {'t': 'S__G', 'x': 'S__X', 'k': 'k', 'tt': 't'}
INTERRUPTED_G = [1., 2., 4., 3., 5.]                                  # S__X = 1/(S__G - 3) fails at step 3
MAIN_FINALLY = 'main-finally'


# --------------------------------------------------------------------------------------
# worlds: the real objects a history is executed on
# --------------------------------------------------------------------------------------

class World(object):
    """A real Model with stored series, restorable to its pristine stored results."""

    def __init__(self, kind):
        from sfc_models.models import Model
        from sfc_models.utils import TimeSeriesHolder
        self.kind = kind
        self.pristine = None
        self.main_render = None
        if kind == 'known':
            self.model = Model()
            ts = TimeSeriesHolder('k')
            for k, v in KNOWN.items():
                ts[k] = list(v)
            self.model.EquationSolver.TimeSeries = ts
            self.names = {k: k for k in KNOWN}
            self.table = None
        elif kind == 'solved':
            from sfc_models.gl_book.chapter3 import SIM
            self.model = SIM('C').build_model()
            self.model.MaxTime = SOLVED_MAXTIME
            self.model.main()
            self.names = dict(SOLVED_NAMES)
            ts = self.model.EquationSolver.TimeSeries
            vals = set()
            for real in self.names.values():
                if real not in ts or len(ts[real]) != SOLVED_MAXTIME + 1:
                    raise core.MachineryError('solved model has no usable series %r' % real)
                vals.update(ts[real])
            self.table = {v: 100 + i for i, v in enumerate(sorted(vals))}
        elif kind == 'interrupted':
            self._build_interrupted()
        else:
            raise core.MachineryError('unknown world ' + repr(kind))
        if self.pristine is None:
            self.pristine = self.deep()
        if not self.pristine:
            raise core.MachineryError('world %s has no stored series' % kind)

    def _build_interrupted(self):
        """A Model whose run really stops at step 3.  Model.main() renders the (ragged) store in its
        `finally`; that call is observed by wrapping the bound method on this one solver object."""
        from sfc_models.models import Model, Country
        from sfc_models.sector import Sector
        mod = Model()
        ca = Country(mod, 'CA', 'Canada')
        sec = Sector(ca, 'S', 'Sector', has_F=False)
        sec.AddVariable('G', 'exogenous driver', '0.')
        sec.AddVariable('X', 'undefined when G reaches 3', '1./(G - 3.)')
        mod.AddExogenous('S', 'G', repr(INTERRUPTED_G))
        mod.EquationSolver.MaxTime = len(INTERRUPTED_G) - 1
        mod.EquationSolver.MaxIterations = 20
        es = mod.EquationSolver
        orig = es.GenerateCSVtext
        seen = []

        def wrapped(*a, **k):
            before = {n: list(v) for n, v in es.TimeSeries.items()}
            text = orig(*a, **k)
            seen.append((before, {n: list(v) for n, v in es.TimeSeries.items()}, text,
                         a[0] if a else k.get('format_str', '%.5g')))
            return text

        es.GenerateCSVtext = wrapped
        failed = False
        try:
            mod.main()
        except Exception:
            failed = True
        finally:
            del es.GenerateCSVtext
        self.model = mod
        self.names = dict(INTERRUPTED_NAMES)
        if not failed:
            raise core.MachineryError('the interrupted-run model solved without an error')
        if seen:
            self.main_render = seen[0]
            self.pristine = {n: list(v) for n, v in seen[0][0].items()}
        else:
            self.pristine = self.deep()
        lens = {n: len(v) for n, v in self.pristine.items()}
        if set(self.names.values()) != set(lens) or len(set(lens.values())) < 2 or \
                lens.get('S__G') != len(INTERRUPTED_G):
            raise core.MachineryError('interrupted run left an unexpected store shape %r' % (lens,))
        vals = set()
        for v in self.pristine.values():
            vals.update(v)
        self.table = {v: 100 + i for i, v in enumerate(sorted(vals))}

    def holder(self):
        return self.model.EquationSolver.TimeSeries

    def deep(self):
        return {k: list(v) for k, v in self.holder().items()}

    def restore(self, store=None):
        """Back to the pristine stored results; the known world takes the store of the behaviour."""
        ts = self.holder()
        ts.clear()
        src = store if (store and self.kind == 'known') else self.pristine
        for k, v in src.items():
            ts[k] = list(v)
        self.model.TimeSeriesCutoff = None
        self.model.TimeSeriesSupressTimeZero = False

    def code(self, v):
        if type(v) is int and v in (SENTINEL, EXTVAL):
            return v
        if isinstance(v, bool) or not isinstance(v, (int, float)):
            return -1
        if self.table is not None:
            return self.table.get(v, -1)
        if v == int(v) and 0 <= v < SENTINEL:
            return int(v)
        return -1

    def project(self, deep):
        return {b: [self.code(v) for v in deep.get(real, [])] for b, real in self.names.items()}


_WORLDS = {}


def world(kind):
    if kind not in _WORLDS:
        _WORLDS[kind] = World(kind)
    return _WORLDS[kind]


def make_base(varlist):
    from sfc_models.base_solver import BaseSolver

    class SmallSolver(BaseSolver):
        def __init__(self, variable_list):
            BaseSolver.__init__(self, variable_list)
            for k, v in BASE.items():
                setattr(self, k, list(v))

    return SmallSolver(list(varlist))


def base_cell(cell):
    try:
        f = float(cell)
    except ValueError:
        return -1
    return int(f) if f == int(f) and 0 <= f < SENTINEL else -1


# --------------------------------------------------------------------------------------
# replay
# --------------------------------------------------------------------------------------

def render_event(w, fmt, before, text):
    """Projection of one rendered table: per tracked series the cells, coded by the stored value they
    spell (-1 = the cell is not `fmt % stored value`)."""
    lines = text.split('\n')
    hdr = lines[0].split('\t')
    rows = [ln.split('\t') for ln in lines[1:] if ln != '']
    cols = {}
    for b, real in w.names.items():
        j = hdr.index(real)
        col = []
        for i, r in enumerate(rows):
            stored = before.get(real, [])
            same = i < len(stored) and j < len(r) and (fmt % (stored[i],)) == r[j]
            col.append(w.code(stored[i]) if same else -1)
        cols[b] = col
    return {'ok': True, 'hdr': hdr, 'cols': cols, 'ncols': len(hdr), 'tdig': core.digest(text), 'exc': ''}


def main_finally_events(w, base_varlist):
    """The rendering Model.main() performed in its `finally` on the interrupted run, as a trace."""
    if w.main_render is None:
        raise core.MachineryError('Model.main() of the interrupted run did not render')
    before, after, text, fmt = w.main_render
    vl = [str(x) for x in base_varlist]
    bdig = core.digest({k: list(v) for k, v in BASE.items()})
    common = {'vl': vl, 'bdig': bdig, 'vl_same': True, 'base_same': True}
    ev0 = dict({'ev': 'Init', 'world': w.kind, 'snap': w.project(before), 'dig': core.digest(before),
                'store_same': False}, **common)
    ev1 = {'ev': 'RenderTable', 'fmt': fmt, 'same_first': True}
    try:
        ev1.update(render_event(w, fmt, before, text))
    except Exception as e:
        ev1.update(ok=False, hdr=[], cols={}, ncols=0, tdig='', exc=type(e).__name__)
    ev1.update(dict({'snap': w.project(after), 'dig': core.digest(after), 'store_same': before == after},
                    **common))
    return [ev0, ev1]


def execute(beh, kind='known'):
    """Run one call history on the real objects; returns the list of trace events."""
    w = world(kind)
    if beh.get('special') == MAIN_FINALLY:
        return main_finally_events(w, beh['varlist'])
    w.restore(beh.get('store'))
    m = w.model
    base = make_base(beh['varlist'])
    held = []
    first_text = {}
    state = {}

    def observe():
        deep = w.deep()
        vl = [str(x) for x in base.VariableList]
        battr = {k: list(getattr(base, k, [])) for k in BASE}
        o = {'snap': w.project(deep), 'dig': core.digest(deep), 'vl': vl, 'bdig': core.digest(battr),
             'store_same': deep == state.get('deep'), 'vl_same': vl == state.get('vl'),
             'base_same': battr == state.get('battr')}
        state.update(deep=deep, vl=vl, battr=battr)
        return o

    ev = {'ev': 'Init', 'world': kind}
    ev.update(observe())
    events = [ev]
    for call in beh['calls']:
        what = call['ev']
        if what == 'Get':
            ev = {'ev': 'Get', 'name': call['name'], 'c': call['c']}
            real = w.names[call['name']]
            cut_eff = m.TimeSeriesCutoff if call['c'] == NOCUT else call['c']
            ev['cut_eff'] = NOCUT if cut_eff is None else cut_eff
            ev['sup'] = bool(m.TimeSeriesSupressTimeZero)
            val = None
            try:
                if call['c'] == NOCUT:
                    val = m.GetTimeSeries(real)
                else:
                    val = m.GetTimeSeries(real, cutoff=call['c'])
                if isinstance(val, list):
                    ev.update(ok=True, ret=[w.code(v) for v in val], exc='',
                              aliased=any(val is s for s in w.holder().values()))
                else:
                    ev.update(ok=False, ret=[], exc='returned ' + type(val).__name__, aliased=False)
            except Exception as e:
                ev.update(ok=False, ret=[], exc=type(e).__name__, aliased=False)
            held.append(val if isinstance(val, list) else [])
        elif what == 'MutateHeld':
            ev = {'ev': 'MutateHeld', 'i': call['i'], 'op': call['op'], 'done': True}
            lst = held[call['i'] - 1] if 0 < call['i'] <= len(held) else None
            if lst is None:
                ev['done'] = False
            elif call['op'] == 'append':
                lst.append(SENTINEL)
            elif lst:
                lst.pop()
            else:
                ev['done'] = False
        elif what == 'SetSuppress':
            ev = {'ev': 'SetSuppress', 'b': bool(call['b'])}
            m.TimeSeriesSupressTimeZero = bool(call['b'])
        elif what == 'SetCutoff':
            ev = {'ev': 'SetCutoff', 'c': call['c']}
            m.TimeSeriesCutoff = None if call['c'] == NOCUT else call['c']
        elif what == 'RenderTable':
            ev = {'ev': 'RenderTable', 'fmt': call['fmt']}
            before = state['deep']
            try:
                text = m.EquationSolver.GenerateCSVtext(call['fmt'])
                ev.update(render_event(w, call['fmt'], before, text))
                first_text.setdefault(call['fmt'], text)
                ev['same_first'] = (text == first_text[call['fmt']])
            except Exception as e:
                ev.update(ok=False, hdr=[], cols={}, ncols=0, tdig='', same_first=False, exc=type(e).__name__)
        elif what == 'Extend':
            ev = {'ev': 'Extend', 'name': call['name'], 'done': True}
            try:
                w.holder().AppendValue(w.names[call['name']], EXTVAL)
            except Exception as e:
                ev.update(done=False, exc=type(e).__name__)
        elif what == 'BaseCsv':
            ev = {'ev': 'BaseCsv'}
            try:
                text = base.CreateCsvString()
                lines = text.split('\n')
                hdr = lines[0].split('\t')
                rows = [ln.split('\t') for ln in lines[1:] if ln != '']
                cols = {h: [base_cell(r[j]) if j < len(r) else -1 for r in rows] for j, h in enumerate(hdr)}
                first_text.setdefault('base', text)
                ev.update(ok=True, hdr=hdr, cols=cols, ncols=len(hdr), tdig=core.digest(text),
                          same_first=(text == first_text['base']), exc='')
            except Exception as e:
                ev.update(ok=False, hdr=[], cols={}, ncols=0, tdig='', same_first=False, exc=type(e).__name__)
        else:
            raise core.MachineryError('unknown call %r in behaviour' % (what,))
        ev.update(observe())
        events.append(ev)
    return events


# --------------------------------------------------------------------------------------
# verdicts
# --------------------------------------------------------------------------------------

def _cs(ev):
    return 'cutoff=%s,suppress=%s' % ('none' if ev.get('cut_eff', NOCUT) == NOCUT else 'n',
                                      'true' if ev.get('sup') else 'false')


def _changed(ev):
    parts = []
    if not ev.get('store_same', True):
        parts.append('store')
    if not ev.get('vl_same', True):
        parts.append('VariableList')
    if not ev.get('base_same', True):
        parts.append('base-series')
    return '+'.join(parts) or 'snapshot'


def signature(clause, at, events):
    """Names what fails: the call at which TLC reached the verdict, its effective configuration
    and which snapshot moved.  Different root causes give different strings."""
    ev = events[at - 1] if 0 < at <= len(events) else {'ev': '?'}
    what = ev['ev']
    if clause == 'C16_ReadsArePure':
        if what == 'Get':
            return 'get-changes-%s:%s' % (_changed(ev), _cs(ev))
        if what == 'MutateHeld':
            gets = [e for e in events if e['ev'] == 'Get']
            src = gets[ev['i'] - 1] if 0 < ev['i'] <= len(gets) else {}
            return 'mutating-returned-list-changes-%s:list-from-get(%s)' % (_changed(ev), _cs(src))
        if what == 'BaseCsv':
            return 'basecsv-changes-%s' % _changed(ev)
        pre = events[at - 2].get('snap', {}) if at >= 2 else {}
        ragged = len(set(len(v) for v in pre.values())) > 1
        return 'render-changes-%s%s' % (_changed(ev), ':ragged-store' if ragged else '')
    if clause == 'C16_GetValue':
        return 'get-wrong-value:%s%s' % (_cs(ev), '' if ev.get('ok') else ':raises-' + str(ev.get('exc')))
    if clause == 'C16_Repeatable':
        if what == 'Get':
            return 'get-not-repeatable:%s' % _cs(ev)
        if what == 'BaseCsv':
            return 'basecsv-text-differs-for-same-series'
        return 'render-text-differs-for-same-series:%s' % ev.get('fmt')
    return '%s@%s' % (clause, what)


def nontrivial(beh):
    reads = [c for c in beh['calls'] if c['ev'] in ('Get', 'RenderTable', 'BaseCsv')]
    return len(reads) >= 1 and len(beh['calls']) >= 2


def call_text(c):
    if c['ev'] == 'Get':
        return 'Get(%s%s)' % (c['name'], '' if c['c'] == NOCUT else ',cutoff=%d' % c['c'])
    if c['ev'] == 'MutateHeld':
        return 'MutateHeld(%d,%s)' % (c['i'], c['op'])
    if c['ev'] == 'SetSuppress':
        return 'SetSuppress(%s)' % c['b']
    if c['ev'] == 'SetCutoff':
        return 'SetCutoff(%s)' % ('None' if c['c'] == NOCUT else c['c'])
    if c['ev'] == 'RenderTable':
        return 'RenderTable(%s)' % c['fmt']
    if c['ev'] == 'Extend':
        return 'Extend(%s)' % c['name']
    return c['ev']


def parse_verdict(v):
    kind, rest = v.split(':', 1)
    clause, _, at = rest.rpartition('@')
    return kind, clause, int(at or 0)


def judge(rep, behs, kind):
    traces = []
    for i, b in enumerate(behs):
        traces.append((i, execute(b, kind)))
        case = {'world': kind, 'behaviour': b}
        if len(rep.samples) < 3:
            case = dict(case, observed=traces[-1][1])
        rep.add_case(case, nontrivial(b))
    verdicts, st, tr = core.validate_traces('MC_Results_Trace', 'MC_Results_Trace.cfg', traces, tag='c16')
    rep.traces += len(traces)
    rep.extra['trace_validation_states'] = rep.extra.get('trace_validation_states', 0) + st
    rep.extra['replayed_' + kind] = rep.extra.get('replayed_' + kind, 0) + len(traces)
    for i, b in enumerate(behs):
        kindv, clause, at = parse_verdict(verdicts[i])
        if kindv == 'ok':
            continue
        events = traces[i][1]
        case = {'world': kind, 'behaviour': b, 'observed': events}
        if kindv == 'property':
            bad = events[at - 1] if 0 < at <= len(events) else {}
            detail = 'world=%s calls=[%s] failing call #%d %s observed %s' % (
                kind, '; '.join(call_text(c) for c in b['calls']), at - 1, bad.get('ev'),
                json.dumps({k: bad.get(k) for k in ('ok', 'ret', 'aliased', 'snap', 'vl', 'store_same',
                                                    'vl_same', 'base_same', 'same_first', 'exc')
                            if k in bad}, sort_keys=True))
            rep.violate(clause, signature(clause, at, events), case, detail=detail)
        else:
            rep.add_drift(clause, case)


def behaviours_of(rep, cfg, seen):
    res = core.tlc('MC_Results', cfg, workers=1, tag='c16')
    if res.violated:
        raise core.MachineryError('spec property %s violated in %s' % (res.violated, cfg))
    rep.add_tlc(res, 'exhaustive ' + cfg)
    behs = []
    for b in core.json_of_printed(res, 'BEH'):
        k = core.canonical(b)
        if k not in seen:
            seen.add(k)
            behs.append(b)
    if not behs:
        raise core.MachineryError('TLC emitted no behaviours for ' + cfg)
    return behs


def run(rep):
    cfgs = ['MC_Results_quick.cfg', 'MC_Results_quick2.cfg', 'MC_Results_ragged.cfg'] if rep.tier == 'quick' else \
        ['MC_Results_quick.cfg', 'MC_Results_quick2.cfg', 'MC_Results_ragged.cfg', 'MC_Results_thorough.cfg',
         'MC_Results_thorough2.cfg', 'MC_Results_ragged_thorough.cfg']
    rep.rule = ('behaviours = all maximal call histories of the bounded Results instance emitted by TLC '
                '(Get name x cutoff, MutateHeld index x {append,pop}, SetSuppress, SetCutoff, RenderTable fmt, '
                'BaseCsv, Extend name; MaxHist calls; rectangular and ragged initial stores); each is executed on '
                'a real Model holding the known series (and, thorough tier, the quick-instance histories also on '
                'a solved SIM model and the ragged-instance histories on a Model whose run was interrupted, plus '
                'the rendering done by that Model.main() itself); '
                'distinct = distinct (world, history) JSON; non-trivial = at least one read call and >= 2 calls')
    rep.exhaustive = True
    rep.assumptions = ['stored series of length 3 or 5/3 ragged (known) / 9 (solved SIM model, MaxTime 8; two series '
                       'tracked) / 5,5,3,3 (interrupted run; all four tracked)',
                      'snapshots are deep copies of EquationSolver.TimeSeries taken through the dict interface',
                      'TLC 1.8 / tla2tools; CommunityModules Json/IOUtils']
    seen = set()
    first = None
    ragged = []
    for cfg in cfgs:
        behs = behaviours_of(rep, cfg, seen)
        if first is None:
            first = behs
        if 'ragged' in cfg:
            if not any(c['ev'] == 'RenderTable' for b in behs for c in b['calls']) or \
                    len(set(len(v) for v in behs[0]['store'].values())) < 2:
                raise core.MachineryError('%s does not render a ragged store' % cfg)
            ragged.extend(behs)
        judge(rep, behs, 'known')
    if rep.tier != 'quick':
        rnd = random.Random(rep.seed)
        extra = list(first)
        rnd.shuffle(extra)          # order only; all of them are replayed
        judge(rep, extra, 'solved')
        special = {'special': MAIN_FINALLY, 'varlist': ['x', 'y', 't'],
                   'calls': [{'ev': 'RenderTable', 'name': '', 'c': NOCUT, 'i': 0, 'op': '', 'b': False,
                              'fmt': '%.5g'}]}
        judge(rep, [special] + ragged, 'interrupted')


def replay(path):
    with open(path) as f:
        data = json.load(f)
    case = data['case']
    beh = case['behaviour']
    kind = case.get('world', 'known')
    rep = core.Report('C16', 'quick', 0)
    judge(rep, [beh], kind)
    print(json.dumps({'world': kind, 'behaviour': beh, 'observed_now': execute(beh, kind)}, indent=1))
    for v in rep.violations:
        print('VIOLATION property=C16 replay=%s' % path)
        print('  clause=%s signature=%s' % (v.clause, v.signature))
        return 1
    print('replay: property clause holds on this case now')
    return 0
