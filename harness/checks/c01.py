"""C01 - model-level property decided with spec/ModelBuild.tla (see harness/modelcheck.py)."""
from harness import modelcheck

PROP = 'C01'
PREFIXES = ['C01_']


def run(rep):
    modelcheck.describe(rep, PROP)
    modelcheck.run_property(rep, PROP, PREFIXES)


def replay(path):
    return modelcheck.replay_case(PROP, PREFIXES, path)
