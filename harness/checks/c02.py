"""C02 - whatever the solver returns satisfies the submitted equations.

spec:   spec/Solver.tla (per-period control structure of EquationSolver: BeginStep, Sweep(outcome),
        ExitLoop, RaiseConvergence, RaiseValue, Append, Decorate, Finish; invariant
        C02_SolvedOnlyIfConverged; constant AsFound_NaNExitsLoop = the pinned loop condition
        `relative_error > err_toler`, for which TLC finds overflow -> NaN error -> ExitLoop -> Append)
TLC:    exhaustive check of the control instance (Cap, Horizon <= 2 / 3); every maximal behaviour is
        emitted; the as-found variant must still yield the counterexample
replay: (a) every behaviour is realised as a real equation block (harness/solverkit.scenario: exogenous
        switches select, per period, the chain depth = number of sweeps and one failure mechanism:
        overflow to inf, inf-inf = NaN, expansive oscillation, persistent / transient / late division
        by zero, domain error in the decorative pass, OverflowError), MaxIterations = Cap;
        (b) the named designed systems (x = x*x + 2 with x(0) = 3, x = -2*x + 1, x = exp(x), ...);
        (c) seeded random systems from a grammar with known sup-norm Lipschitz bound (affine rows with
        bounded row sums, abs / max / min, one user function, lags, exogenous paths, alias chains,
        decorative trees), tolerances 1e-3..1e-10 by Err_Tolerance line or ParameterErrorTolerance,
        caps 0..400, reduction on / off.
        All are run on the real EquationSolver exactly as SolveEquation() does (SetInitialConditions,
        SolveStep(1..MaxTime)) with TraceStep = k; user-function systems are observed with a counting
        wrapper instead.  SolveEquation() itself is run as well and must give the same series.
trace:  one Step event per period + Finish, judged by TLC with spec/Solver_Trace.tla (FOCUS = C02).
suite:  thorough tier only - the repository's own test suite is run in a subprocess under
        harness/pytest_harvest.py (SolveEquation wrapped at run time, no repository file touched); every
        solve that returns normally inside a test becomes a Step/Finish trace (sweeps unobserved) and is
        judged with the same clauses; the Lipschitz bound of the residual clause is estimated numerically
        at the solution (sup-norm row sums of the iterated map, doubled); rows calling a user function
        that cannot be re-evaluated are skipped and listed.

Property clauses (only these can raise a violation):
  C02_DivergedNotSolved   no period whose error measure was NaN or whose iterate is not finite is
                          reported as solved (any trace)
  on traces where solving returned normally, for every k >= 1:
  C02_Finite, C02_Residual (|x - f(x)| <= 4 n (1+L) tol max(1, |x|_inf) for every simultaneous
  equation), C02_DecorativeExact, C02_LaggedExact, C02_ExogenousExact (1e-12 relative)
An equation that is undefined at the reported values (ZeroDivisionError / ValueError when evaluated
there) does not hold: C02_Residual / C02_DecorativeExact, signature equation-undefined-at-reported-values.
Behaviours with a persistent evaluation error are realised 6 times: failing equation declared last / first
(= last / not last simultaneous equation) x ZeroDivisionError, ValueError (log10 of 0), user function raising
ValueError; overflowing behaviours with the overflowing variable declared last / first.
Chains of copy variables (spec/SolverChains.tla: v1 = S, v2 = v1, ... in every declaration order, source first /
last, optional derived-only or simultaneous leaf on a link, source changing in every period) are realised and
every copy equation AS SUBMITTED must hold exactly in every period (C02_DecorativeExact).
Tolerances >= 1 (1.0, 2.0, 1e3; block line Err_Tolerance or ParameterErrorTolerance) are part of the grids
and of the control spec (state field `big`, constant AsFound_NoSweepAtBigTolerance, invariant
C02_SolvedOnlyAfterSweep); every Step event carries tol_ge1 and the number of sweeps started (0 = none).
"The magnitude of the values" in the residual bound = max(1, |x_k|_inf, |x_(k-1)|_inf) over the simultaneous
variables (the start iterate counts, as in the solver's own relative test) - the weaker reading.
User functions (spec/SolverFunctions.tla): registered under a plain name, a math-module name, a usable builtin
name or another global name of the solver module; called from a simultaneous row, a derived-only row or both;
the residual / exactness is judged with the function that was registered (it shadows every homonym).
Caller level (spec action Retry, instance MC_Solver_retry.cfg): SolveStep(k) is called again after it raised,
with MaxIterations raised or the tolerance loosened; a period is recorded all-or-nothing (invariant
C02_PeriodAllOrNothing), so the later periods of such a stepping history must satisfy every equation too.
Histories realised: cap too small then raised (solved on the second attempt), expansive then solved at the
loosened tolerance, and failures that fail again the same way.
Scales (spec/SolverScales.tla): quantities at 1e-300 .. 1e100 (constant units or geometric decay) used in a ratio,
with a large coefficient, as a reciprocal, in a growth rate, in a sum; what is reported must be what was solved
(invariant C02_ReportedAsSolved), so every equation holds at the reported values at any scale.
Readings: which equations are "derived-only" is the solver's own classification (Parser.Decoration
after reduction); all others only need the residual bound.  Numeric predicates are computed by the
projection in Fraction arithmetic on the reported floats; the right-hand sides are those submitted.
"""
from harness import core
from harness import solverkit as sk

PROP = 'C02'


def nontrivial(case, events):
    steps = [e for e in events if e['ev'] == 'Step']
    return any((e['exit'] == 'converged' and e['sweeps'] >= 2) or e['errNaN'] or not e['finite'] for e in steps)


def run(rep):
    rep.rule = ('cases = (a) one equation block per maximal behaviour of the bounded Solver instance emitted by TLC, '
                '(b) the named designed systems, (c) seeded random systems with known Lipschitz bound; '
                'distinct = distinct case JSON; non-trivial = some period solved in >= 2 sweeps, or an iterate / '
                'error measure that is not finite')
    rep.exhaustive = False
    rep.assumptions = ['Python float arithmetic of eval() for the right-hand sides (same as the solver); comparisons exact in Fraction',
                       'the error measure of the last sweep is recomputed from the public step trace (the trace shows it only for earlier sweeps)',
                       'systems with user functions are observed without step trace: sweeps = calls of the registered function',
                       'TLC 1.8 / tla2tools']
    sk.expect_counterexample(rep, core, 'MC_Solver_asfound.cfg', 'C02_SolvedOnlyIfConverged')
    if rep.tier == 'thorough':
        sk.expect_counterexample(rep, core, 'MC_Solver_asfound3.cfg', 'C02_SolvedOnlyAfterSweep')
        sk.expect_counterexample(rep, core, 'MC_Solver_seeded_lag.cfg', 'C02_PeriodAllOrNothing')
    behs = sk.tlc_behaviours(rep, core, rep.tier)
    items = [{'case': sk.scenario(b, v), 'behaviour': b} for b in behs if sk.scenario_realisable(b)
             for v in sk.scenario_variants(b)]
    rep.extra['behaviours_replayed'] = sum(1 for b in behs if sk.scenario_realisable(b))
    rep.extra['behaviour_realisations'] = len(items)
    items += forms_items(rep)
    items += chain_items(rep)
    items += function_items(rep)
    items += scale_items(rep)
    items += [{'case': c} for c in sk.classics()]
    n_random = 200 if rep.tier == 'quick' else 5000
    items += [{'case': c} for c in sk.random_cases(rep.seed, n_random, contractive_share=0.4)]
    rep.extra['random_systems'] = n_random
    observed, verdicts = sk.judge_cases(rep, core, 'C02', items, nontrivial)
    rep.extra['returned_normally'] = sum(1 for ev in observed if ev[-1]['returned'])
    rep.extra['user_function_systems'] = sum(1 for it in items if it['case']['funcs'])
    steady_part(rep, [it['case'] for it in items])
    if rep.tier == 'thorough':
        harvest_part(rep)


def forms_items(rep):
    """spec/SolverForms.tla: all shapes "A = <form>(S), U = 0.25*U + <position>(A)" of the bounded instance"""
    if rep.tier == 'thorough':     # (quick: budget) the defective variant of the spec still yields its counterexample
        sk.expect_counterexample(rep, core, 'MC_SolverForms_seeded.cfg', 'C02_IteratedSystemEquivalent', module='MC_SolverForms')
    cfg = 'MC_SolverForms_quick.cfg' if rep.tier == 'quick' else 'MC_SolverForms_thorough.cfg'
    res = core.tlc('MC_SolverForms', cfg, workers=1, tag='c02f')
    if res.violated:
        raise core.MachineryError('spec invariant %s violated in %s' % (res.violated, cfg))
    rep.add_tlc(res, 'exhaustive ' + cfg)
    behs = list({core.canonical(b): b for b in core.json_of_printed(res, 'BEH')}.values())
    if not behs:
        raise core.MachineryError('TLC emitted no behaviours for ' + cfg)
    if rep.tier == 'quick':
        # budget: without reduction, or with an initial condition on the copy, nothing is substituted; every 4th of
        # those shapes is replayed (all of them in the thorough tier)
        behs.sort(key=core.canonical)
        behs = [b for i, b in enumerate(behs) if (b['sys']['red'] and not b['sys']['ic']) or i % 4 == 0]
    rep.extra['form_shapes_replayed'] = len(behs)
    # (the SolveEquation() cross-run is left to the other case families)
    return [{'case': sk.form_case(b), 'behaviour': b, 'whole': False} for b in behs]


def chain_items(rep):
    """spec/SolverChains.tla: chains of copy variables in every declaration order, with leaves"""
    if rep.tier == 'thorough':
        sk.expect_counterexample(rep, core, 'MC_SolverChains_seeded.cfg', 'C02_DecorativeValuesCurrent', module='MC_SolverChains')
    cfg = 'MC_SolverChains_quick.cfg' if rep.tier == 'quick' else 'MC_SolverChains_thorough.cfg'
    res = core.tlc('MC_SolverChains', cfg, workers=1, tag='c02c')
    if res.violated:
        raise core.MachineryError('spec invariant %s violated in %s' % (res.violated, cfg))
    rep.add_tlc(res, 'exhaustive ' + cfg)
    decls = list({core.canonical(b): b for b in core.json_of_printed(res, 'BEH')}.values())
    if not decls:
        raise core.MachineryError('TLC emitted no behaviours for ' + cfg)
    rep.extra['chain_declarations_replayed'] = len(decls)
    return [{'case': sk.chain_case(d), 'behaviour': d, 'whole': False} for d in decls]


def function_items(rep):
    """spec/SolverFunctions.tla: user functions by the class of the name they are registered under"""
    if rep.tier == 'thorough':
        sk.expect_counterexample(rep, core, 'MC_SolverFunctions_seeded.cfg', 'C02_RegisteredFunctionAnswers',
                                 module='MC_SolverFunctions')
    res = core.tlc('MC_SolverFunctions', 'MC_SolverFunctions_quick.cfg', workers=1, tag='c02u')
    if res.violated:
        raise core.MachineryError('spec invariant %s violated in MC_SolverFunctions_quick.cfg' % res.violated)
    rep.add_tlc(res, 'exhaustive MC_SolverFunctions_quick.cfg')
    behs = list({core.canonical(b): b for b in core.json_of_printed(res, 'BEH')}.values())
    if not behs:
        raise core.MachineryError('TLC emitted no behaviours for MC_SolverFunctions_quick.cfg')
    items = [{'case': c, 'behaviour': b} for b in behs for c in sk.function_cases(b)]
    rep.extra['function_behaviours_replayed'] = len(behs)
    rep.extra['function_cases'] = len(items)
    return items


def scale_items(rep):
    """spec/SolverScales.tla: quantities at very small / very large scales, used where they are not negligible"""
    if rep.tier == 'thorough':
        sk.expect_counterexample(rep, core, 'MC_SolverScales_seeded.cfg', 'C02_ReportedAsSolved', module='MC_SolverScales')
    res = core.tlc('MC_SolverScales', 'MC_SolverScales_quick.cfg', workers=1, tag='c02s')
    if res.violated:
        raise core.MachineryError('spec invariant %s violated in MC_SolverScales_quick.cfg' % res.violated)
    rep.add_tlc(res, 'exhaustive MC_SolverScales_quick.cfg')
    decls = list({core.canonical(b): b for b in core.json_of_printed(res, 'BEH')}.values())
    if not decls:
        raise core.MachineryError('TLC emitted no behaviours for MC_SolverScales_quick.cfg')
    rep.extra['scale_declarations_replayed'] = len(decls)
    return [{'case': sk.scale_case(d), 'behaviour': d, 'whole': False} for d in decls]


def steady_part(rep, cases):
    """Whole solves with the initial-steady-state option on (the solver first searches a steady state with a working
    copy at a looser tolerance, then solves): every SolveEquation() that returns normally is judged like a harvested
    solve, at the tolerance the BLOCK states (not the one found on the parser afterwards)."""
    from harness import pytest_harvest as ph
    import warnings
    records, tried = [], 0
    pool = []
    for c in cases:
        if c.get('retry') or c.get('funcs') or not c.get('contractive'):
            continue
        pool.append(c)
        if c['label'].startswith('random'):
            # ... and the same system stating a tolerance far below the one of the search, in its block
            pool.append(dict(c, label=c['label'] + ':tol1e-10', tol_param=None, tol_line='1e-10'))
    for c in pool:
        if c.get('tol_param') is not None or c.get('tol_line') is None:
            continue
        if sk.tolerance_of(c) > 1e-6 or sk.tolerance_of(c) <= 0:
            continue
        tried += 1
        try:
            with warnings.catch_warnings():
                warnings.simplefilter('ignore')
                s = sk._make_solver(c)
                s.ParameterSolveInitialSteadyState = True
                s.SolveEquation()
        except Exception:
            continue           # no steady state / refused: nothing is reported as solved
        ph._STATE['test'] = 'steady-state-option:' + c['label']
        rec = ph._record(s)
        rec['tolerance'] = float(sk.tolerance_of(c))
        records.append(rec)
    rep.extra['steady_option_solves_tried'] = tried
    rep.extra['steady_option_solves_returned'] = len(records)
    if records:
        sk.judge_harvest(rep, core, records)


def harvest_part(rep):
    """code -> spec on the repository's own test suite (thorough tier only): every SolveEquation() that
    returns normally inside a test of the tree under test is harvested by harness/pytest_harvest.py and
    judged with the clauses that hold for ANY equation block."""
    records, wall, tail = sk.run_suite_harvest(core)
    rep.extra['harvest_wall_s'] = round(wall, 2)
    rep.extra['harvest_pytest_summary'] = tail
    rep.extra['harvest_clauses'] = ('evaluated: C02_DivergedNotSolved/C02_Finite, C02_Residual (simultaneous rows, Lipschitz '
                                    'bound = 2 x numeric sup-norm row sum at the solution), C02_DecorativeExact, C02_LaggedExact, '
                                    'C02_ExogenousExact, lengths = horizon + 1 (conformance); not observable on harvested solves: '
                                    'sweeps, error measure, prefix')
    sk.judge_harvest(rep, core, records)


def replay(path):
    import json
    with open(path) as f:
        data = json.load(f)
    if 'harvested' in data['case']:
        rep = core.Report(PROP, 'quick', 0)
        verdicts = sk.judge_harvest(rep, core, [data['case']['harvested']])
        for v in rep.violations:
            print('VIOLATION property=%s replay=%s' % (PROP, path))
            print('  clause=%s signature=%s %s' % (v.clause, v.signature, v.detail))
            return 1
        print('replay: property clause holds on this harvested solve now (verdict %s)' % verdicts[0])
        return 0
    return sk.replay_case(core, PROP, 'C02', path)
