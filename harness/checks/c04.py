"""C04 - model-level property decided with spec/ModelBuild.tla (see harness/modelcheck.py)."""
from harness import modelcheck

PROP = 'C04'
PREFIXES = ['C04_']


def run(rep):
    modelcheck.describe(rep, PROP)
    modelcheck.run_property(rep, PROP, PREFIXES)


def replay(path):
    return modelcheck.replay_case(PROP, PREFIXES, path)
