"""C11 - unsolvable or invalid input fails loudly and in bounded work.

Part 1, the solver (spec/Solver.tla, shared with C02; harness/solverkit.py):
  spec    C11_BoundedSweeps (sweep <= Cap + 1), C11_FailureRaises, C11_NothingSolvedAtCap,
          C11_PrefixIntact, C11_EqualLengthsAfterFailure; constant AsFound_DecorativeAfterAppend = what
          the code does (simultaneous values appended before the decorative values are evaluated)
  replay  every maximal behaviour of the control instance realised as a real equation block
          (MaxIterations = Cap), the named designed systems (expansive, oscillating, overflowing,
          persistent / transient division by zero, domain error in the decorative pass, a failing
          period at k = 1..3 after solvable ones), seeded random systems (general and the contraction
          class of the success direction)
  trace   spec/Solver_Trace.tla with FOCUS = C11
  property clauses
    C11_BoundedSweeps             sweeps started in a period <= cap + 1
    C11_FailureRaises             a failing period ends in a ValueError (incl. ConvergenceError) or an
                                  ArithmeticError (OverflowError / ZeroDivisionError are accepted as loud)
    C11_UnsolvableRaises          no period whose iterate is not finite / whose error measure was NaN is
                                  reported as solved (it did not meet the tolerance, so an error is due)
    C11_PersistentErrorRaises     no period is reported as solved at values where a submitted equation is
                                  undefined (ZeroDivisionError / ValueError when evaluated there): the
                                  arithmetic error persisted, so a ValueError is due
    C11_ToleranceHonoured         no period is reported as solved whose last error measure (recomputed from the
                                  public step trace) exceeds the tolerance that was REQUESTED - solver parameter,
                                  else block line, else 1e-8; including a requested tolerance of exactly 0
                                  (spec: state field zero, outcome "approx", invariant
                                  C11_SolvedOnlyAtRequestedTolerance, instance MC_Solver_zero.cfg)
    C11_PrefixIntact              every entry present before SolveStep(k) is unchanged after it
    C11_EqualLengthsAfterFailure  after the exception all non-exogenous series have equal length
    C11_ContractionSolved         a system generated as a sup-norm contraction (every row sum <= 0.8,
                                  <= 12 rows, |constants| <= 1e3 incl. lag / exogenous contributions,
                                  tolerance >= 1e-8, default cap) is solved

Part 2, invalid input (spec/Reject.tla, spec/Reject_Trace.tla):
  spec    declaration sequences = 0..2 valid declarations, one invalid one, 0..1 (2) valid ones, Main;
          invariant C11_RejectsInvalid (an invalid declaration => error, no numbers)
  replay  world "block": the lines of an equation block for EquationSolver; the invalid line uses a name
          of  keyword.kwlist + dir(builtins) + dir(math) + {k, self, None}  as left-hand side of an
          endogenous / lagged / exogenous line, or a reserved token (same list without dir(math), k and
          the documented usable functions float max min sum pow abs round) on a right-hand side.
          Every name is used in every role; the TLC-generated sequences are rotated over the names.
          Solver options are a dimension of the block world (spec variable opts): default, reduction
          switched off by constructor argument, by attribute, switched on explicitly - invalid names
          must be refused under all of them.
          world "model": Country / Sector / AddVariable calls on a real Model; invalid = duplicate
          country code, duplicate sector code, '__' in a local name, '__' in a sector code, a market
          without / with two candidate suppliers, a cash flow across currencies without ExternalSector;
          configured markets (MarketCfgs: 0..2 local candidates x residual supplier named 0 / 1 / 2 times x
          rule-based supplier none / local candidate / other local sector / foreign sector with the same
          short code / foreign sector with another code): ill-formed iff no residual supplier is named and
          the search does not find exactly one candidate.  Naming the residual supplier twice is an
          override (the last call counts), which the code accepts; the spec classes it as well formed.
  property clause C11_RejectsInvalid: an exception is raised (anywhere up to and including
          ParseString+SolveEquation / Model.main()) and no non-exogenous series has a k >= 1 entry.
          Where the exception comes is conformance only.
"""
import builtins
import json
import keyword
import math

from harness import core
from harness import solverkit as sk

PROP = 'C11'
GOOD_TOKENS = ('float', 'max', 'min', 'sum', 'pow', 'abs', 'round')


# ----------------------------------------------------------------------------------------------
# part 1
# ----------------------------------------------------------------------------------------------

def nontrivial(case, events):
    steps = [e for e in events if e['ev'] == 'Step']
    return any(e['exit'] != 'converged' for e in steps) or (case['contractive'] and events[-1]['returned'])


def liveness_part(rep):
    """'in bounded work' as a liveness property of the design: under weak fairness of the solver's own steps every run
    ends (all periods recorded, or an error raised that no caller retries any more) and stays there.  The hypothetical
    variant without the cap test must give TLC's lasso (a system whose error never meets the tolerance sweeps for ever)."""
    for cfg in ('MC_Solver_live.cfg', 'MC_Solver_live_retry.cfg'):
        res = core.tlc('MC_Solver', cfg, workers=1, tag='c11l', want_printed=False)
        if res.violated:
            raise core.MachineryError('liveness property C11_Terminates violated in %s (%s)' % (cfg, res.violated))
        rep.add_tlc(res, 'liveness (FairSpec, C11_Terminates) ' + cfg)
    sk.expect_counterexample(rep, core, 'MC_Solver_live_nocap.cfg', 'C11_Terminates')


def solver_part(rep):
    liveness_part(rep)
    sk.expect_counterexample(rep, core, 'MC_Solver_asfound2.cfg', 'C11_EqualLengthsAfterFailure')
    if rep.tier == 'thorough':
        sk.expect_counterexample(rep, core, 'MC_Solver_seeded_zero.cfg', 'C11_SolvedOnlyAtRequestedTolerance')
    behs = sk.tlc_behaviours(rep, core, rep.tier)
    items = [{'case': sk.scenario(b, v), 'behaviour': b} for b in behs if sk.scenario_realisable(b)
             for v in sk.scenario_variants(b)]
    rep.extra['behaviours_replayed'] = sum(1 for b in behs if sk.scenario_realisable(b))
    rep.extra['behaviour_realisations'] = len(items)
    items += [{'case': c} for c in sk.classics()]
    n_random = 200 if rep.tier == 'quick' else 5000
    items += [{'case': c} for c in sk.random_cases(rep.seed + 11, n_random, contractive_share=0.6)]
    rep.extra['random_systems'] = n_random
    observed, verdicts = sk.judge_cases(rep, core, 'C11', items, nontrivial)
    rep.extra['contraction_class_systems'] = sum(1 for it in items if it['case']['contractive'])
    rep.extra['failing_runs'] = sum(1 for ev in observed if not ev[-1]['returned'])
    by_exit = {}
    for ev in observed:
        f = sk.failing_step(ev)
        if f is not None:
            by_exit[f['exc_type']] = by_exit.get(f['exc_type'], 0) + 1
    rep.extra['failures_by_exception'] = by_exit
    rep.extra['max_sweeps_contraction_class'] = max(
        [e['sweeps'] for it, ev in zip(items, observed) if it['case']['contractive'] for e in ev if e['ev'] == 'Step'] or [0])


# ----------------------------------------------------------------------------------------------
# part 2
# ----------------------------------------------------------------------------------------------

def name_pools():
    lhs = set(keyword.kwlist) | set(dir(builtins)) | set(dir(math)) | {'k', 'self', 'None'}
    rhs = (set(keyword.kwlist) | set(dir(builtins)) | {'self', 'None'}) - set(GOOD_TOKENS)
    return sorted(lhs), sorted(rhs)


def pool_of(name):
    if name in ('k', 'self', 'None') and name not in keyword.kwlist:
        return 'internal'
    if name in keyword.kwlist:
        return 'keyword'
    if name in dir(builtins):
        return 'builtin'
    return 'math'


def block_text(decls, name):
    endo = ['base = 0.5*base + 1']
    exo = []
    for i, d in enumerate(decls, 1):
        kind = d['kind']
        if kind == 'line_endo':
            endo.append('v%d = 0.5*v%d + %d' % (i, i, i))
        elif kind == 'line_lag':
            endo.append('LAG_b%d = base(k-1)' % i)
        elif kind == 'line_exo':
            exo.append('ex%d = [1.0]*10' % i)
        elif kind == 'reserved_lhs_endo':
            endo.append('%s = 2.0' % name)
        elif kind == 'reserved_lhs_lag':
            endo.append('%s = base(k-1)' % name)
        elif kind == 'reserved_lhs_exo':
            exo.append('%s = [1.0]*10' % name)
        elif kind == 'reserved_rhs':
            endo.append('bad%d = 2 * %s' % (i, name))
        else:
            raise core.MachineryError('unknown block declaration ' + kind)
    return '\n'.join(endo + ['MaxTime = 3', 'exogenous'] + exo)


def has_numbers(solver):
    try:
        ts = solver.TimeSeries
        exo = set(v for v, _ in solver.Parser.Exogenous)
        return any(len(ts[v]) >= 2 for v in ts.keys() if v not in exo)
    except Exception:
        return True


def execute_block(beh, name):
    from sfc_models.equation_solver import EquationSolver
    opts = beh.get('opts', 'default')
    events = [{'ev': 'Begin', 'world': 'block', 'opts': opts}]
    for d in beh['decls']:
        events.append({'ev': 'Declare', 'kind': d['kind'], 'valid': bool(d['valid']), 'raised': False,
                       'cand': 0, 'named': 0, 'rule': 'none'})
    text = block_text(beh['decls'], name)
    # the solver options of the behaviour: reduction switched off / on by constructor argument or attribute
    if opts == 'ctor_reduction_off':
        s = EquationSolver(run_equation_reduction=False)
    elif opts == 'ctor_reduction_on':
        s = EquationSolver(run_equation_reduction=True)
    else:
        s = EquationSolver()
        if opts == 'attr_reduction_off':
            s.RunEquationReduction = False
    raised = False
    what = ''
    try:
        s.ParseString(text)
        s.SolveEquation()
    except Exception as e:
        raised = True
        what = type(e).__name__
    events.append({'ev': 'Main', 'raised': raised, 'numbers': bool(has_numbers(s)), 'exc_type': what})
    return events, text


UU_LOCAL = ['A__B', '__A', 'A__', 'A___B']
UU_SECTOR = ['H__X', 'X__', '__X']


def declare_market(m, c1, hh, cfg):
    """A configured goods market in country C1 (spec/Reject.tla, MarketCfgs): `cand` local sectors carry
    SUP_GOOD, the residual supplier is named `named` times, one rule-based supplier may be added.  The second
    country shares the currency, so a supplier from there needs no ExternalSector."""
    from sfc_models.models import Country
    from sfc_models.sector import Sector, Market
    hh.AddVariable('DEM_GOOD', 'demand for goods', '10.0')
    mk = Market(c1, 'GOOD', 'GOOD')
    cands = []
    for code in ('BUS', 'B2')[:int(cfg['cand'])]:
        b = Sector(c1, code, code)
        b.AddVariable('SUP_GOOD', 'supply of goods', '')
        cands.append(b)
    other = Sector(c1, 'OTH', 'OTH')
    rule = cfg['rule']
    target = None
    if rule in ('foreign_same', 'foreign_diff'):
        c2 = Country(m, 'S1', 'S1', currency=c1.Currency)
        target = Sector(c2, 'BUS' if rule == 'foreign_same' else 'FB', 'foreign business')
    elif rule == 'local_cand':
        target = cands[0]
    elif rule == 'local_other':
        target = other
    # residual supplier named 0, 1 or 2 times (the last call counts)
    pool = cands + [other]
    for i in range(int(cfg['named'])):
        mk.AddSupplier(pool[(int(cfg['named']) - 1 - i) % len(pool)])
    if target is not None:
        mk.AddSupplier(target, '0.25*DEM_GOOD')


def execute_model(beh, variant=0):
    from sfc_models.models import Model, Country
    from sfc_models.sector import Sector, Market
    events = [{'ev': 'Begin', 'world': 'model', 'opts': 'default'}]
    m = Model()
    c1 = Country(m, 'C1', 'C1')
    hh = Sector(c1, 'HH', 'HH')
    program = ["Model(); Country('C1'); Sector(C1,'HH')"]
    stopped = False
    for i, d in enumerate(beh['decls'], 1):
        kind = d['kind']
        raised = False
        what = ''
        try:
            if kind == 'country':
                Country(m, 'K%d' % i, 'K%d' % i)
            elif kind == 'sector':
                Sector(c1, 'S%d' % i, 'S%d' % i)
            elif kind == 'variable':
                hh.AddVariable('V%d' % i, 'a variable', '%d.0' % i)
            elif kind == 'dup_country':
                Country(m, 'C1', 'again')
            elif kind == 'dup_sector':
                Sector(c1, 'HH', 'again')
            elif kind == 'uu_local':
                hh.AddVariable(UU_LOCAL[variant % len(UU_LOCAL)], 'bad', '1.0')
            elif kind == 'uu_sector':
                s = Sector(c1, UU_SECTOR[variant % len(UU_SECTOR)], 'bad')
                s.AddVariable('X', 'x', '1.0')
            elif kind == 'market_no_supplier':
                Market(c1, 'GOOD', 'GOOD')
            elif kind == 'market_two_suppliers':
                Market(c1, 'GOOD', 'GOOD')
                for code in ('B1', 'B2'):
                    b = Sector(c1, code, code)
                    b.AddVariable('SUP_GOOD', 'supply', '<TO BE DETERMINED>')
            elif kind == 'market':
                declare_market(m, c1, hh, d['cfg'])
            elif kind == 'cross_currency_flow':
                c2 = Country(m, 'F1', 'F1', currency='FOR')
                f = Sector(c2, 'HH', 'HH')
                hh.AddVariable('GIFT', 'gift', '1.0')
                m.RegisterCashFlow(hh, f, 'GIFT')
            else:
                raise core.MachineryError('unknown model declaration ' + kind)
        except core.MachineryError:
            raise
        except Exception as e:
            raised = True
            what = type(e).__name__
        program.append(kind if kind != 'market' else 'Market(GOOD): %d local candidates, residual named %dx, rule-based supplier %s' % (
            int(d['cfg']['cand']), int(d['cfg']['named']), d['cfg']['rule']))
        cfg = d.get('cfg') or {'cand': 0, 'named': 0, 'rule': 'none'}
        events.append({'ev': 'Declare', 'kind': kind, 'valid': bool(d['valid']), 'raised': raised, 'exc_type': what,
                       'cand': int(cfg['cand']), 'named': int(cfg['named']), 'rule': cfg['rule']})
        if raised:
            stopped = True          # the user's script ends here
            break
    if not stopped:
        raised = False
        what = ''
        try:
            m.main()
        except Exception as e:
            raised = True
            what = type(e).__name__
        events.append({'ev': 'Main', 'raised': raised, 'numbers': bool(has_numbers(m.EquationSolver)),
                       'exc_type': what})
    return events, '; '.join(program)


def reject_for_tla(events):
    out = []
    for e in events:
        if e['ev'] == 'Begin':
            out.append({'ev': 'Begin', 'world': e['world'], 'opts': e['opts']})
        elif e['ev'] == 'Declare':
            out.append({'ev': 'Declare', 'kind': e['kind'], 'valid': e['valid'], 'raised': e['raised'],
                        'cand': e['cand'], 'named': e['named'], 'rule': e['rule']})
        else:
            out.append({'ev': 'Main', 'raised': e['raised'], 'numbers': e['numbers']})
    return out


def invalid_kind(beh):
    for d in beh['decls']:
        if not d['valid']:
            return d['kind']
    return None


def reject_items(rep, behs):
    """(behaviour, name, variant) triples: every name of the pools in every role, the generated
    sequences rotated over the names; every sequence used at least once."""
    lhs, rhs = name_pools()
    rep.extra['reserved_lhs_names'] = len(lhs)
    rep.extra['reserved_rhs_tokens'] = len(rhs)
    by_kind = {}
    for b in behs:
        by_kind.setdefault((b['world'], invalid_kind(b), b.get('opts', 'default')), []).append(b)
    items = []
    per_name = 1 if rep.tier == 'quick' else 2
    for oi, ((world, kind, opts), bs) in enumerate(sorted(by_kind.items(), key=lambda x: (x[0][0], str(x[0][1]), x[0][2]))):
        bs.sort(key=core.canonical)
        if world == 'block' and kind is not None:
            names = rhs if kind == 'reserved_rhs' else lhs
            # every name in every role under the default options; under each non-default solver option every
            # name (thorough) / every third name, a different third per option and role (quick)
            if opts != 'default' and rep.tier == 'quick':
                names = names[oi % 3::3]
            n = max(len(names) * per_name, len(bs) if opts == 'default' else 0)
            for j in range(n):
                items.append({'behaviour': bs[(j * 7 + j // len(bs)) % len(bs)], 'name': names[j % len(names)],
                              'variant': 0})
        elif world == 'block':
            for b in bs:
                items.append({'behaviour': b, 'name': None, 'variant': 0})
        else:
            for j, b in enumerate(bs):
                items.append({'behaviour': b, 'name': None, 'variant': j})
    return items


def run_reject_item(it):
    b = it['behaviour']
    if b['world'] == 'block':
        return execute_block(b, it['name'])
    return execute_model(b, it['variant'])


def reject_signature(it, events):
    kind = invalid_kind(it['behaviour'])
    if kind == 'market':
        cfg = [d for d in it['behaviour']['decls'] if d['kind'] == 'market'][0]['cfg']
        kind = 'market-%s-rule-%s' % ('no-candidate' if cfg['cand'] == 0 else 'two-candidates-none-named', cfg['rule'])
    main = [e for e in events if e['ev'] == 'Main']
    how = 'numbers-produced' if (main and main[-1]['numbers']) else 'no-exception'
    if it['name'] is not None:
        opts = it['behaviour'].get('opts', 'default')
        if opts in ('ctor_reduction_off', 'attr_reduction_off'):
            return 'invalid-accepted:reserved-name:%s:reduction-off' % how
        return 'invalid-accepted:%s:%s:%s' % (kind, pool_of(it['name']), how)
    return 'invalid-accepted:%s:%s' % (kind, how)


def judge_reject(rep, items):
    traces = []
    observed = []
    for i, it in enumerate(items):
        ev, text = run_reject_item(it)
        observed.append((ev, text))
        traces.append((i, reject_for_tla(ev)))
    verdicts, st, tr = core.validate_traces('MC_Reject_Trace', 'MC_Reject_Trace.cfg', traces, tag='c11r')
    rep.traces += len(traces)
    rep.extra['trace_validation_states'] = rep.extra.get('trace_validation_states', 0) + st
    for i, it in enumerate(items):
        ev, text = observed[i]
        case = {'declarations': it['behaviour'], 'name': it['name'], 'variant': it['variant'], 'text': text}
        if i < 2:
            case['observed'] = ev
        rep.add_case(case, invalid_kind(it['behaviour']) is not None)
        v = verdicts[i]
        if v == 'ok:':
            continue
        kind, clause = v.split(':', 1)
        stored = {'reject': it, 'text': text, 'observed': ev}
        if kind == 'property':
            rep.violate(clause, reject_signature(it, ev), stored, detail='%s | %s' % (
                text.replace('\n', '; ')[:200], json.dumps([e for e in ev if e['ev'] != 'Begin'])[:300]))
        else:
            rep.add_drift(clause, stored)
    return observed, verdicts


def reject_part(rep):
    cfg = 'MC_Reject_quick.cfg' if rep.tier == 'quick' else 'MC_Reject_thorough.cfg'
    res = core.tlc('MC_Reject', cfg, workers=1, tag='c11r')
    if res.violated:
        raise core.MachineryError('spec invariant %s violated in %s' % (res.violated, cfg))
    rep.add_tlc(res, 'exhaustive ' + cfg)
    behs = list({core.canonical(b): b for b in core.json_of_printed(res, 'BEH')}.values())
    if not behs:
        raise core.MachineryError('TLC emitted no behaviours for ' + cfg)
    rep.extra['declaration_sequences'] = len(behs)
    items = reject_items(rep, behs)
    rep.extra['declaration_runs'] = len(items)
    judge_reject(rep, items)


def run(rep):
    rep.rule = ('solver cases = one equation block per maximal behaviour of the bounded Solver instance emitted by TLC + '
                'the named designed systems + seeded random systems (60% from the contraction class); non-trivial = a '
                'period failed, or a contraction-class system was solved. Declaration cases = the maximal sequences of '
                'the bounded Reject instance emitted by TLC, instantiated with every reserved name in every role and '
                'with the model-level invalid declarations; non-trivial = the sequence contains the invalid declaration. '
                'distinct = distinct case JSON')
    rep.exhaustive = False
    rep.assumptions = ['reserved names are those of the running interpreter (Python 3.12: keyword.kwlist, dir(builtins), dir(math))',
                       'sweeps are observed through the public step trace (TraceStep = k), for user-function systems through a counting wrapper',
                       'an OverflowError / ZeroDivisionError that ends solving counts as loud (ArithmeticError)',
                       'TLC 1.8 / tla2tools']
    solver_part(rep)
    reject_part(rep)


def replay(path):
    with open(path) as f:
        data = json.load(f)
    stored = data['case']
    if 'reject' not in stored:
        return sk.replay_case(core, PROP, 'C11', path)
    rep = core.Report(PROP, 'quick', 0)
    observed, verdicts = judge_reject(rep, [stored['reject']])
    print(observed[0][1])
    print(json.dumps({'observed_now': observed[0][0]}, indent=1))
    for v in rep.violations:
        print('VIOLATION property=%s replay=%s' % (PROP, path))
        print('  clause=%s signature=%s' % (v.clause, v.signature))
        return 1
    print('replay: property clause holds on this case now (verdict %s)' % verdicts[0])
    return 0
