"""C06 - sector ledgers reflect exactly the cash flows recorded on them.

spec:   spec/Sector.tla (actions AddVariable, AddVarFromEqn, AddTerm (AddTermToEquation), SetRHS, Exclude, AddCashFlow; invariants C06_F,
        C06_INC, C06_DefineOnce stated over the history `log`)
TLC:    exhaustive check of the bounded instances; every maximal behaviour is emitted as the list
        of its action keys, the alphabet (key -> action record) once
          quick     MC_Sector_quick.cfg      26 actions, histories of length 3
          thorough  the quick instance, and
                    MC_Sector_thorough.cfg   60 actions, length 3
                    MC_Sector_thorough2.cfg  20 actions, length 4
                    MC_Sector_thorough3.cfg  all 310 actions of the instance, length 2
        flow terms: names A, B, products A*B, B*A, quotients A/B, B/A (A/B and B/A are different flows),
        a name with a numeric factor 2*A, A*2, A/2, 2/A, decorated names of another sector's variable
        OTHER__A, _7__A (not the local A: exclusions match the whole name); each under the sign / bracket spellings
replay: each behaviour is executed on a fresh real Sector 'S' inside a fresh real Model / Country C1;
        two more sectors only receive the exclusions that must not concern S: the twin 'T' = a
        Sector with the SAME Code 'S' in a second Country C2 of the same Model (exclusions are per
        sector object, codes are unique only within a country), and 'O' = another Code in C1; after every
        call EquationBlock['F'].RHS() and ['INC'].RHS() are evaluated by Python on the two integer
        valuations of the spec (LAG_F has a value), and the RHS text class of each flow variable
        (absent / empty / zero / defined:<text>, plus the value of the text) is recorded
trace:  TLC validates the recorded executions against Sector_Trace (same operators) and gives one
        total verdict per behaviour

Readings (the weaker one is used wherever the statement allows two):
* "not excluded for that sector" = not excluded at the time of registration; an exclusion declared
  after the flow does not reach back (DESIGN.md section 6 C06).
* "defining expression" = a non-empty, non-zero expression (D1, D2).  AddCashFlow(term, eqn='') is
  generated, but only "no existing definition is overwritten" is demanded of it; what it does to
  an absent / empty variable is a conformance clause (drift), not a property clause.
* "empty / identically zero" are the library's placeholder spellings '' and '0.0'.  Real definitions
  are generated in several spellings, among them texts that begin like a zero literal ('0.5*Z', '0.25',
  '0.0+0.25*W'): they must never be overwritten.  The zero spellings '0' and '0.' are generated too, but
  the statement can be read either way for them, so AddCashFlow may keep or replace them (property);
  that the code keeps them is a conformance clause.
* "existing definition" / "identically zero" refer to the variable's whole right-hand side: a placeholder
  that got terms by AddTermToEquation is a definition, a term-by-term definition that cancelled is zero.
* definitions are compared by value on the two valuations (text only when not evaluable); the text
  itself is a conformance clause.
* a call that raises is drift (`call_raised`); the ledgers it leaves behind are still judged against
  the history that includes the requested registration.
"""
import concurrent.futures
import fractions
import json
import re

from harness import core

# = Vals of Sector.tla.  Ledger values are rational (quotient flows): they are logged K-fold, as exact integers.
ENVS = [dict(A=12, B=-5, LAG_F=1009, OTHER__A=37, _7__A=-23, Z=3, W=8),
        dict(A=-15, B=4, LAG_F=-1013, OTHER__A=-41, _7__A=29, Z=-4, W=-6)]
SCALE = 60
DEF_SCALE = 4        # definition texts (coefficients 0.5, 0.25) are logged 4-fold = DenDef of Sector.tla
FLOW_NAMES = ('A', 'B')
WHO = {'S': 'C1_S', 'T': 'C2_S(twin: same Code, other Country)', 'O': 'C1_O'}
BATCH = 32000        # behaviours executed and validated per round (bounds memory; 8 TLC jobs of 4000)


def term_text(a):
    x = a['eqn'] if a['op'] == 'AT' else a['body']      # AddTermToEquation: the name added is in `eqn`
    return a['s1'] + ('(' + a['s2'] + x + ')' if a['br'] else x)


def show(a):
    """short human-readable spelling of an action"""
    if a['op'] == 'CF':
        return "AddCashFlow('%s'%s%s)" % (term_text(a), (", eqn='%s'" % a['eqn']) if a['he'] else '',
                                         '' if a['inc'] else ', is_income=False')
    if a['op'] == 'AV':
        return "AddVariable('%s','','%s')" % (a['body'], a['eqn'])
    if a['op'] == 'SR':
        return "SetEquationRightHandSide('%s','%s')" % (a['body'], a['eqn'])
    if a['op'] == 'AT':
        return "AddTermToEquation('%s','%s')" % (a['body'], term_text(a))
    if a['op'] == 'AQ':
        return "AddVariableFromEquation(Equation('%s'))" % a['body']
    return "AddCashFlowIncomeExclusion(%s,'%s')" % (WHO[a['who']], a['body'])


_CODE_CACHE = {}


_NUMBER = re.compile(r'(?<![\w.])(\d+\.?\d*(?:[eE][-+]?\d+)?|\.\d+(?:[eE][-+]?\d+)?)(?![\w.])')


def evaluate(text, scale=1):
    """-> (ok, [int, int]): `scale` times the value of an expression text on the two valuations, computed in
    exact rational arithmetic (numeric literals and variables are Fractions); not ok when the text cannot be
    evaluated, or scale * value is not an integer that fits TLC's 32-bit integers"""
    vals = []
    try:
        code = _CODE_CACHE.get(text)
        if code is None:
            code = compile(_NUMBER.sub(lambda m: "Fr('%s')" % m.group(1), text), '<rhs>', 'eval')
            if len(_CODE_CACHE) < 100000:
                _CODE_CACHE[text] = code
        for env in ENVS:
            scope = {k: fractions.Fraction(v) for k, v in env.items()}
            scope['Fr'] = fractions.Fraction
            v = eval(code, {'__builtins__': {}}, scope)
            if isinstance(v, bool) or not isinstance(v, (int, fractions.Fraction)):
                return False, [0, 0]
            q = fractions.Fraction(v) * scale
            if q.denominator != 1 or abs(q.numerator) >= 2 ** 31:
                return False, [0, 0]
            vals.append(int(q.numerator))
    except Exception:
        return False, [0, 0]
    return True, vals


def check_separation(norm=8):
    """Reproduces the separation claim of Sector.tla (not run by the check): enumerates every difference d of
    ledger coefficient vectors over the twelve bodies and LAG_F with sum |d_i| <= norm and returns those that
    vanish under both valuations without being the zero flow value identically (expected: [])."""
    Fr = fractions.Fraction
    cols = []
    for env in ENVS:
        A, B, L = Fr(env['A']), Fr(env['B']), Fr(env['LAG_F'])
        cols.append([int(x * SCALE) for x in (A, B, A * B, B * A, A / B, B / A, 2 * A, A * 2, A / 2, 2 / A, L,
                                              Fr(env['OTHER__A']), Fr(env['_7__A']))])
    n, d, bad = len(cols[0]), [0] * 13, []

    def rec(i, left, s0, s1):
        if i == n:
            dA, dB, dAB, dBA, dAoB, dBoA, d2A, dA2, dAh, d2oA, dL, dP, dQ = d
            same = (2 * dA + 4 * d2A + 4 * dA2 + dAh == 0 and dAB + dBA == 0
                    and not (dB or dAoB or dBoA or d2oA or dL or dP or dQ))
            if s0 == 0 and s1 == 0 and not same:
                bad.append(list(d))
            return
        for c in range(-left, left + 1):
            d[i] = c
            rec(i + 1, left - abs(c), s0 + c * cols[0][i], s1 + c * cols[1][i])
        d[i] = 0

    rec(0, norm, 0, 0)
    return bad


def observe(sec, verbose=False, own_prefix=None):
    """own_prefix: the sector's full-code prefix ('C1_S__') that main() puts in front of the sector's own names; the
    registered route (execute_registered) observes after main() and reads the ledgers in the sector's local names"""
    out = {}
    for key, name in (('F', 'F'), ('INC', 'INC')):
        okk = 'okF' if key == 'F' else 'okI'
        try:
            text = sec.EquationBlock[name].RHS()
            if own_prefix:
                text = text.replace(own_prefix, '')
            ok, vals = evaluate(text, SCALE)
        except Exception as e:
            text, ok, vals = 'EXC ' + type(e).__name__, False, [0, 0]
        out[okk], out[key] = ok, vals
        if verbose:
            out[key + '_text'] = text
    defs = {}
    for n in FLOW_NAMES:
        try:
            if n not in sec.GetVariables():
                defs[n] = {'k': 'absent', 'd': '', 'v': [0, 0], 'e': True}
                continue
            rhs = sec.EquationBlock[n].RHS()
            if own_prefix:
                rhs = rhs.replace(own_prefix, '').replace(' ', '')    # main() re-tokenises the definition
            if rhs == '':
                defs[n] = {'k': 'empty', 'd': '', 'v': [0, 0], 'e': True}
            elif rhs == '0.0':
                defs[n] = {'k': 'zero', 'd': '', 'v': [0, 0], 'e': True}
            else:
                ok, vals = evaluate(rhs, DEF_SCALE)
                defs[n] = {'k': 'defined', 'd': rhs, 'v': vals, 'e': ok}
        except Exception as e:
            defs[n] = {'k': 'defined', 'd': 'EXC ' + type(e).__name__, 'v': [0, 0], 'e': False}
    out['defs'] = defs
    return out


def execute(beh, verbose=False):
    """Run one behaviour (list of action records) on fresh real objects; returns the trace events."""
    from sfc_models.models import Model, Country
    from sfc_models.sector import Sector
    from sfc_models.equation import Equation
    mod = Model()
    country = Country(mod, 'C1', 'Country C1')
    country2 = Country(mod, 'C2', 'Country C2')
    sec = Sector(country, 'S', 'Sector S')
    targets = {'S': sec,
               'T': Sector(country2, 'S', 'Sector S of the second country'),    # same Code, other object
               'O': Sector(country, 'O', 'Sector O')}
    events = []
    for a in beh:
        ev = {'ev': 'Do', 'a': a, 'ok': True}
        try:
            if a['op'] == 'CF':
                if a['he']:
                    sec.AddCashFlow(term_text(a), eqn=a['eqn'], is_income=a['inc'])
                else:
                    sec.AddCashFlow(term_text(a), is_income=a['inc'])
            elif a['op'] == 'AV':
                sec.AddVariable(a['body'], '', a['eqn'])
            elif a['op'] == 'SR':
                sec.SetEquationRightHandSide(a['body'], a['eqn'])
            elif a['op'] == 'AT':
                sec.AddTermToEquation(a['body'], term_text(a))
            elif a['op'] == 'AQ':
                sec.AddVariableFromEquation(Equation(a['body']))
            elif a['op'] == 'EX':
                mod.AddCashFlowIncomeExclusion(targets[a['who']], a['body'])
            else:
                raise core.MachineryError('unknown action %r' % (a,))
        except core.MachineryError:
            raise
        except Exception as e:
            ev['ok'] = False
            if verbose:
                ev['exc'] = '%s: %s' % (type(e).__name__, e)
        ev.update(observe(sec, verbose))
        events.append(ev)
    return events


_REGISTERED_SEEN = set()


def registrable(beh):
    """histories that can also be stated through the model: the flow variable is declared first (with a definition),
    every later call pays that variable out of the sector"""
    if len(beh) < 2 or beh[0]['op'] != 'AV' or beh[0]['eqn'] in ('', '0'):
        return False
    return all(a['op'] == 'CF' and a['s1'] == '-' and not a['br'] and not a['he'] and a['body'] == beh[0]['body']
               for a in beh[1:])


def execute_registered(beh, verbose=False):
    """The same history stated through Model.RegisterCashFlow (source = the sector, target = sector O) and booked by
    main(): one fresh model per prefix, the sector's ledgers read after main() in its local names.  Two equal
    registrations are two flows (C06: repeated flows accumulate)."""
    from sfc_models.models import Model, Country
    from sfc_models.sector import Sector
    import warnings
    events = []
    for n in range(1, len(beh) + 1):
        mod = Model()
        country = Country(mod, 'C1', 'Country C1')
        sec = Sector(country, 'S', 'Sector S')
        other = Sector(country, 'O', 'Sector O')
        ev = {'ev': 'Do', 'a': beh[n - 1], 'ok': True}
        for a in beh[:n]:
            if a['op'] == 'AV':
                sec.AddVariable(a['body'], '', a['eqn'])
            else:
                mod.RegisterCashFlow(sec, other, a['body'], is_income_source=a['inc'], is_income_dest=a['inc'])
        mod.MaxTime = 2
        try:
            with warnings.catch_warnings():
                warnings.simplefilter('ignore')
                mod.main()
        except Exception as e:      # the definitions name variables nobody declares: the solver refuses, the ledgers exist
            if verbose:
                ev['main'] = '%s: %s' % (type(e).__name__, e)
        if n == 1:
            # nothing is registered yet: the state after AddVariable is the one the direct route observes
            mod2 = Model()
            sec2 = Sector(Country(mod2, 'C1', 'Country C1'), 'S', 'Sector S')
            sec2.AddVariable(beh[0]['body'], '', beh[0]['eqn'])
            ev.update(observe(sec2, verbose))
        else:
            ev.update(observe(sec, verbose, own_prefix=sec.GetVariableName('F')[:-1]))
        events.append(ev)
    return events


def judge_registered(rep, behs):
    part, seen = [], _REGISTERED_SEEN
    for b in behs:
        for n in range(len(b), 1, -1):       # the longest prefix that can be stated through the model
            if registrable(b[:n]):
                k = '|'.join(show(a) for a in b[:n])
                if k not in seen:
                    seen.add(k)
                    part.append(b[:n])
                break
    if not part:
        return
    traces = [(i, execute_registered(b)) for i, b in enumerate(part)]
    verdicts, st, tr = core.validate_traces('MC_Sector_Trace', 'MC_Sector_Trace.cfg', traces, tag='c06r')
    rep.traces += len(part)
    rep.extra['registered_route_histories'] = rep.extra.get('registered_route_histories', 0) + len(part)
    rep.extra['trace_validation_states'] = rep.extra.get('trace_validation_states', 0) + st
    for i, b in enumerate(part):
        v = verdicts[i]
        if v == 'ok:':
            continue
        kind, clause = v.split(':', 1)
        clause, _, at = clause.partition('@')
        obs = execute_registered(b, verbose=True)
        case = {'behaviour': b, 'route': 'registered', 'spelled': ['Model.RegisterCashFlow route: ' + show(a) for a in b],
                'observed': obs}
        if kind == 'property':
            rep.violate(clause, clause + ':registered:' + str(len(b)), case,
                        detail='history stated through Model.RegisterCashFlow + main(): %s; observed %s' % (
                            '; '.join(show(a) for a in b), json.dumps(brief(obs))[:600]))
        else:
            rep.add_drift(clause, case)


def spelling(a):
    """sign / bracket form of a flow term with the body reduced to n(ame) / p(roduct) / q(uotient) / numeric factor 2*n, n*2, n/2, 2/n"""
    body = a['body']
    kind = ('n' if body in FLOW_NAMES else 'decorated' if '__' in body
            else body.replace('A', 'n') if '2' in body      # 2*n, n*2, n/2, 2/n
            else 'q' if '/' in body else 'p')
    return a['s1'] + ('(' + a['s2'] + kind + ')' if a['br'] else kind)


def signature(clause, beh, events, at):
    """names what fails: the clause plus the situation of the first call it fails at (call number
    `at`, 1-based, from TLC's verdict) - not the whole history, so that one root cause has one name"""
    at = min(max(at, 1), len(beh))
    a = beh[at - 1]
    before = beh[:at - 1]
    if clause in ('C06_F', 'C06_INC'):
        tag = 'f' if clause == 'C06_F' else 'inc'
        e = events[at - 1]
        if not (e['okF'] if clause == 'C06_F' else e['okI']):
            return tag + ':rhs-not-evaluable-after-' + a['op']
        if a['op'] != 'CF':
            return tag + ':changed-by-' + a['op']
        rep = int(any(b['op'] == 'CF' and b['body'] == a['body'] for b in before))
        swapped = {'A*B': 'B*A', 'B*A': 'A*B', 'A/B': 'B/A', 'B/A': 'A/B'}.get(a['body'])
        swp = int(any(b['op'] == 'CF' and b['body'] == swapped for b in before))     # factors in the other order
        if clause == 'C06_F':
            return 'f:term=%s:repeat=%d:other-order-before=%d' % (spelling(a), rep, swp)
        ex = {w: int(any(b['op'] == 'EX' and b['who'] == w and b['body'] == a['body'] for b in before))
              for w in ('S', 'T', 'O')}
        sig = 'inc:term=%s:income=%d:excludedS=%d:excludedTwin=%d:excludedO=%d:repeat=%d:other-order-before=%d' % (
            spelling(a), int(a['inc']), ex['S'], ex['T'], ex['O'], rep, swp)
        if '__' in a['body']:       # another sector's variable: is its local part excluded for S?
            local = a['body'].split('__')[-1]
            sig += ':local-part-excludedS=%d' % int(any(
                b['op'] == 'EX' and b['who'] == 'S' and b['body'] == local for b in before))
        return sig
    if clause == 'C06_DefineOnce':
        prev = events[at - 2]['defs'] if at >= 2 else {n: {'k': 'absent'} for n in FLOW_NAMES}
        own = prev.get(a['body'], {'k': 'n/a'})['k']
        eq = ('none' if not a['he'] else 'empty' if a['eqn'] == '' else 'zero' if a['eqn'] == '0.0' else 'expr')
        if own == 'defined':
            text = prev[a['body']].get('d', '')
            own = 'defined(' + ('zero-literal-prefix' if text[:1] == '0' else 'other') + ')'
        others = sorted(set(prev[n]['k'] for n in FLOW_NAMES if n != a['body']))
        built = int(any(b['op'] == 'AT' and b['body'] == a['body'] for b in before))
        return 'define:flow-var=%s:eqn=%s:others=%s:built-with-AddTermToEquation=%d' % (own, eq, '+'.join(others), built)
    return clause + ':' + a['op']


def brief(events):
    """compact rendering of observed events for samples / details"""
    out = []
    for e in events:
        d = {'F': e.get('F_text'), 'F_vals': e['F'], 'INC': e.get('INC_text'), 'INC_vals': e['INC'],
             'defs': {n: (x['k'] + (':' + x['d'] if x['k'] == 'defined' else '')) for n, x in e['defs'].items()}}
        if not e['ok']:
            d['raised'] = e.get('exc', True)
        out.append(d)
    return out


def nontrivial(beh):
    return any(a['op'] == 'CF' for a in beh)


def judge(rep, behs):
    """behs: list of behaviours (lists of action records).  Executes them on the real code in batches;
    TLC validates batch n (subprocesses) while batch n+1 is being executed."""
    pending = None
    with concurrent.futures.ThreadPoolExecutor(max_workers=1) as pool:
        for lo in range(0, len(behs), BATCH):
            part = behs[lo:lo + BATCH]
            traces = []
            for i, b in enumerate(part):
                traces.append((lo + i, execute(b)))
                if len(rep.samples) < 3:
                    rep.add_case({'history': [show(a) for a in b], 'observed': brief(execute(b, verbose=True))},
                                 nontrivial(b))
                else:
                    rep.add_case([show(a) for a in b], nontrivial(b))
            fut = pool.submit(core.validate_traces, 'MC_Sector_Trace', 'MC_Sector_Trace.cfg', traces, tag='c06')
            del traces
            if pending is not None:
                settle(rep, *pending)
            pending = (fut, lo, part)
        if pending is not None:
            settle(rep, *pending)


def settle(rep, fut, lo, part):
    verdicts, st, tr = fut.result()         # re-raises a MachineryError of the validation
    rep.traces += len(part)
    rep.extra['trace_validation_states'] = rep.extra.get('trace_validation_states', 0) + st
    for i, b in enumerate(part):
        v = verdicts[lo + i]
        if v == 'ok:':
            continue
        kind, clause = v.split(':', 1)
        clause, _, at = clause.partition('@')
        at = int(at) if at.isdigit() else len(b)
        obs = execute(b, verbose=True)
        obs, b = obs[:at], b[:at]      # the verdict at call `at` depends on this prefix only
        case = {'behaviour': b, 'spelled': [show(a) for a in b], 'observed': obs}
        if kind == 'property':
            rep.violate(clause, signature(clause, b, obs, at), case,
                        detail='at call %d of history %s; observed %s' % (
                            at, '; '.join(show(a) for a in b), json.dumps(brief(obs))[:600]))
        else:
            rep.add_drift(clause, case)


def behaviours_of(res, cfg):
    alpha = core.json_of_printed(res, 'ALPHA')
    if len(alpha) != 1 or not alpha[0]:
        raise core.MachineryError('TLC did not print the alphabet exactly once for ' + cfg)
    table = {}
    for ent in alpha[0]:
        if ent['key'] in table:
            raise core.MachineryError('action key %s is not unique in %s' % (ent['key'], cfg))
        table[ent['key']] = ent['a']
    behs = []
    histories = {()}
    for keys in core.json_of_printed(res, 'BEH'):
        try:
            behs.append([table[k] for k in keys])
        except KeyError as e:
            raise core.MachineryError('behaviour uses unknown action key %s in %s' % (e, cfg))
        for n in range(1, len(keys) + 1):
            histories.add(tuple(keys[:n]))
    # a state of Sector is a history; every history extends to a maximal one, so the prefixes of the
    # emitted behaviours must be exactly the distinct states TLC found (nothing lost on the way here)
    if len(histories) != res.distinct:
        raise core.MachineryError('%s: %d distinct states but the emitted behaviours have %d prefixes' % (
            cfg, res.distinct, len(histories)))
    return behs, len(table)


def run(rep):
    if rep.tier == 'quick':
        cfgs = [('MC_Sector_quick.cfg', 1)]
    else:
        cfgs = [('MC_Sector_quick.cfg', 1), ('MC_Sector_thorough.cfg', 1), ('MC_Sector_thorough2.cfg', 1), ('MC_Sector_thorough3.cfg', 1)]
    rep.rule = ('behaviours = all maximal histories (length MaxLen) of the bounded Sector instances emitted by TLC '
                'over their action alphabets (AddCashFlow spellings x income flag x defining expression, Exclude for '
                'this sector / its same-Code twin in a second country / another sector, AddVariable, AddVariableFromEquation, AddTermToEquation, SetEquationRightHandSide); each replayed on a fresh real '
                'Model/Country/Sector; distinct = distinct call sequences; non-trivial = at least one AddCashFlow')
    rep.exhaustive = True
    rep.assumptions = ['ledger values are computed in exact rational arithmetic and compared (60-fold, as integers) on two '
                       'fixed valuations; they tell apart any two ledgers whose coefficient vectors differ by at most 8 '
                       'in sum of absolute values and that are not the same flow value identically (enumerated: '
                       'check_separation); definition values 4-fold on two integer valuations',
                       '"not excluded" is read as not excluded at the time of registration (weaker reading)',
                       "empty / identically zero = the placeholder spellings '' and '0.0'; nothing is demanded of AddCashFlow about "
                       "an existing '0' / '0.'; every other text (also one beginning like a zero literal) is a definition",
                       'defining expressions are supplied for single-name flows only',
                       'TLC 1.8 / tla2tools; Python eval of the rendered right-hand sides']
    seen = set()
    for cfg, workers in cfgs:
        res = core.tlc('MC_Sector', cfg, workers=workers, tag='c06')
        if res.violated:
            raise core.MachineryError('spec invariant %s violated in %s' % (res.violated, cfg))
        behs_all, n_alpha = behaviours_of(res, cfg)
        rep.add_tlc(res, 'exhaustive %s (alphabet of %d actions)' % (cfg, n_alpha))
        res.stdout = ''
        res.printed = []
        behs = []
        for b in behs_all:
            k = '|'.join(show(a) for a in b)
            if k not in seen:
                seen.add(k)
                behs.append(b)
        del behs_all
        if not behs and not seen:
            raise core.MachineryError('TLC emitted no behaviours for ' + cfg)
        judge(rep, behs)
        judge_registered(rep, behs)


def replay(path):
    with open(path) as f:
        data = json.load(f)
    beh = data['case']['behaviour']
    rep = core.Report('C06', 'quick', 0)
    if data['case'].get('route') == 'registered':
        judge_registered(rep, [beh])
        print(json.dumps({'history': [show(a) for a in beh], 'observed_now': execute_registered(beh, verbose=True)}, indent=1))
    else:
        judge(rep, [beh])
        print(json.dumps({'history': [show(a) for a in beh], 'observed_now': execute(beh, verbose=True)}, indent=1))
    for v in rep.violations:
        print('VIOLATION property=C06 replay=%s' % path)
        print('  clause=%s signature=%s' % (v.clause, v.signature))
        return 1
    print('replay: property clause holds on this case now')
    return 0
