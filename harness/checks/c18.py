"""C18 - codes are labels: renaming and embedding leave an economy unchanged.

spec:   ModelBuild.tla never refers to a literal code: every name is built from the blueprint's codes, so the
        blueprint family contains renamed twins (SIMR, SIMEXR: other sector / goods / labour codes through the
        constructor parameters) and joint models of two economies with different currencies (JOIN2, JOIN2X with an
        unused external sector); TLC checks every ModelBuild invariant on them plus C18_ZoneIsolation (no definition
        of one zone refers to a variable of another zone unless a flow or supplier was declared).
replay: (a) renaming: for sampled (blueprint, order) behaviours the construction script is rebuilt twice with the
        real classes - as generated, and with an injective renaming of country codes, government / household / firm /
        tax-flow sector codes and goods / labour market codes applied through the constructor parameters; both are
        solved exactly and compared variable by variable under the renaming (observed vs observed).
        (b) embedding: pairs / triples of single-currency economies are built alone and together in one model (with
        and without an unused ExternalSector) and compared under the documented country-code prefix; the joint
        model's dependency graph is checked for cross-zone references.
trace:  ModelBuild_Trace judges the Compare events (property clauses C18_*).

Scope decisions (DESIGN section 6 C18): the government classes take no good name; when goods are renamed the
government's demand is declared through AddVariable('DEM_<good>') in the renamed build, and the government's two
hard-wired bookkeeping variables (DEM_GOOD, PRIM_BAL) are left out of the comparison.  Currency names and the codes of
money / deposit markets are not renamed (the statement lists countries, sectors and goods/labour markets).
"""
import copy
import json
import random
import re

from harness import core, modelcheck

PROP = 'C18'
GOV_KINDS = ('ConsolidatedGovernment', 'DoNothingGovernment', 'Treasury', 'GoldStandardGovernment')
RENAMABLE = ('ConsolidatedGovernment', 'DoNothingGovernment', 'Treasury', 'CentralBank', 'Household',
             'HouseholdWithExpectations', 'Capitalists', 'FixedMarginBusiness', 'FixedMarginBusinessSub',
             'FixedMarginBusinessMultiOutput',
             'TaxFlow', 'Market', 'Sector')

POOL_SECTOR = ['GOVT', 'HOUSE_1', 'HOUSE', 'FIRM', 'FIRM_B', 'TX', 'RENTIER', 'CBANK', 'Tre_asury', 'xx', 'Q7', 'ZED_9_q']
POOL_MARKET = ['WIDGET', 'WID_GET', 'WORK', 'WORK_2', 'APPLE', 'PEAR_x', 'L', 'G2']
POOL_COUNTRY = ['AA', 'AA_B', 'ZZ', 'Z', 'Z_9', 'QQ_Q', 'K9']


def make_renaming(prog, rnd):
    """injective renaming of the codes that occur in the program"""
    countries = [st['code'] for st in prog if st['op'] == 'Country']
    sectors, markets = [], []
    for st in prog:
        if st['op'] == 'Sector' and st['kind'] in RENAMABLE:
            (markets if st['kind'] == 'Market' else sectors).append(st['code'])
        if st['op'] == 'Sector':
            a = st.get('args') or {}
            for key in ('consumption_good_name', 'labour_name', 'labour_input_name', 'output_name'):
                if key in a:
                    markets.append(a[key])
    sectors = sorted(set(sectors))
    markets = sorted(set(markets))
    rho = {}
    ps, pm, pc = POOL_SECTOR[:], POOL_MARKET[:], POOL_COUNTRY[:]
    rnd.shuffle(ps)
    rnd.shuffle(pm)
    rnd.shuffle(pc)
    for c in sorted(set(countries)):
        rho[c] = pc.pop()
    for s in sectors:
        rho[s] = ps.pop()
    for m in markets:
        if m not in rho:
            rho[m] = pm.pop()
    # market codes that extend one another after an underscore, at the end (GOOD / HOURS_GOOD: the supply variable of
    # one market ends like the supply variable of the other) or at the front (WORK / WORK_2), in two thirds of the renamings
    ms = [m for m in markets if m in rho]
    if len(ms) >= 2:
        mode = rnd.choice(['suffix', 'prefix', 'plain'])
        a, b = rnd.sample(ms, 2)
        cand = {'suffix': rnd.choice(['HOURS_', 'C_', 'x_']) + rho[a], 'prefix': rho[a] + rnd.choice(['_2', '_B']),
                'plain': None}[mode]
        if cand and cand not in rho.values():
            rho[b] = cand
    # codes that other sectors refer to by name (the issuer of an asset, the receiver of taxes) get, in two thirds of
    # the renamings, a new code that contains - or is contained in - the new code of another sector
    referred = []
    for st in prog:
        if st['op'] == 'Sector':
            a = st.get('args') or {}
            for key in ('issuer_short_code', 'taxes_paid_to'):
                if a.get(key) in rho and a[key] not in referred:
                    referred.append(a[key])
    for r in referred:
        others = [x for x in sectors if x != r and x not in referred]
        mode = rnd.choice(['longer', 'shorter', 'plain'])
        if not others or mode == 'plain':
            continue
        o = rnd.choice(others)
        if mode == 'longer':
            cand = rho[o] + rnd.choice(['GOV', '_2', 'X'])
            if cand not in rho.values():
                rho[r] = cand
        else:
            cand = rho[r] + rnd.choice(['B', '_1', 'x'])
            if cand not in rho.values():
                rho[o] = cand
    return rho


def rename_ident(name, rho):
    """token-wise renaming of an identifier whose parts are separated by '_' (old codes contain no '_').
    Keys of the form 'CC.CODE' rename a sector of one particular country: they apply where the country code is
    directly followed by the sector code (a full code inside a name)."""
    parts = name.split('_')
    out = []
    i = 0
    while i < len(parts):
        p = parts[i]
        if i + 1 < len(parts) and (p + '.' + parts[i + 1]) in rho:
            out.append(rho.get(p, p))
            out.append(rho[p + '.' + parts[i + 1]])
            i += 2
            continue
        out.append(rho.get(p, p))
        i += 1
    return '_'.join(out)


_ID = re.compile(r'[A-Za-z_][A-Za-z0-9_]*')


def rename_text(text, rho):
    if not isinstance(text, str):
        return text

    def ref(m):
        s, v = m.group(1), m.group(2)
        return '{%s:%s}' % (rename_ref(s, rho), rename_ident(v, rho))
    out = []
    pos = 0
    for m in re.finditer(r'\{([A-Za-z0-9_.]+):([A-Za-z0-9_]+)\}', text):
        out.append(_ID.sub(lambda mm: rename_ident(mm.group(0), rho), text[pos:m.start()]))
        out.append(ref(m))
        pos = m.end()
    out.append(_ID.sub(lambda mm: rename_ident(mm.group(0), rho), text[pos:]))
    return ''.join(out)


def rename_ref(ref, rho):
    if ref.startswith('@'):
        return '@' + rename_ref(ref[1:], rho)
    cc, code = ref.split('.', 1)
    if cc == 'EXT':
        return ref
    return '%s.%s' % (rho.get(cc, cc), rho.get(cc + '.' + code, rho.get(code, code)))


def rename_program(prog, rho):
    """apply rho through the constructor parameters; returns (program, notes)"""
    out = []
    gov_refs = []
    goods_renamed = {}
    for st in prog:
        st = copy.deepcopy(st)
        op = st['op']
        if op == 'Country':
            st['code'] = rho.get(st['code'], st['code'])
        elif op == 'Sector':
            kind = st['kind']
            old_ref = st['country'] + '.' + st['code']
            old_cc = st['country']
            st['country'] = rho.get(st['country'], st['country'])
            if kind in RENAMABLE:
                st['code'] = rho.get(old_cc + '.' + st['code'], rho.get(st['code'], st['code']))
            a = st.get('args') or {}
            for key in ('consumption_good_name', 'labour_name', 'labour_input_name', 'output_name',
                        'taxes_paid_to', 'issuer_short_code'):
                if key in a:
                    a[key] = rho.get(a[key], a[key])
            if 'treasury' in a:
                a['treasury'] = rename_ref(a['treasury'], rho)
            if 'market_list' in a:
                a['market_list'] = [rename_ref(x, rho) for x in a['market_list']]
            st['args'] = a
            out.append(st)
            if kind in GOV_KINDS and rho.get('GOOD', 'GOOD') != 'GOOD':
                # the government classes take no good name: declare the demand for the renamed good explicitly
                out.append({'op': 'AddVariable', 'sector': st['country'] + '.' + st['code'],
                            'name': 'DEM_' + rho['GOOD'], 'desc': 'Government demand', 'eqn': '0.0'})
                gov_refs.append(st['country'] + '.' + st['code'])
            continue
        for key in ('sector', 'market', 'supplier', 'src', 'dst'):
            if key in st:
                st[key] = rename_ref(st[key], rho)
        if op in ('AddVariable', 'SetRHS'):
            st['name'] = rename_ident(st['name'], rho)
            st['eqn'] = rename_text(st.get('eqn', ''), rho)
        elif op == 'Query':
            st['country'] = rho.get(st['country'], st['country'])
        elif op == 'AddTerm':
            st['name'] = rename_ident(st['name'], rho)
            st['term'] = rename_text(st['term'], rho)
        elif op == 'AddSupplier':
            st['eqn'] = rename_text(st.get('eqn', ''), rho)
        elif op in ('Exogenous', 'IC', 'RegisterCashFlow', 'GetName'):
            if not (op == 'Exogenous' and st['sector'].startswith('EXT.')):     # currencies are not renamed
                st['var'] = rename_ident(st['var'], rho)
        elif op == 'Global':
            st['eqn'] = rename_text(st['eqn'], rho)
        elif op == 'SetAttr':
            if isinstance(st['value'], str) and st['value'].startswith('@'):
                st['value'] = rename_ref(st['value'], rho)
        elif op == 'AssetWeighting':
            st['weights'] = [[c, rename_text(e, rho)] for c, e in st['weights']]
        out.append(st)
    return out, gov_refs


def series_map_rename(b0, b1, rho, multi0):
    """compare exact series of the original (b0) and renamed (b1) builds under rho"""
    res = {'both_built': False, 'decided': False, 'same_vars': False, 'same_series': False, 'detail': ''}
    if b0.final_text is None or b1.final_text is None or b0.system is None or b1.system is None:
        res['detail'] = 'not both built: original %r / renamed %r' % (b0.error, b1.error)
        return res
    res['both_built'] = True

    def rho_full(name):
        if '__' not in name or name.startswith('EXT_'):     # the external sector's names embed currencies, not codes
            return name
        full, local = name.split('__', 1)
        return rename_ident(full, rho) + '__' + rename_ident(local, rho)
    goods_renamed = rho.get('GOOD', 'GOOD') != 'GOOD'

    def skip0(n):   # government bookkeeping variables hard-wired to the literal good name
        return goods_renamed and n.endswith('__PRIM_BAL')

    def skip1(n):
        return goods_renamed and (n.endswith('__PRIM_BAL') or n.endswith('__DEM_GOOD'))
    v0 = {rho_full(n) for n in b0.system.defined() if not skip0(n)}
    v1 = {n for n in b1.system.defined() if not skip1(n)}
    res['same_vars'] = v0 == v1
    if not res['same_vars']:
        res['decided'] = True
        res['detail'] = 'expected but missing in renamed build: %s; unexpected: %s' % (sorted(v0 - v1)[:4], sorted(v1 - v0)[:4])
        return res
    if b0.exact is None or b1.exact is None:
        res['detail'] = 'exact oracle undecided: %s / %s' % (b0.exact_error, b1.exact_error)
        return res
    res['decided'] = True
    diff = []
    for n, ser in b0.exact.series.items():
        if skip0(n):
            continue
        if b1.exact.series.get(rho_full(n)) != ser:
            diff.append(n)
    res['same_series'] = not diff
    if diff:
        n = sorted(diff)[0]
        res['detail'] = '%d variables differ, e.g. %s -> %s: %s vs %s' % (
            len(diff), n, rho_full(n), [str(x) for x in ser][:4] if False else [str(x) for x in b0.exact.series[n]][:4],
            [str(x) for x in b1.exact.series.get(rho_full(n), [])][:4])
    return res


def _rename_job(args):
    bp, decl, seed = args
    from harness import modelkit
    rnd = random.Random('%s|%s|%s' % (bp['name'], decl, seed))
    prog0 = modelcheck.program_for(bp, decl, seed, api_routes=False)   # (the renamer works on sector references)
    rho = make_renaming(prog0, rnd)
    # sometimes keep goods/labour names, sometimes keep sector codes: all three sub-cases of the statement
    mode = rnd.choice(['all', 'all', 'sectors', 'markets', 'countries', 'per_country'])
    ncountries = len([st for st in prog0 if st['op'] == 'Country'])
    if mode == 'per_country' and ncountries < 2:
        mode = 'all'
    if mode == 'per_country':
        # sectors that share a code in different countries get DIFFERENT new codes (a renaming of sectors, not of
        # code strings); only where the full code carries the country prefix can the expected names be computed
        pool = POOL_SECTOR[:]
        rnd.shuffle(pool)
        rho = {}
        for st in prog0:
            if st['op'] == 'Sector' and st['kind'] in RENAMABLE and st['kind'] != 'Market' and pool:
                if st['kind'] in ('ConsolidatedGovernment', 'Treasury', 'CentralBank', 'GoldStandardGovernment',
                                  'GoldStandardCentralBank', 'TaxFlow', 'DoNothingGovernment'):
                    continue      # referred to by short code (taxes_paid_to, issuer_short_code) across the zone
                rho[st['country'] + '.' + st['code']] = pool.pop()
    if mode not in ('all', 'per_country'):
        keep = {}
        for k, v in rho.items():
            is_country = any(st['op'] == 'Country' and st['code'] == k for st in prog0)
            is_market = any(st['op'] == 'Sector' and st['kind'] == 'Market' and st['code'] == k for st in prog0) or k in ('GOOD', 'LAB')
            kind = 'countries' if is_country else ('markets' if is_market else 'sectors')
            if kind == mode:
                keep[k] = v
        rho = keep
    prog1, _ = rename_program(prog0, rho)
    try:
        b0 = modelkit.execute(prog0, horizon=modelcheck.HORIZON)
        b1 = modelkit.execute(prog1, horizon=modelcheck.HORIZON)
    except core.MachineryError as e:
        return 'MACHINERY: %s' % e, None
    multi0 = len(bp['countries']) + (0 if bp['external'] == 'none' else 1) > 1
    cmp_ = series_map_rename(b0, b1, rho, multi0)
    ev = {'ev': 'Compare', 'kind': 'rename', 'clause': 'C18_Equivariant', 'name': bp['name'], 'decl': list(decl),
          'required': True, 'both_built': cmp_['both_built'], 'decided': cmp_['decided'],
          'same_vars': cmp_['same_vars'], 'same_series': cmp_['same_series']}
    return [ev], {'compare': cmp_, 'rho': rho, 'mode': mode}


# ---------------------------------------------------------------------------------------------------------
# embedding

def recountry(prog, mapping, drop_global=True):
    """give the countries of a stand-alone program new codes/currencies: mapping old code -> (new code, new currency)"""
    out = []
    for st in prog:
        st = copy.deepcopy(st)
        if st['op'] == 'Global' and drop_global:
            continue
        if st['op'] == 'MaxTime':
            continue
        if st['op'] == 'Country':
            new, cur = mapping[st['code']]
            st['code'] = new
            if 'currency' in st or not st.get('region'):
                st['currency'] = cur
                if cur is None:
                    st.pop('currency')
                st.pop('region', None)
        for key in ('country',):
            if key in st and st[key] in mapping:
                st[key] = mapping[st[key]][0]
        for key in ('sector', 'market', 'supplier', 'src', 'dst'):
            if key in st and not st[key].startswith('EXT.'):
                cc, code = st[key].split('.', 1)
                st[key] = mapping[cc][0] + '.' + code
        if 'args' in st:
            for k, v in list(st['args'].items()):
                if isinstance(v, str) and v.startswith('@'):
                    cc, code = v[1:].split('.', 1)
                    st['args'][k] = '@' + mapping[cc][0] + '.' + code
                elif isinstance(v, list):
                    st['args'][k] = ['@' + mapping[x[1:].split('.', 1)[0]][0] + '.' + x[1:].split('.', 1)[1]
                                     if isinstance(x, str) and x.startswith('@') else x for x in v]
        if st['op'] == 'SetAttr' and isinstance(st.get('value'), str) and st['value'].startswith('@'):
            cc, code = st['value'][1:].split('.', 1)
            st['value'] = '@' + mapping[cc][0] + '.' + code
        for key in ('eqn', 'value', 'term'):
            if key in st and isinstance(st[key], str):
                st[key] = re.sub(r'\{([A-Za-z0-9_]+)\.([A-Za-z0-9_]+):', lambda m: '{%s.%s:' % (mapping[m.group(1)][0], m.group(2)), st[key])
        if st['op'] == 'AssetWeighting':
            st['weights'] = [[c, re.sub(r'\{([A-Za-z0-9_]+)\.', lambda m: '{%s.' % mapping[m.group(1)][0], e)] for c, e in st['weights']]
        out.append(st)
    return out


def _embed_job(args):
    members, seed, with_ext = args[:3]          # members: list of (bp, decl)
    variant = args[3] if len(args) > 3 else None
    from harness import modelkit
    rnd = random.Random('embed|%s|%s' % ([m[0]['name'] for m in members], seed))
    T = modelcheck.HORIZON
    solo_progs = []
    joint = []
    # country codes of the embedded economies: plain ones, and codes that extend one another after an underscore
    CODE_POOLS = [['EA', 'EB', 'EC'], ['EA', 'EA_2', 'EB'], ['Z', 'Z_9', 'K9'], ['NA', 'NA_B', 'NA_B_2'],
                        ['Ea', 'EA', 'eA'],       # ... codes that differ in letter case only
                        ['CA_ON', 'US', 'MX_1'], ['N_A', 'W', 'S_B_2']]    # ... and codes with an underscore whose first
    #                                                                        chunk is not itself a country of the model
    # explicit currencies: distinct strings, in some jobs distinct only in letter case
    CUR_POOLS = [None, ['Kr', 'KR', 'kr'], None]
    # the pools are walked systematically with the job's index (every pool of codes meets default and explicit currencies
    # within 14 jobs); a job replayed without an index draws them
    if variant is None:
        codes = rnd.choice(CODE_POOLS)
        curs = rnd.choice(CUR_POOLS)
    else:
        codes = CODE_POOLS[variant % len(CODE_POOLS)]
        curs = CUR_POOLS[(variant // len(CODE_POOLS)) % len(CUR_POOLS)]
    for i, (bp, decl) in enumerate(members):
        prog = modelcheck.program_for(bp, decl, seed, with_ic=False, region_mode='always', api_routes=False)
        ccs = [c['code'] for c in bp['countries']]
        if len(ccs) == 1:
            # a single-country economy may leave its currency to the default (a currency named after the country)
            draw = rnd.random()
            if variant is not None and curs:
                cur = curs[i]                 # explicit currencies that differ in letter case only
            elif variant is not None and (variant // len(CODE_POOLS)) % len(CUR_POOLS) == 0:
                cur = None                    # every member leaves its currency to the default (named after the country):
                #                               codes that differ in case only, codes that extend one another
            else:
                cur = (curs[i] if curs else 'CUR' + codes[i]) if draw < 0.5 else None
            mapping = {ccs[0]: (codes[i], cur)}
        else:
            mapping = {cc: (codes[i] + cc, curs[i] if curs else 'CUR' + codes[i]) for cc in ccs}
        p = recountry(prog, mapping)
        # the same exogenous setting / initial condition may be addressed through the sector object or, as documented,
        # through the model with the sector's full code as a string; the route is drawn per statement and is the same in
        # the stand-alone and in the joint build - only the full code differs (it gains the country prefix)
        routed = [k for k, st in enumerate(p) if st['op'] in ('Exogenous', 'IC') and rnd.random() < 0.5]
        n_solo = len([st for st in p if st['op'] == 'Country'])
        ps, pj = copy.deepcopy(p), copy.deepcopy(p)
        for k in routed:
            cc, code = p[k]['sector'].split('.', 1)
            ps[k]['via'] = pj[k]['via'] = 'fullcode'
            ps[k]['fullcode'] = code if n_solo == 1 else cc + '_' + code
            pj[k]['fullcode'] = cc + '_' + code
        solo_progs.append(ps + [{'op': 'MaxTime', 'value': T}])
        joint.extend(pj)
    if with_ext:
        pos = rnd.choice([0, len(joint)])
        joint.insert(pos, {'op': 'External'})
    joint.append({'op': 'MaxTime', 'value': T})
    try:
        bj = modelkit.execute(joint, horizon=T)
        solos = [modelkit.execute(p, horizon=T) for p in solo_progs]
    except core.MachineryError as e:
        return 'MACHINERY: %s' % e, None
    res = {'both_built': False, 'decided': False, 'same_vars': False, 'same_series': False, 'detail': '', 'isolated': True}
    if bj.final_text is None or bj.system is None or any(s.final_text is None or s.system is None for s in solos):
        res['detail'] = 'not all built: joint %r, alone %r' % (bj.error, [s.error for s in solos])
    else:
        res['both_built'] = True
        expected = set()
        mapped = []
        from sfc_models.sector import Market
        for s in solos:
            single = len(s.model.CountryList) == 1
            cc = s.model.CountryList[0].Code
            # a market's allocation variables are named SUP_<full code of the supplier>: the full code gains the
            # country prefix together with every other full code
            alloc = set()
            if single:
                for sec in s.model.GetSectors():
                    if isinstance(sec, Market):
                        for v in sec.EquationBlock.GetEquationList():
                            if v.startswith('SUP_') and v != 'SUP_' + sec.Code:
                                alloc.add(sec.FullCode + '__' + v)
            for n in s.system.defined():
                if '__' in n:
                    if not single:
                        jn = n
                    elif n in alloc:
                        full, local = n.split('__', 1)
                        jn = cc + '_' + full + '__SUP_' + cc + '_' + local[4:]
                    else:
                        jn = cc + '_' + n
                    expected.add(jn)
                    mapped.append((s, n, jn))
        have = {n for n in bj.system.defined() if '__' in n and not n.startswith('EXT_')}
        res['same_vars'] = expected == have
        if not res['same_vars']:
            res['decided'] = True
            res['detail'] = 'missing in joint: %s; unexpected in joint: %s' % (sorted(expected - have)[:4], sorted(have - expected)[:4])
        elif bj.exact is None or any(s.exact is None for s in solos):
            res['detail'] = 'exact oracle undecided: %s / %s' % (bj.exact_error, [s.exact_error for s in solos])
        else:
            res['decided'] = True
            diff = [(n, jn) for s, n, jn in mapped if bj.exact.series.get(jn) != s.exact.series[n]]
            res['same_series'] = not diff
            if diff:
                res['detail'] = '%d variables differ, e.g. %s alone vs %s joint' % (len(diff), diff[0][0], diff[0][1])
        # zone isolation on the joint model's dependency graph
        owner = {}
        for i, s in enumerate(solos):
            for c in s.model.CountryList:
                owner[c.Code] = i
        bad = []
        for v, used in bj.system.names_used().items():
            if '__' not in v or v.startswith('EXT_'):
                continue
            ov = _owner(v, owner)
            for u in used:
                if '__' in u and not u.startswith('EXT_'):
                    if _owner(u, owner) != ov:
                        bad.append('%s refers to %s' % (v, u))
        res['isolated'] = not bad
        if bad:
            res['detail'] += ' cross-zone references: %s' % bad[:3]
    name = '+'.join(m[0]['name'] for m in members) + ('+EXT' if with_ext else '')
    evs = [{'ev': 'Compare', 'kind': 'embed', 'clause': 'C18_EmbeddingIsDisjointUnion', 'name': name, 'decl': [],
            'required': True, 'both_built': res['both_built'], 'decided': res['decided'],
            'same_vars': res['same_vars'], 'same_series': res['same_series']},
           {'ev': 'Compare', 'kind': 'isolation', 'clause': 'C18_ZoneIsolation', 'name': name, 'decl': [],
            'required': True, 'both_built': res['both_built'], 'decided': res['both_built'],
            'same_vars': res['isolated'], 'same_series': res['isolated']}]
    return evs, {'compare': res, 'members': [m[0]['name'] for m in members], 'with_ext': with_ext}


def _owner(fullname, owner):
    fc = fullname.split('__', 1)[0]
    best = None
    for cc in owner:
        if fc.startswith(cc + '_') and (best is None or len(cc) > len(best)):
            best = cc
    return owner.get(best)


def run(rep):
    import concurrent.futures
    modelcheck.describe(rep, PROP)
    rep.rule += ('; C18: each sampled behaviour is rebuilt under a seeded injective renaming of country / sector / goods-labour '
                 'codes (pools with underscores, different lengths, one a prefix of another), and sets of 2-3 single-currency '
                 'economies are built alone and jointly (with / without an unused external sector)')
    cfg = 'MC_ModelBuild_quick.cfg' if rep.tier == 'quick' else 'MC_ModelBuild_thorough.cfg'
    bps, behs = modelcheck.generate(rep, cfg)
    good = [b for b in behs if bps[b['name']]['wellformed']]
    chosen = modelcheck.sample_behaviours(good, bps, 40 if rep.tier == 'quick' else 900, rep.seed)
    # the token-wise renamer needs original codes without '_' (the renamed twins SIMR / SIMEXR are themselves the
    # result of a renaming and are covered by the TLC run and by the other model checks)
    # models put together by a bundled builder (blueprint field `book`) cannot be re-declared under other codes or inside
    # a larger model by the driver; their economies are covered through the twin blueprints SIM / SIMEX / PC / REG2
    def plain(bp):
        if bp.get('book') or any(d['cc'] == 'EXT' for d in bp['sectors']):
            return False      # (a sector inside the ExternalSector country: the EXT code is not a constructor argument)
        return all('_' not in d['code'] and '_' not in d['good'] and '_' not in d['lab'] for d in bp['sectors'])
    chosen = [b for b in chosen if plain(bps[b['name']])]
    for b in chosen:
        b['seed'] = modelcheck.case_seed(rep.seed, b['decl'])
    jobs = [(bps[b['name']], b['decl'], b['seed']) for b in chosen]
    # embedding: economies with a single currency and no external sector
    singles = [n for n in sorted(bps) if bps[n]['wellformed'] and bps[n]['external'] == 'none'
               and len({c['cur'] for c in bps[n]['countries']}) == 1 and not n.startswith('JOIN') and plain(bps[n])]
    rnd = random.Random(rep.seed)
    ejobs = []
    n_embed = 14 if rep.tier == 'quick' else 260
    by = {}
    for b in good:
        by.setdefault(b['name'], []).append(b)
    forced = [('SIMMARGIN', 'SIMCAP'), ('SIMCAP', 'FED'), ('SIMCAP', 'SIM'), ('TWOBUS', 'SIMEX'), ('PC', 'SIMCAP'), ('FED', 'TWOGIFTS'),
              ('SIMBOND', 'MULTI'), ('SIMDEP', 'SIMMON'),
              # twins: both members register, before main(), cash flows of the same local variable names
              ('TWOGIFTS', 'TWOGIFTS')]
    forced = [f for f in forced if all(n in singles for n in f)]
    for i in range(n_embed):
        k = 2 if rnd.random() < 0.7 else 3
        names = [rnd.choice(singles) for _ in range(k)]
        if i < len(forced):
            names = list(forced[i])
        members = [(bps[n], rnd.choice(sorted(by[n], key=lambda b: b['decl']))['decl']) for n in names]
        ejobs.append((members, rep.seed + i, rnd.random() < 0.5, i))
    with concurrent.futures.ProcessPoolExecutor(max_workers=16) as ex:
        r1 = list(ex.map(_rename_job, jobs, chunksize=2))
        r2 = list(ex.map(_embed_job, ejobs, chunksize=1))
    cases = [{'kind': 'rename', 'name': b['name'], 'decl': b['decl'], 'seed': b['seed']} for b in chosen] + \
            [{'kind': 'embed', 'members': [[m[0]['name'], m[1]] for m in j[0]], 'seed': j[1], 'with_ext': j[2], 'variant': j[3]} for j in ejobs]
    results = r1 + r2
    for r in results:
        if isinstance(r[0], str):
            raise core.MachineryError(r[0])
    judge(rep, cases, results)
    if rep.tier != 'quick':     # extension specification (object lookup and zones): thorough tier only
        from harness import lookupcheck
        lookupcheck.run_lookup(rep)


def judge(rep, cases, results):
    traces = []
    for i, (case, (events, info)) in enumerate(zip(cases, results)):
        traces.append((i, events))
        c2 = dict(case)
        if info.get('rho'):
            c2['rho'] = info['rho']
        rep.add_case(c2, True)
    verdicts, st, tr = core.validate_traces('MC_ModelBuild_Trace', 'MC_ModelBuild_Trace.cfg', traces,
                                            chunk=max(8, len(traces) // 16 + 1), tag='c18', stack='256m')
    rep.traces += len(traces)
    rep.extra['trace_validation_states'] = st
    und = 0
    for i, (case, (events, info)) in enumerate(zip(cases, results)):
        if not info['compare']['decided'] and info['compare']['both_built']:
            und += 1
        for c in [x for x in verdicts[i].split(':', 1)[1].split(',') if x]:
            if c.startswith('C18_'):
                sig = c + ':' + (case.get('name') or '+'.join(m[0] for m in case['members']))
                rep.violate(c, sig, dict(case, rho=info.get('rho')), detail=info['compare']['detail'])
            elif c.startswith('drift_'):
                rep.add_drift(c, case)
    rep.extra['undecided_by_exact_oracle'] = und


def replay(path):
    with open(path) as f:
        data = json.load(f)
    case = data['case']
    rep = core.Report(PROP, 'quick', case.get('seed', 0))
    bps, behs = modelcheck.generate(rep, 'MC_ModelBuild_thorough.cfg' if data.get('tier') == 'thorough' else 'MC_ModelBuild_quick.cfg')
    if case['kind'] == 'rename':
        res = _rename_job((bps[case['name']], case['decl'], case['seed']))
    else:
        res = _embed_job(([(bps[n], d) for n, d in case['members']], case['seed'], case['with_ext'], case.get('variant')))
    judge(rep, [case], [res])
    print(json.dumps({'case': case, 'info': res[1]}, default=str)[:2000])
    if rep.violations:
        print('VIOLATION property=C18 replay=%s' % path)
        return 1
    print('replay: property clauses hold on this case now')
    return 0
