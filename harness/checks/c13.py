"""C13 - name substitution is hygienic and simultaneous.

spec:   spec/Tokens.tla (actions Push, Lag, Rename, RenameOne, ListNames; invariants C13_*)
TLC:    exhaustive check of the bounded instances (thorough: plus seeded -simulate of a deeper one);
        every maximal behaviour (a well-formed token sequence and one call on it) is emitted
replay: each token sequence is rendered as text in every layout that applies (dense `x(k-1)`, single
        spaces `x ( k - 1 )`, the untokenize style `x (k -1 )`, dense padded with a blank at both ends
        ` x(k-1) `, line breaks inside brackets followed by an indented continuation line, backslash
        continuation after operators outside brackets) and handed to the REAL
        sfc_models.utils.replace_token_from_lookup / replace_token / list_tokens.  The returned text is
        re-tokenised with Python's tokenize and logged as (kind, text) pairs; for results that consist
        only of names, integer literals and + - * the text is evaluated on the two integer valuations
        of the spec, under the correspondingly renamed environment.
trace:  the recorded executions are judged by TLC against Tokens_Trace (same operators).

Readings (the weaker one where the statement leaves a choice):
* "yields an expression whose value ... equals the original's" is demanded only on the arithmetic
  fragment (names, integer literals, + - * and unary minus, no brackets) and only for maps that are
  injective on the names of the expression - C13_ValuePreserved; elsewhere only the token clauses apply.
* the spelling (blanks) of the returned text is not fixed by C13 (the docstring of replace_token says
  "do not rely upon any particular behaviour for spaces"): a difference from what tokenize.untokenize
  is modelled to do is reported as drift `untokenize_spelling`, never as a violation.  A shortcut that
  returns some inputs unread therefore shows as this drift on the inputs where it is harmless (`2.5`)
  and as a C13_* violation on those where it is not (`nan` with nan a key of the map).
* a map entry name -> same name is a request like any other (the name stays, the token stays): maps
  with identity entries alone and mixed with renamings, on names that occur / do not occur, are part of
  every instance's Maps (Tokens!AllIdentity, HasIdentity).
* the callers named in the property's anchor are part of the action alphabet (Tokens!RenameVia): the
  text becomes the right-hand side of an Equation (alone / inside an EquationBlock) and is renamed with
  ReplaceTokensFromLookup; observed is GetRightHandSide() before and after.  An Equation stores some
  texts in a normal form (leading + dropped, redundant brackets of a one- or two-factor term dropped;
  that is C12's subject), so the C13 sentences are judged by TLC on the stored form seen before the
  call; its names must be the names of the expression (else drift `stored_names`), its value under the
  renamed environment must be the value of the expression.  A text an Equation refuses has nothing
  to rename and is counted (`route_constructions_refused`).  Routes shared_block / shared_each hand
  the Term objects of the text (Equation.ParseString) to two equations of one block and rename through
  the block / equation after equation: both owners are judged, each must see the map applied once.
  Routes cancel_first / cancel_mid build the equation with one AddTerm per additive term of the expression
  around a cancelled term (AddTerm('m_x'), AddTerm('-m_x')); they apply when every term is a term an
  Equation accepts and no two terms would be merged (else counted as refused / not applicable).
* "name" is what the tokenizer calls NAME.  Names that Python's number constructors also accept as
  the text of a number (inf, nan, NaN, Infinity, INF, j) are names; they occur as the whole expression,
  signed, blank-padded, as keys and images of the map and as bystanders (instances MC_Tokens_words*).
* blanks before the first token make the tokenizer emit INDENT/DEDENT; these are layout like the
  final NEWLINE and are not part of the token sequence that is compared.
* line structure: a line break inside brackets (tokenizer: NL) and the end of a complete equation that
  is followed by another one (tokenizer: NEWLINE with text) ARE tokens of the generated sequences
  (Tokens!TokNL / TokNewline; instances MC_Tokens_lines / _blocks); an expression that crosses physical
  lines inside brackets is one tokenizable expression and must be renamed like any other.  Layout
  `indent` renders NL with an indented continuation line, layout `cont` puts a backslash continuation
  after every binary operator / sign outside brackets.  Blocks are rendered flush left only (lines
  indented differently from each other are not tokenizable: IndentationError on every tree).
* a call that raises, or returns text tokenize cannot read, on a tokenizable input returned no
  expression: reported under C13_OnlyWholeNames (C13_ListIsNamesInOrder for list_tokens).
Inputs are tokenizable by construction; a rendering that does not tokenize back to the generated
token sequence is a fault of this check (MachineryError), not of the code under test.
"""
import concurrent.futures
import io
import json
import re
import tokenize

from harness import core

ENVS = [dict(x=6, x_1=3, xx=5, m_x=2, k=4, H__x=7, inf=8, nan=9, NaN=10, Infinity=11, INF=12, j=13),
        dict(x=-4, x_1=2, xx=-3, m_x=7, k=-5, H__x=3, inf=-6, nan=4, NaN=-7, Infinity=5, INF=-8, j=6)]
NUMERIC_WORDS = ('inf', 'nan', 'NaN', 'Infinity', 'INF', 'j')      # Tokens!NumericWords
INT_LITS = ('1', '2', '0x1f')
ARITH_OPS = ('+', '-', '*')
SPACINGS = ('dense', 'spaced', 'untok', 'padded', 'indent', 'cont')
LINE_KINDS = ('NL', 'NEWLINE')
KIND = {tokenize.NAME: 'NAME', tokenize.NUMBER: 'NUMBER', tokenize.OP: 'OP', tokenize.STRING: 'STRING'}
SKIP = (tokenize.ENCODING, tokenize.ENDMARKER, tokenize.INDENT, tokenize.DEDENT)
JOBS, MIN_CHUNK = 4, 3000   # few big TLC jobs beat many small ones here (measured: 4 x 11 000 traces 9 s, 15 x 3 000 36 s)
TLC_JOBS = 3                # behaviour-generating TLC runs in flight
BATCH = 40000               # behaviours collected over instances before one replay + trace validation round
INPUT_CLAUSES = ('input_grammar', 'input_tokenization', 'input_value', 'not_ready')


# ---------------------------------------------------------------------------------------------
# projection
# ---------------------------------------------------------------------------------------------

def text_of(t):
    return '\n' if t['kind'] in LINE_KINDS else t['text']


def render(toks, spacing):
    """the text of a token sequence in one layout; None when the layout does not apply to it
    (`indent` needs an NL token, `cont` an operator outside brackets; neither is used on blocks)"""
    if spacing == 'dense':
        return ''.join(text_of(t) for t in toks)
    if spacing == 'spaced':         # single blanks, none at the start of a new logical line
        out = ''
        for i, t in enumerate(toks):
            out += ('' if i == 0 or toks[i - 1]['kind'] == 'NEWLINE' else ' ') + text_of(t)
        return out
    if spacing == 'padded':         # not with NL: untokenize then repeats the leading blank on the continuation
        if any(t['kind'] == 'NL' for t in toks):    # line, a spelling this check does not model (see `indent`)
            return None
        return ' ' + ''.join(text_of(t) for t in toks) + ' '
    if spacing == 'untok':
        return ''.join(text_of(t) + (' ' if t['kind'] in ('NAME', 'NUMBER') else '') for t in toks)
    kinds = set(t['kind'] for t in toks)
    if spacing == 'indent':
        if 'NL' not in kinds or 'NEWLINE' in kinds:
            return None
        return ''.join('\n    ' if t['kind'] == 'NL' else t['text'] for t in toks)
    if spacing == 'cont':
        if 'NEWLINE' in kinds:
            return None
        out, depth, used = '', 0, False
        for i, t in enumerate(toks):
            out += text_of(t)
            if t['kind'] == 'OP':
                if t['text'] in ('(', '['):
                    depth += 1
                elif t['text'] in (')', ']'):
                    depth -= 1
                elif depth == 0 and t['text'] != ',' and i + 1 < len(toks):
                    out += ' \\\n  '
                    used = True
        return out if used else None
    raise ValueError(spacing)


def tokens_of(text):
    """-> (ok, [{'kind', 'text'}, ...]) as Python's tokenize sees the text.  Line ends inside the text are
    tokens (NL inside brackets, NEWLINE between logical lines; text 'NL'); the NEWLINE the tokenizer
    supplies at the end of the text, and one written there, are layout."""
    out = []
    try:
        for tok in tokenize.tokenize(io.BytesIO(text.encode('utf-8')).readline):
            if tok.type in SKIP:
                continue
            if tok.type == tokenize.NEWLINE:
                out.append({'kind': 'NEWLINE', 'text': 'NL'})
            elif tok.type == tokenize.NL:
                out.append({'kind': 'NL', 'text': 'NL'})
            else:
                out.append({'kind': KIND.get(tok.type, tokenize.tok_name.get(tok.type, 'OTHER')), 'text': tok.string})
    except Exception:
        return False, []
    while out and out[-1]['kind'] == 'NEWLINE':
        out.pop()
    return True, out


def evaluable(toks):
    """names of the valuation, integer literals, + - * only (nothing that could run long or call)"""
    for t in toks:
        if t['kind'] == 'NAME' and t['text'] in ENVS[0]:
            continue
        if t['kind'] == 'NUMBER' and t['text'] in INT_LITS:
            continue
        if t['kind'] == 'OP' and t['text'] in ARITH_OPS:
            continue
        return False
    return bool(toks)


def evaluate(text, toks, envs):
    """-> (ok, [int, int])"""
    if envs is None or not evaluable(toks):
        return False, [0, 0]
    vals = []
    try:
        for env in envs:
            v = eval(text.strip(), {'__builtins__': {}}, dict(env))
            if isinstance(v, bool) or not isinstance(v, int) or abs(v) >= 2 ** 31:
                return False, [0, 0]
            vals.append(v)
    except Exception:
        return False, [0, 0]
    return True, vals


def renamed_envs(toks, mapping):
    """The correspondingly renamed environments: the new name of n carries the value of n.
    None when the renaming merges two distinct names of the expression."""
    names = []
    for t in toks:
        if t['kind'] == 'NAME' and t['text'] not in names:
            names.append(t['text'])
    image = {}
    for n in names:
        new = mapping.get(n, n)
        if new in image:
            return None
        image[new] = n
    out = []
    for env in ENVS:
        if any(n not in env for n in names) or any(n not in env for n in image):
            return None
        e = dict(env)
        e.update({new: env[old] for new, old in image.items()})
        out.append(e)
    return out


# ---------------------------------------------------------------------------------------------
# replay of one behaviour on the real functions
# ---------------------------------------------------------------------------------------------

def observe_rename(call, toks, mapping):
    try:
        text = call()
        if not isinstance(text, str):
            return {'ok': False, 'toks': [], 'text': 'TYPE ' + type(text).__name__, 'vok': False, 'vals': [0, 0]}
    except Exception as e:
        return {'ok': False, 'toks': [], 'text': 'EXC ' + type(e).__name__, 'vok': False, 'vals': [0, 0]}
    ok, got = tokens_of(text)
    vok, vals = evaluate(text, got, renamed_envs(toks, mapping)) if ok else (False, [0, 0])
    return {'ok': ok, 'toks': got, 'text': text.replace('\n', '<NL>'), 'vok': vok, 'vals': vals}


CANCEL_NAME = 'm_x'          # Tokens!CancelName


def additive_terms(toks):
    """the token lists of the top-level additive terms of an expression (each with its sign), or None when
    the expression has line tokens"""
    terms, cur, depth, want = [], [], 0, True
    for t in toks:
        if t['kind'] in LINE_KINDS:
            return None
        if t['kind'] == 'OP' and depth == 0 and not want and t['text'] in ('+', '-'):
            terms.append(cur)
            cur = []
        cur.append(t)
        if t['kind'] == 'OP':
            if t['text'] in ('(', '['):
                depth += 1
            elif t['text'] in (')', ']'):
                depth -= 1
            want = t['text'] not in (')', ']')
        else:
            want = False
    terms.append(cur)
    return terms


def build_termwise(route, toks, sp):
    """Equation built by AddTerm, one call per additive term (rendered in layout sp), holding a cancelled
    term before (cancel_first) / after (cancel_mid) the first term.  None when the route does not apply:
    a layout that does not apply to a term, two equal terms or a term spelled like the cancelled one
    (AddTerm merges those, the stored names would not be the names of the expression)."""
    from sfc_models.equation import Equation, Term
    terms = additive_terms(toks)
    if terms is None:
        return None
    texts = [render(t, sp) for t in terms]
    if any(x is None for x in texts):
        return None
    bodies = [Term(x).Term for x in texts]
    if len(set(bodies)) < len(bodies) or CANCEL_NAME in bodies:
        return None
    eq = Equation('lhs_', '')
    cancel_at = 0 if route == 'cancel_first' else 1
    for i, x in enumerate(texts):
        if i == cancel_at:
            eq.AddTerm(CANCEL_NAME)
            eq.AddTerm('-' + CANCEL_NAME)
        eq.AddTerm(x)
    if cancel_at >= len(texts):
        eq.AddTerm(CANCEL_NAME)
        eq.AddTerm('-' + CANCEL_NAME)
    return eq


def observe_via(route, text, toks, lookup, sp='dense'):
    """rename through Equation / EquationBlock; observe the right-hand side(s) before and after.
    Routes shared_*: the Term objects of the text are handed to two equations of one block.
    Routes cancel_*: the equation is built term by term and holds a cancelled term."""
    from sfc_models.equation import Equation, EquationBlock
    none = {'built': False, 'ok': False, 'pre': [], 'toks': [], 'text': '', 'vok': False, 'vals': [0, 0],
            'toks2': [], 'vok2': False, 'vals2': [0, 0]}
    shared = route in ('shared_block', 'shared_each')
    try:
        blk = EquationBlock()
        if shared:
            terms = Equation.ParseString(text)
            eqs = [Equation('lhs_', '', rhs=terms), Equation('lhs2_', '', rhs=terms)]
        elif route in ('cancel_first', 'cancel_mid'):
            eq = build_termwise(route, toks, sp)
            if eq is None:
                return dict(none, text='NOT-APPLICABLE')
            eqs = [eq]
        else:
            eqs = [Equation('lhs_', '', rhs=text)]
        for eq in eqs:
            blk.AddEquation(eq)
        before = [eq.GetRightHandSide() for eq in eqs]
        pok, pre = tokens_of(before[0])
        if not pok or any(b != before[0] for b in before):
            return dict(none, text='PRE ' + ' | '.join(before).replace('\n', '<NL>'))
    except Exception as e:       # the Equation refuses this text: nothing to rename
        return dict(none, text='REFUSED ' + type(e).__name__)
    try:
        if route in ('block', 'shared_block', 'cancel_first'):
            blk.ReplaceTokensFromLookup(dict(lookup))
        else:
            for eq in eqs:
                eq.ReplaceTokensFromLookup(dict(lookup))
        after = [blk[eq.LeftHandSide].GetRightHandSide() for eq in eqs]
    except Exception as e:
        return dict(none, built=True, pre=pre, text='EXC ' + type(e).__name__)
    envs = renamed_envs(toks, lookup)
    obs = []
    for a in after:
        ok, got = tokens_of(a)
        vok, vals = evaluate(a, got, envs) if ok else (False, [0, 0])
        obs.append((ok, got, vok, vals))
    first, last = obs[0], obs[-1]
    return {'built': True, 'ok': first[0] and last[0], 'pre': pre, 'toks': first[1],
            'text': ' | '.join(after).replace('\n', '<NL>'), 'vok': first[2], 'vals': first[3],
            'toks2': last[1], 'vok2': last[2], 'vals2': last[3]}


def execute(beh):
    """Run one behaviour on the real code; returns the list of trace events."""
    from sfc_models.utils import list_tokens, replace_token, replace_token_from_lookup
    toks = beh['toks']
    texts = dict((sp, render(toks, sp)) for sp in SPACINGS)
    layouts = [sp for sp in SPACINGS if texts[sp] is not None]
    iok, ivals = evaluate(texts['dense'], toks, ENVS)
    events = [{'ev': 'Build', 'toks': toks, 'seen': [tokens_of(texts[sp])[1] for sp in layouts],
               'iok': iok, 'ivals': ivals}]
    for act in beh['acts']:
        for sp in layouts:
            text = texts[sp]
            if act['kind'] == 'Rename':
                lookup = {}
                for p in act['map']:
                    lookup[p['from']] = p['to']
                ev = {'ev': 'Rename', 'map': act['map'], 'sp': sp}
                ev.update(observe_rename(lambda: replace_token_from_lookup(text, dict(lookup)), toks, lookup))
            elif act['kind'] == 'RenameVia':
                lookup = {}
                for p in act['map']:
                    lookup[p['from']] = p['to']
                ev = {'ev': 'RenameVia', 'route': act['route'], 'map': act['map'], 'sp': sp}
                ev.update(observe_via(act['route'], text, toks, lookup, sp))
            elif act['kind'] == 'RenameOne':
                ev = {'ev': 'RenameOne', 'target': act['target'], 'repl': act['repl'], 'sp': sp}
                ev.update(observe_rename(lambda: replace_token(text, act['target'], act['repl']), toks,
                                         {act['target']: act['repl']}))
            else:
                ev = {'ev': 'ListNames', 'sp': sp}
                try:
                    got = list_tokens(text)
                    good = isinstance(got, list) and all(isinstance(n, str) for n in got)
                    ev.update(ok=good, names=list(got) if good else [])
                except Exception:
                    ev.update(ok=False, names=[])
            events.append(ev)
    return events


# ---------------------------------------------------------------------------------------------
# verdicts
# ---------------------------------------------------------------------------------------------

def first_offender(beh, events):
    """the spacing / observed text of the first call whose result is not the token-wise image"""
    toks = beh['toks']
    for ev in events[1:]:
        if ev['ev'] == 'ListNames':
            if not ev['ok'] or ev['names'] != [t['text'] for t in toks if t['kind'] == 'NAME']:
                return ev
            continue
        m = {p['from']: p['to'] for p in ev['map']} if 'map' in ev else {ev['target']: ev['repl']}
        if ev['ev'] == 'RenameVia' and not ev['built']:
            continue
        src = ev['pre'] if ev['ev'] == 'RenameVia' else toks
        want = [{'kind': 'NAME', 'text': m[t['text']]} if t['kind'] == 'NAME' and t['text'] in m else t
                for t in src]
        if not ev['ok'] or ev['toks'] != want or (ev['ev'] == 'RenameVia' and ev['toks2'] != want):
            return ev
    return events[1] if len(events) > 1 else events[0]


def signature(clause, beh, events):
    """what fails: the call, the shape of the map and the kind of token that was hit"""
    act = beh['acts'][0]
    toks = beh['toks']
    ev = first_offender(beh, events)
    if act['kind'] == 'ListNames':
        text = render(toks, ev.get('sp') or 'dense') or ''
        return 'list_tokens:' + ('raises' if not ev.get('ok') else 'wrong-list') + \
            (':multi-line-input' if '\n' in text else '')
    if act['kind'] in ('Rename', 'RenameVia'):
        m = [(p['from'], p['to']) for p in act['map']]
        keys = set(a for a, _ in m)
        vals = [b for _, b in m]
        real = [(a, b) for a, b in m if a != b]      # entries that are not name -> same name
        rk, rv = set(a for a, _ in real), [b for _, b in real]
        shape = 'empty' if not m else 'identity' if not real else \
            'swap-or-cycle' if set(rv) == rk else 'chain' if rk & set(rv) else \
            'merge' if len(set(vals)) < len(vals) else 'plain'
        if real and len(real) < len(m):
            shape += '+identity'
        fn = 'replace_token_from_lookup' if act['kind'] == 'Rename' else \
            {'equation': 'Equation.ReplaceTokensFromLookup', 'block': 'EquationBlock.ReplaceTokensFromLookup',
             'shared_block': 'EquationBlock.ReplaceTokensFromLookup:shared-terms',
             'shared_each': 'Equation.ReplaceTokensFromLookup:shared-terms',
             'cancel_first': 'EquationBlock.ReplaceTokensFromLookup:after-cancelled-term',
             'cancel_mid': 'Equation.ReplaceTokensFromLookup:after-cancelled-term'}.get(
                act.get('route'), 'via-' + str(act.get('route')))
        if act['kind'] == 'RenameVia':
            toks = ev.get('pre') or toks          # the stored form is what the call had to rename
            n = len([t for t in toks if t['kind'] in ('NAME', 'NUMBER')])
            fn += ':two-factor-term' if n == 2 and len(toks) in (3, 4) and not any(
                t['text'] in ('(', '[') for t in toks) else ''
    else:
        m = [(act['target'], act['repl'])]
        shape = 'one' if act['target'] != act['repl'] else 'one-identity'
        fn = 'replace_token'
    if not ev.get('ok'):
        # an input that is one physical line / that crosses physical lines (inside brackets, continuation, block)
        text = render(toks, ev.get('sp') or 'dense') or ''
        return '%s:%s:no-expression-returned%s' % (fn, shape, ':multi-line-input' if '\n' in text else '')
    got = ev.get('toks', [])
    if act['kind'] == 'RenameVia' and ev.get('toks2') != got:
        # the two owners of the same Term objects ended up different: report the one that is not the image
        want = [{'kind': 'NAME', 'text': dict(m)[t['text']]} if t['kind'] == 'NAME' and t['text'] in dict(m) else t
                for t in toks]
        fn += ':owners-differ'
        got = ev['toks2'] if got == want else got
    if len(got) != len(toks):
        return '%s:%s:token-%s' % (fn, shape, 'dropped' if len(got) < len(toks) else 'added')
    mm = dict(m)
    for t, g in zip(toks, got):
        hit = t['kind'] == 'NAME' and t['text'] in mm
        if not hit and g != t:
            return '%s:%s:touched-%s' % (fn, shape, t['kind'].lower() if t['kind'] != 'NAME' else 'other-name')
        if hit and g != {'kind': 'NAME', 'text': mm[t['text']]}:
            # where the requested occurrence sits and what it looks like: a lone (possibly signed) operand
            # that is the whole expression / inside a longer one; spelled like a number word or not
            where = 'lone' if is_lone(beh) else 'inner'
            what = 'numeric-word' if t['text'] in NUMERIC_WORDS else 'name'
            kept = 'left-unrenamed' if g == t else 'wrong-image'
            return '%s:%s:%s:%s-%s' % (fn, shape, kept, where, what)
    return '%s:%s:value' % (fn, shape)


def is_lone(beh):
    """Tokens!Lone as emitted by TLC (recomputed for replay files written before the field existed)"""
    toks = beh['toks']
    return beh.get('lone', len(toks) == 1 or (len(toks) == 2 and toks[0]['kind'] == 'OP'))


def word_is_key(beh):
    """a numeric-word name of the expression is a key of the map / the target of the call"""
    names = set(t['text'] for t in beh['toks'] if t['kind'] == 'NAME' and t['text'] in NUMERIC_WORDS)
    act = beh['acts'][0]
    if act['kind'] in ('Rename', 'RenameVia'):
        return any(p['from'] in names for p in act['map'])
    return act['kind'] == 'RenameOne' and act['target'] in names


def identity_hits(beh):
    """an identity entry (name -> same name) of the map names a name of the expression"""
    names = set(t['text'] for t in beh['toks'] if t['kind'] == 'NAME')
    act = beh['acts'][0]
    if act['kind'] in ('Rename', 'RenameVia'):
        return any(p['from'] == p['to'] and p['from'] in names for p in act['map'])
    return act['kind'] == 'RenameOne' and act['target'] == act['repl'] and act['target'] in names


def nontrivial(beh):
    """the call has something to do: a name of the map occurs (Rename/RenameOne), a name exists (ListNames)"""
    names = set(t['text'] for t in beh['toks'] if t['kind'] == 'NAME')
    act = beh['acts'][0]
    if act['kind'] in ('Rename', 'RenameVia'):
        return any(p['from'] in names for p in act['map'])
    if act['kind'] == 'RenameOne':
        return act['target'] in names
    return bool(names)


def judge(rep, behs):
    traces = []
    for i, b in enumerate(behs):
        traces.append((i, execute(b)))
        rep.add_case({'behaviour': b, 'observed': traces[-1][1]} if len(rep.samples) < 3 else b, nontrivial(b))
    verdicts, st, tr = core.validate_traces('MC_Tokens_Trace', 'MC_Tokens_Trace.cfg', traces, tag='c13',
                                            chunk=max(MIN_CHUNK, -(-len(traces) // JOBS)), jobs=JOBS)
    rep.traces += len(traces)
    rep.extra['trace_validation_states'] = rep.extra.get('trace_validation_states', 0) + st
    rep.extra['real_calls'] = rep.extra.get('real_calls', 0) + sum(len(ev) - 1 for _, ev in traces)
    rep.extra['results_evaluated_under_renamed_env'] = rep.extra.get('results_evaluated_under_renamed_env', 0) + \
        sum(1 for _, evs in traces for ev in evs[1:] if ev.get('vok'))
    rep.extra['multi_line_inputs'] = rep.extra.get('multi_line_inputs', 0) + \
        sum(1 for b in behs for sp in SPACINGS if '\n' in (render(b['toks'], sp) or ''))
    rep.extra['behaviours_with_identity_entry_hit'] = rep.extra.get('behaviours_with_identity_entry_hit', 0) + \
        sum(1 for b in behs if identity_hits(b))
    via = [ev for _, evs in traces for ev in evs[1:] if ev['ev'] == 'RenameVia']
    rep.extra['route_calls'] = rep.extra.get('route_calls', 0) + sum(1 for ev in via if ev['built'])
    rep.extra['route_constructions_refused'] = rep.extra.get('route_constructions_refused', 0) + \
        sum(1 for ev in via if not ev['built'])
    rep.extra['lone_operand_expressions'] = rep.extra.get('lone_operand_expressions', 0) + \
        sum(1 for b in behs if is_lone(b))
    rep.extra['behaviours_with_numeric_word_key'] = rep.extra.get('behaviours_with_numeric_word_key', 0) + \
        sum(1 for b in behs if word_is_key(b))
    for i, b in enumerate(behs):
        v = verdicts[i]
        if v == 'ok:':
            continue
        kind, clause = v.split(':', 1)
        case = {'behaviour': b, 'observed': traces[i][1]}
        if kind == 'property':
            ev = first_offender(b, traces[i][1])
            rep.violate(clause, signature(clause, b, traces[i][1]), case,
                        detail='input %r (%s) -> %s' % (render(b['toks'], ev.get('sp') or 'dense'), ev.get('sp', ''),
                                                        json.dumps(ev)[:300]))
        elif clause in INPUT_CLAUSES:
            raise core.MachineryError('C13 generated an input that is not what it claims (%s): %s'
                                      % (clause, json.dumps(case)[:600]))
        else:
            rep.add_drift(clause, case)


# (cfg, number of -simulate traces or None for exhaustive)
INSTANCES = {
    'quick': [('MC_Tokens_quick.cfg', None), ('MC_Tokens_quick2.cfg', None), ('MC_Tokens_words.cfg', None),
              ('MC_Tokens_lines.cfg', None), ('MC_Tokens_blocks.cfg', None), ('MC_Tokens_routes.cfg', None)],
    'thorough': [('MC_Tokens_quick.cfg', None), ('MC_Tokens_quick2.cfg', None), ('MC_Tokens_words.cfg', None),
                 ('MC_Tokens_lines.cfg', None), ('MC_Tokens_blocks.cfg', None),
                 ('MC_Tokens_routes.cfg', None), ('MC_Tokens_lines2.cfg', None), ('MC_Tokens_routes2.cfg', None),
                 ('MC_Tokens_thorough.cfg', None), ('MC_Tokens_thorough2.cfg', None),
                 ('MC_Tokens_thorough3.cfg', None), ('MC_Tokens_words2.cfg', None),
                 ('MC_Tokens_sim.cfg', 6000)],
}


def run(rep):
    rep.rule = ('behaviours = all maximal histories of the bounded Tokens instances emitted by TLC: a token '
                'sequence accepted by the expression grammar (<= MaxUnits steps) followed by one call '
                '(Rename with a map of the instance - directly or through Equation / EquationBlock -, RenameOne, '
                'ListNames); each is replayed in every layout that applies (dense, spaced, untokenize style, padded, indented '
                'continuation lines, backslash continuation). '
                'distinct = distinct behaviour JSON; non-trivial = the expression contains a name the call '
                'has to act on (a key of the map / the target / any name for ListNames)')
    rep.assumptions = ['values are compared on two fixed integer valuations, on the fragment names / integer '
                       'literals / + - * / unary sign, for maps injective on the names of the expression',
                       'Python tokenize of the interpreter running the check (3.12) defines "token"; inputs are '
                       'tokenizable by construction and checked to tokenize back to the generated sequence',
                       'TLC 1.8 / tla2tools']
    rep.exhaustive = True
    seen = set()
    pending = []
    def generate(inst):
        cfg, simulate = inst
        if simulate:
            return core.tlc('MC_Tokens', cfg, workers=1, tag='c13', simulate=simulate, depth=24, seed=rep.seed)
        return core.tlc('MC_Tokens', cfg, workers=1, tag='c13')

    # the TLC runs are independent: three at a time (each is dominated by JVM start on the small instances)
    pool = concurrent.futures.ThreadPoolExecutor(max_workers=TLC_JOBS)
    results = pool.map(generate, INSTANCES[rep.tier])
    for (cfg, simulate), res in zip(INSTANCES[rep.tier], results):
        if simulate:
            m = re.search(r'The number of states generated: (\d+)', res.stdout)
            if m:       # -simulate reports generated states only (no distinct-state count)
                res.states = int(m.group(1))
            rep.exhaustive = False
            rep.extra['simulated_traces'] = simulate
        if res.violated:
            raise core.MachineryError('spec invariant %s violated in %s' % (res.violated, cfg))
        rep.add_tlc(res, ('simulate ' if simulate else 'exhaustive ') + cfg)
        fresh = 0
        for b in core.json_of_printed(res, 'BEH'):
            k = core.canonical(b)
            if k not in seen:
                seen.add(k)
                pending.append(b)
                fresh += 1
        if not fresh:
            raise core.MachineryError('TLC emitted no (new) behaviours for ' + cfg)
        if len(pending) >= BATCH:       # judge the behaviours of several instances with one set of TLC jobs
            judge(rep, pending)
            pending = []
    if pending:
        judge(rep, pending)
    pool.shutdown()


def replay(path):
    with open(path) as f:
        data = json.load(f)
    beh = data['case']['behaviour']
    rep = core.Report('C13', 'quick', 0)
    judge(rep, [beh])
    print(json.dumps({'behaviour': beh, 'texts': [render(beh['toks'], sp) for sp in SPACINGS],
                      'observed_now': execute(beh)}, indent=1))
    for v in rep.violations:
        print('VIOLATION property=C13 replay=%s' % path)
        print('  clause=%s signature=%s' % (v.clause, v.signature))
        return 1
    print('replay: property clause holds on this case now')
    return 0
