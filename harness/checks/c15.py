"""C15 - an accepted initial steady state really is steady.

spec:   spec/Steady.tla (actions Copy, FreezeExogenous, Run, Judge, Install, Reject, Raise; invariants
        C15_AcceptedIsSteady, C15_OtherwiseRaises; action property C15_LeavesSolverUntouched).  A series is
        abstracted to the class of its final two values of the search run: magnitudes
        {nL, ne, z, pe, pL} (near-zero threshold 1e-4) x drift {zero, small, rel_small, large} in units of
        the tolerance, plus - where both values are near zero and the drift is large - whether the next value
        stays below the threshold.  Every series has a NAME (a sequence of characters) and the exclusion option
        ParameterInitialSteadyStateExcludedVariables is part of the state: a set of names (of series, of their
        lags, of nothing at all), including names that contain the names of other series (y_total / LAG_y_total
        next to y / LAG_y); the loop skips exactly the series whose name is on the list (invariant
        C15_JudgesExactlyNonExcluded).  Every series also has the KIND the parser gave it (solved / lagged /
        decorative / exogenous); test and installation treat all kinds alike.  Schemes with a decorative series
        pair "passes the relative test at a large level" (the solved stock) with every class of the decorative
        function built on it.  AsFound constants: decorative untested / decorative excluded (seeded variants), the signed relative test and the near-zero
        branch that accepts any drift inside the band (both repaired in /repo), and exclusion by substring.
TLC:    exhaustive check of the bounded instances (schemes: names of the variables, classes each may end in,
        exclusion options); every maximal behaviour (names, option, outcome of the run, class of every
        variable) is emitted.
replay: for every behaviour a REAL equation system is generated that realises the classes at a seeded
        search horizon T (ParameterInitialSteadyStateMaxTime) and tolerance tol
        (ParameterInitialSteadyStateErrorToler): one recurrence per variable through two target values
        (prev*, last*) of the class (and, for the classes that carry the `stays` bit, with the value after
        them inside / outside the near-zero band), taken from the families
            const       x = 1.0*LAG_x                      fixed     x = 0.5*LAG_x + c at its fixed point
            drift       x = LAG_x + d  /  x = LAG_x - d    stable    x = a*LAG_x + c        (0 < a < 1)
            grow        x = g*LAG_x (g = 1.05, ...)         osc       x = -a*LAG_x + c  (a = 0.9, 1, 1.1)
            exo         an exogenous input whose path changes after k=0 (constant only if frozen)
            stable_exo  x = a*LAG_x + g with g exogenous   trend     x = q + d*t (excluded variables only)
            +schedule   any of the lagged families + H*max(0., -k - M) (or of t): time-dependent, settled before k=0
            time_trend  x = q*pow(g, k) (or of t): a pure function of time that never settles
            decorative  d = a*x + b built on the solved variable before it (a = +-1 first: gap = debt - target),
                        run with equation reduction ON so that the parser classes it decorative
        plus, seeded, a decorative copy d = 1.0*x; reduction is on in 70 % of the other systems.  The generated system is simulated in plain Python floats
        (the same right-hand side text is evaluated) and kept only if the class comes out as requested.
        Then the real solver is driven as SolveEquation() does: EquationSolver(text), the three
        ParameterInitialSteadyState* attributes, ExtractVariableList(), SetInitialConditions(),
        CalculateInitialSteadyState().  Observed: what the copy looked like inside _GetCopy and at its first
        SolveStep (harness-side wrappers on the instance, nothing in /repo is touched), the outcome, the
        final two values of every series of the search (and the value one more period of the search's own
        copy gives), the installed k=0 values and, if the search
        returned, ONE further real SolveStep(1) on a deep copy of the initialised solver with the user's
        exogenous inputs frozen at their k=0 values, giving the change D of every series.
        The variables carry the names of the behaviour, the lag of v is LAG_v, the option is handed to the solver
        exactly as the behaviour has it.
trace:  the recorded executions are judged by TLC against Steady_Trace (same operators); which series the
        loop must skip is computed there from the names and the option, not by this driver.

Readings (the weaker one where the statement leaves a choice):
* a series is steady after the further step iff  |D| <= tol*max(|v|, |v+D|)  ("relative": relative to the
  larger of the two magnitudes)  or  (|v| < 1e-4 and |v+D| < 1e-4)  ("near zero": it stays below the code's
  near-zero threshold)  or  |D| <= tol  (absolute).  Evaluated with Fractions made from the floats.
* "re-solving one more period": the copy solves the period with the settings of the search (tolerance tol,
  1000 sweeps); the time axis k advances to 1, only the user's exogenous inputs are frozen.  Judged variables
  that depend on time (k or t) do so either through a schedule that is over M >= 2 periods before k = 0 (the same
  value at k = 0 and k = 1, so freezing the time axis at 0 instead gives the same verdict) or as a trend with
  large drift, which a correct search rejects.
* The model's abstraction is that the drift class of a series persists for one more period.  An unstable
  recurrence (x = -1.1*LAG_x + c, x = 1.05*LAG_x) whose last change lies in the window (tol/1.1, tol] moves by
  up to 1.1*tol in the next period; no test on two values can exclude that, and the statement is not read as
  demanding it: such border windows are not generated (a generated system whose class has drift zero / small /
  rel_small also has its simulated next change within the tolerance).  The one class change the grid does
  carry is a near-zero value leaving the near-zero band (`stays`).
* Exclusion means "neither tested nor installed" (the code's documented meaning: the variable is ignored and
  keeps its ordinary k=0 value).  A non-excluded variable that is COMPUTED FROM an excluded, unsettled one
  (gap = 0.001*x1 - c with x1 excluded) is installed at its search value while x1 stays at x1(0), so it jumps in
  the next period whatever the acceptance test does; the statement is not read as covering such systems and the
  schemes never exclude a variable that a non-excluded one depends on.
* ParameterErrorTolerance (the solver's own tolerance) is part of the state: not set, finer or coarser (x10, x100)
  than the steady-state tolerance; the acceptance tolerance is the steady-state one in every case.  With a coarser
  step tolerance the classes with large drift come in two flavours (`loose`: within the coarser tolerance).
* Search horizons: 1 and 2 computed periods are part of the model (`horizon`), next to 5..200.  With T = 1 the
  previous value of a series is its initial condition (the lag of a generated variable gets an initial condition
  one step further back on the same recurrence).  T = 0 is not generated: there is no computed period and no pair
  of values; the unchanged code answers IndexError there (reported, not judged).
* "otherwise the search raises a no-equilibrium or value error" is demanded of well-formed systems; a system
  that names an undefined variable (the repository's own test expects NameError) is replayed but not judged
  on this clause.
* "equations, exogenous paths and horizon": Parser.Endogenous / Lagged / Decoration / InitialConditions /
  AllEquations, EquationString, VariableList; Parser.Exogenous and the stored series of every exogenous
  variable; Parser.MaxTime.  (Iteration cap and tolerance are logged as conformance only.)
Property clauses (can produce a VIOLATION): returned => every non-excluded series steady; not returned =>
NoEquilibriumError or ValueError; outer solver untouched at every observation point.
Conformance clauses (DRIFT): the class realised by the real solver is the generated one; accept/reject equals
the spec's Judge on the classes; accepted values are installed at k=0; the copy is deep, its exogenous series
are frozen and its horizon is T; the run fails the way the system was built to fail.
"""
import concurrent.futures
import copy
import json
import math
import multiprocessing
import random
from fractions import Fraction

from harness import core

Z = 1e-4
TOLS = [1e-2, 1e-3, 1e-4, 1e-5, 1e-6]
HORIZONS_QUICK = [5, 6, 8, 11, 16, 23, 30]


# --------------------------------------------------------------------------------------
# exact classification (projection): floats -> grid classes / Booleans
# --------------------------------------------------------------------------------------

def finite(*xs):
    return all(isinstance(x, (int, float)) and not isinstance(x, bool) and math.isfinite(x) for x in xs)


def mag(v):
    if v == 0:
        return 'z'
    if abs(Fraction(v)) < Fraction(Z):
        return 'pe' if v > 0 else 'ne'
    return 'pL' if v > 0 else 'nL'


def drift_class(prev, last, tol):
    d = abs(Fraction(last) - Fraction(prev))
    if d == 0:
        return 'zero'
    if d <= Fraction(tol):
        return 'small'
    if d <= Fraction(tol) * abs(Fraction(last)):
        return 'rel_small'
    return 'large'


def classify(prev, last, tol, nxt=None, tolc=None):
    """grid class of the final two values; nxt = the value one more period later (decides `stays` where the
    class has that bit: both values near zero, large drift)"""
    if not finite(prev, last):
        return {'prev': 'pL', 'last': 'pL', 'drift': 'large', 'stays': True, 'loose': False}   # outside the grid
    c = {'prev': mag(prev), 'last': mag(last), 'drift': drift_class(prev, last, tol), 'stays': True, 'loose': False}
    if tolc is not None and c['drift'] == 'large':
        # tolc: a step tolerance coarser than the steady-state tolerance; loose = the change is within THAT one
        d = abs(Fraction(last) - Fraction(prev))
        c['loose'] = bool(d <= Fraction(tolc) or d <= Fraction(tolc) * abs(Fraction(last)))
    if near_zero(c['prev']) and near_zero(c['last']) and c['drift'] == 'large' and nxt is not None:
        c['stays'] = bool(finite(nxt) and abs(Fraction(nxt)) < Fraction(Z))
    return c


def same3(a, b):
    return all(a[k] == b[k] for k in ('prev', 'last', 'drift'))


def steady(v0, v1, tol):
    """The property's notion of 'unchanged by one more period' (weaker readings, see module docstring)."""
    if not finite(v0, v1):
        return False
    a, b, t = Fraction(v0), Fraction(v1), Fraction(tol)
    d = abs(b - a)
    return d <= t * max(abs(a), abs(b)) or (abs(a) < Fraction(Z) and abs(b) < Fraction(Z)) or d <= t


def near_zero(m):
    return m in ('ne', 'z', 'pe')


# --------------------------------------------------------------------------------------
# generation of real systems for a grid class
# --------------------------------------------------------------------------------------

def dy(x, bits=20):
    """x rounded to a float with a short mantissa: sums k*x stay exact for the horizons used here."""
    if x == 0 or not math.isfinite(x):
        return x
    m, e = math.frexp(x)
    return math.ldexp(round(m * (1 << bits)), e - bits)


def cand_values(m, tol, T):
    if m == 'z':
        return [0.0]
    s = 1.0 if m[0] == 'p' else -1.0
    if m[1] == 'e':
        base = [0.5 * Z, 0.2 * Z, 0.8 * Z]
        if tol / 4 < Z / 2:
            base += [Z - tol / 4, tol / 4]
        if 3 * tol < Z:
            base += [3 * tol]
    else:
        base = [1000.0 + T, 1000.0, 100.0, 2.5, 0.01, 3 * Z, Z + tol / 4, Z + 3 * tol]
    return [s * dy(b) for b in base]


def cand_pairs(cls, tol, T, tolc=None):
    """concrete (prev*, last*) inside the class, away from its borders"""
    out = []
    seen = set()
    for last in cand_values(cls['last'], tol, T):
        a = abs(last)
        prevs = list(cand_values(cls['prev'], tol, T))
        diffs = {'zero': [0.0],
                 'small': [tol / 4, tol / 10, tol * 0.9],
                 'rel_small': [tol * math.sqrt(a)] if a > 1 else [],
                 'large': [1.0, 3 * max(tol, tol * a), 30 * max(tol, tol * a), 0.5 * a + 2 * tol,
                           a - a / 1.05, 2 * a, 0.3 * Z, 0.6 * Z, 1.6 * Z]}[cls['drift']]
        for df in diffs:
            df = dy(df)
            prevs += [last - df, last + df]
        for prev in prevs:
            if (prev, last) in seen or not finite(prev, last):
                continue
            seen.add((prev, last))
            c = classify(prev, last, tol, None, tolc)
            if same3(c, cls) and c['loose'] == cls.get('loose', False):
                out.append((prev, last))
    return out


def num(x):
    return repr(float(x))


def plus(c):
    return (' + ' + num(c)) if c >= 0 else (' - ' + num(-c))


def families(name, p, q, T, allow_trend):
    """-> list of (recipe name, builder); a builder returns dict(rhs, x0, exo) or None"""
    lag = 'LAG_' + name
    fams = []

    def lin(a, c):
        if a == 1.0:
            return lag + plus(c)
        return num(a) + '*' + lag + plus(c)

    if p == q:
        fams.append(('const', lambda: {'rhs': '1.0*' + lag, 'x0': q}))
        fams.append(('fixed', lambda: {'rhs': lin(0.5, q / 2), 'x0': q}))
        fams.append(('osc_fixed', lambda: {'rhs': lin(-1.0, 2 * q), 'x0': q}))
        fams.append(('exo', lambda: {'exo_only': [q, q + 7.0]}))
        if T >= 70 and q != 0:
            fams.append(('stable_saturated', lambda: {'rhs': lin(0.5, q / 2), 'x0': 0.0}))
        return fams
    d = q - p

    def drift():
        return {'rhs': lin(1.0, d), 'x0': q - T * d}
    fams.append(('drift', drift))

    a_st = max(0.5, round(10 ** (-6.0 / max(T - 1, 1)), 3))

    def stable(exo):
        def b():
            a = a_st
            fp = (q - a * p) / (1 - a)
            c = fp * (1 - a)
            x0 = fp + (p - fp) / a ** (T - 1)
            if exo:
                return {'rhs': num(a) + '*' + lag + ' + g_' + name, 'x0': x0, 'exo': ('g_' + name, [c, c + 5.0])}
            return {'rhs': lin(a, c), 'x0': x0}
        return b
    fams.append(('stable', stable(False)))
    fams.append(('stable_exo', stable(True)))

    def osc(a):
        def b():
            fp = (q + a * p) / (1 + a)
            c = fp * (1 + a)
            x0 = fp + (p - fp) / (-a) ** (T - 1)
            return {'rhs': lin(-a, c), 'x0': x0}
        return b
    fams.append(('osc_damped', osc(max(0.9, round(10 ** (-6.0 / max(T - 1, 1)), 3)))))
    fams.append(('osc_undamped', osc(1.0)))
    if T <= 60:
        fams.append(('osc_explosive', osc(1.1)))
    if p != 0 and q != 0 and (p > 0) == (q > 0) and 0.5 <= q / p <= 1.06:
        def grow():
            g = q / p
            return {'rhs': num(g) + '*' + lag, 'x0': p / g ** (T - 1)}
        fams.append(('grow', grow))
    if allow_trend:
        fams.append(('trend', lambda: {'rhs': num(q) + plus(d) + '*t', 'x0': None, 'no_lag': True}))
    return fams


def simulate(rhs, x0, T, lag):
    """values at steps T-1, T and T+1 of the recurrence, in the float arithmetic of eval (the solver evaluates
    the same text)"""
    code = compile(rhs, '<rhs>', 'eval')
    x = x0 if x0 is not None else 0.0
    prev = x
    for step in range(1, T + 1):
        prev = x
        now = -float(T - step)                       # the search runs along k = -T..0; t = k
        x = eval(code, SIM_GLOBALS, {lag: prev, 't': now, 'k': now})
    nxt = eval(code, SIM_GLOBALS, {lag: x, 't': 1.0, 'k': 1.0})
    return prev, x, nxt


SIM_GLOBALS = {'__builtins__': {}, 'max': max, 'min': min, 'pow': pow}


def realise_trend(name, cls, T, tol, rng):
    """A variable that is a pure function of time and never settles:  name = q*pow(g, k)  (or of t)."""
    pairs = [(p, q) for p, q in cand_pairs(cls, tol, T) if p != 0 and q != 0 and (p > 0) == (q > 0) and p != q]
    rng.shuffle(pairs)
    for p, q in pairs[:8]:
        g = q / p
        if not 0.2 <= g <= 5.0:
            continue
        tv = rng.choice(['k', 't'])
        rhs = '%s*pow(%s, %s)' % (num(q), num(g), tv)
        code = compile(rhs, '<rhs>', 'eval')
        d = [eval(code, SIM_GLOBALS, {'k': v, 't': v}) for v in (-1.0, -0.0, 1.0)]
        if classify(d[0], d[1], tol, d[2]) != cls:
            continue
        return {'recipe': 'time_trend_' + tv, 'target': [d[0], d[1]], 'endo': ['%s = %s' % (name, rhs)], 'init': [],
                'exo': [], 'series': [name], 'sim': tuple(d)}
    return None


def add_schedule(rhs, sim_rhs, x0, p, T, tol, lag, rng):
    """Make the recurrence depend on time through a schedule that is over M periods before the end of the search
    (H*max(0., -k - M): positive while k < -M, zero afterwards), and move the start so that the value at step T-1 is
    still p.  -> (rhs, sim_rhs, x0) or None"""
    if T < 5:
        return None
    M = rng.choice([2, 3, min(6, T - 2)])
    tv = 't' if (tol * T < 0.5 and rng.random() < 0.5) else 'k'
    H = rng.choice([-1.0, 1.0]) * dy(0.3 * max(abs(p), 1.0))
    term = ' + %s*max(0., -%s - %s)' % (num(H), tv, num(float(M)))
    rhs2, sim2 = rhs + term, sim_rhs + term
    try:
        b0 = simulate(sim2, 0.0, T, lag)[0]
        b1 = simulate(sim2, 1.0, T, lag)[0]
    except (OverflowError, ZeroDivisionError):
        return None
    A = b1 - b0
    if not finite(A, b0) or A == 0:
        return None
    x0n = (p - b0) / A
    if not finite(x0n) or abs(x0n) > 1e15:
        return None
    return rhs2, sim2, x0n, 'schedule_' + tv


def realise(name, cls, T, tol, rng, allow_trend=False, max_time=5, tdep='none', tolc=None):
    """A recurrence for variable `name` whose final two values after T steps have class cls.
    tdep = 'settled': the equation also mentions the time axis, through a schedule that is over before the last
    periods; tdep = 'trend': a pure function of time."""
    if tdep == 'trend':
        return realise_trend(name, cls, T, tol, rng)
    pairs = cand_pairs(cls, tol, T, tolc)
    rng.shuffle(pairs)
    for p, q in pairs[:8]:
        fams = families(name, p, q, T, allow_trend)
        rng.shuffle(fams)
        for rname, build in fams:
            try:
                b = build()
            except (OverflowError, ZeroDivisionError, ValueError):
                continue
            if b is None:
                continue
            lag = 'LAG_' + name
            if 'exo_only' in b:
                if tdep != 'none':
                    continue
                v0, v1 = b['exo_only']
                return {'recipe': rname, 'target': [p, q], 'endo': [], 'init': [], 'sim': (v0, v0, v0),
                        'exo': ['%s = [%s]*2 + [%s]*%d' % (name, num(v0), num(v1), max_time)], 'series': [name]}
            x0 = b['x0']
            if x0 is not None and (not finite(x0) or abs(x0) > 1e15):
                continue
            rhs = b['rhs']
            sim_rhs = rhs
            exo = []
            if 'exo' in b:
                gname, (c0, c1) = b['exo']
                sim_rhs = rhs.replace(gname, '(' + num(c0) + ')')
                exo = ['%s = [%s]*2 + [%s]*%d' % (gname, num(c0), num(c1), max_time)]
            tag = ''
            if tdep == 'settled':
                if b.get('no_lag'):
                    continue
                sch = add_schedule(rhs, sim_rhs, x0, p, T, tol, lag, rng)
                if sch is None:
                    continue
                rhs, sim_rhs, x0, tag = sch
                tag = '+' + tag
            try:
                sp, sq, sn = simulate(sim_rhs, x0, T, lag)
            except (OverflowError, ZeroDivisionError):
                continue
            if classify(sp, sq, tol, sn, tolc) != cls:
                continue
            if cls['drift'] != 'large' and not steady(sq, sn, tol):
                continue        # border window of an unstable recurrence (see module docstring): not generated
            if b.get('no_lag'):
                return {'recipe': rname, 'target': [p, q], 'endo': ['%s = %s' % (name, rhs)], 'init': [],
                        'exo': [], 'series': [name], 'sim': (sp, sq, sn)}
            return {'recipe': rname + tag, 'target': [p, q], 'sim': (sp, sq, sn),
                    'endo': ['%s = %s' % (name, rhs), '%s = %s(k-1)' % (lag, name)],
                    'init': ['%s(0) = %s' % (name, num(x0))] +
                            (['%s(0) = %s' % (lag, num(x0 - (sq - sp)))] if T == 1 else []),   # T=1: prev of the lag
                    'exo': exo, 'series': [name, lag]}
    return None


def realise_decorative(name, cls, src_name, src_sim, tol, T, rng):
    """A decorative variable  name = a*src + b  (nothing refers to it) whose final two values have class cls,
    given the simulated final values (prev, last, next) of the solved variable it is built on.  a = +-1 is tried
    first: a difference like  gap = debt - target  keeps the absolute drift and changes the level."""
    sp, sq, sn = src_sim
    pairs = cand_pairs(cls, tol, T)
    rng.shuffle(pairs)
    tries = []
    for p, q in pairs[:10]:
        if sq == sp:
            if p == q:
                tries.append((1.0, q - sq))
            continue
        for a in (1.0, -1.0):
            tries.append((a, q - a * sq))
        a_gen = (q - p) / (sq - sp)
        tries.append((a_gen, q - a_gen * sq))
    for a, bb in tries:
        if not finite(a, bb) or a == 0 or abs(a) > 1e12:
            continue
        rhs = '%s*%s%s' % (num(a), src_name, plus(bb))
        code = compile(rhs, '<rhs>', 'eval')
        try:
            d = [eval(code, {'__builtins__': {}}, {src_name: v}) for v in (sp, sq, sn)]
        except (OverflowError, ZeroDivisionError):
            continue
        if classify(d[0], d[1], tol, d[2]) != cls:
            continue
        if cls['drift'] != 'large' and not steady(d[1], d[2], tol):
            continue
        return {'recipe': 'decorative_affine' if abs(a) != 1.0 else 'decorative_difference', 'target': [d[0], d[1]],
                'endo': ['%s = %s' % (name, rhs)], 'init': [], 'exo': [], 'series': [name], 'sim': tuple(d)}
    return None


def assemble(parts, max_time):
    lines = []
    for p in parts:
        lines += p['endo']
    for p in parts:
        lines += p['init']
    lines.append('exogenous')
    for p in parts:
        lines += p['exo']
    lines.append('MaxTime = %d' % max_time)
    return '\n'.join(lines) + '\n'


def build_case(beh, seed, tier):
    """A real system for one behaviour of the model.  Returns a case dict, or None when no single
    (T, tol) realises all requested classes.  Every behaviour has its own generator, seeded by the run's
    seed and the behaviour itself (so neither TLC's output order nor parallel execution matters)."""
    rng = random.Random('%d:%s' % (seed, core.canonical(beh)))
    names = [''.join(nm) for nm in beh['names']]
    kinds = list(beh.get('kinds') or ['solved'] * len(names))
    tdeps = list(beh.get('tdep') or ['none'] * len(names))
    step_kind = beh.get('steptol', 'none')
    option = sorted(''.join(nm) for nm in beh['option'])       # ParameterInitialSteadyStateExcludedVariables
    max_time = rng.choice([3, 5, 10])
    hz = beh.get('horizon', 'many')
    if hz in ('one', 'two'):
        T = 1 if hz == 'one' else 2                   # very short search horizons
    elif tier == 'quick':
        T = rng.choice(HORIZONS_QUICK)
    else:
        T = rng.choice([rng.choice(HORIZONS_QUICK), rng.randint(5, 200), rng.randint(31, 200)])
    reduction = rng.random() < 0.7 or 'decorative' in kinds      # a decorative kind needs equation reduction
    base = {'behaviour': beh, 'T': T, 'max_time': max_time, 'wf': bool(beh['wf']), 'want': beh['runres'],
            'steptol': None}
    if beh['runres'] != 'ok':
        tol = rng.choice(TOLS)
        parts = [{'endo': ['%s = 0.5*LAG_%s + 1.0' % (v, v), 'LAG_%s = %s(k-1)' % (v, v)], 'init': [], 'exo': []}
                 for v in names]
        if beh['runres'] == 'conv':
            parts.append({'endo': ['w = -3.0*w + 4.0'], 'init': [], 'exo': []})      # sweeps end in a 2-cycle
        elif beh['runres'] == 'valerr':
            parts.append({'endo': ['w = 1.0/(LAG_w - LAG_w)', 'LAG_w = w(k-1)'], 'init': [], 'exo': []})
        else:
            parts.append({'endo': ['w = 0.5*LAG_w + undefined_name', 'LAG_w = w(k-1)'], 'init': [], 'exo': []})
            reduction = False
        base.update(tol=tol, text=assemble(parts, max_time), excluded=option, reduction=reduction, gen={}, recipes=[],
                    tdep={})
        return base
    tols = list(TOLS)
    rng.shuffle(tols)
    for tol in tols:
        # ParameterErrorTolerance: not set / finer / coarser than the steady-state tolerance
        steptol = {'none': None, 'finer': tol / rng.choice([10.0, 100.0]),
                   'coarser': tol * rng.choice([10.0, 100.0])}[step_kind]
        tolc = steptol if step_kind == 'coarser' else None
        parts, gen, recipes, parts_of = [], {}, [], {}
        ok = True
        for i, v in enumerate(names):
            is_ex = v in option and ('LAG_' + v) in option      # on the list together with its lag
            if kinds[i] == 'decorative':
                src = max(j for j in range(i) if kinds[j] == 'solved')     # built on the solved variable before it
                r = realise_decorative(v, beh['cls'][i], names[src], parts_of[src]['sim'], tol, T, rng)
            else:
                r = realise(v, beh['cls'][i], T, tol, rng, allow_trend=is_ex and tdeps[i] == 'none',
                            max_time=max_time, tdep=tdeps[i], tolc=tolc)
            if r is None:
                ok = False
                break
            parts.append(r)
            parts_of[i] = r
            gen[v] = beh['cls'][i]
            recipes.append(r['recipe'])
            # (with reduction off the copy is solved in the sweeps and may lag one period within the step tolerance;
            #  after a single search period it then catches up by twice the drift: not generated for short horizons)
            if not is_ex and kinds[i] != 'decorative' and r['recipe'] != 'exo' and rng.random() < 0.25 and \
                    (reduction or T > 2):
                parts.append({'endo': ['d_%s = 1.0*%s' % (v, v)], 'init': [], 'exo': []})     # decorative copy
        if ok:
            base.update(tdep=dict((v, tdeps[i]) for i, v in enumerate(names)), steptol=steptol)
            base.update(tol=tol, text=assemble(parts, max_time), excluded=option, reduction=reduction, gen=gen,
                        recipes=recipes)
            return base
    return None


CANONICAL = [('LAG_x1 - 1.0', -1000.0), ('LAG_x1 + 1.0', 1000.0), ('LAG_x1 - 1.0', 1000.0), ('LAG_x1 + 1.0', -1000.0),
             ('LAG_x1 + 1.0', 0.0), ('LAG_x1 - 1.0', 0.0), ('1.05*LAG_x1', 1.0), ('1.05*LAG_x1', -1.0),
             ('0.5*LAG_x1 + 50.0', 0.0), ('0.5*LAG_x1 - 50.0', 0.0), ('0.5*LAG_x1', 1.0), ('0.5*LAG_x1', -1.0),
             ('-0.9*LAG_x1 + 19.0', 0.0), ('-0.9*LAG_x1 - 19.0', 0.0), ('-1.0*LAG_x1', 10.0), ('-1.0*LAG_x1', -10.0),
             ('-1.0*LAG_x1', 0.0), ('-1.1*LAG_x1 + 2.1', 1.5), ('LAG_x1 + 0.0', -1000.0),
             ('LAG_x1 + 3e-05', -0.00052), ('LAG_x1 - 8e-05', 0.00152), ('LAG_x1 + 0.00016', -0.00312)]


def canonical_cases(tier):
    """The systems named in the property's description, at fixed (T, tol); the class is computed."""
    grid = [(20, 1e-4), (5, 1e-2), (30, 1e-6), (20, 1e-6), (1, 1e-4), (2, 1e-4), (3, 1e-3)]
    if tier != 'quick':
        grid += [(200, 1e-4), (137, 1e-3), (61, 1e-5)]
    out = []
    for rhs, x0 in CANONICAL:
        for T, tol in grid:
            sp, sq, sn = simulate(rhs, x0, T, 'LAG_x1')
            cls = classify(sp, sq, tol, sn)
            beh = {'n': 1, 'names': [['x', '1']], 'kinds': ['solved'], 'tdep': ['none'], 'steptol': 'none', 'option': [['t']], 'excluded': [], 'wf': True, 'runres': 'ok',
                   'cls': [cls], 'canonical': True}
            text = 'x1 = %s\nLAG_x1 = x1(k-1)\nx1(0) = %s\nexogenous\nMaxTime = 5\n' % (rhs, num(x0))
            out.append({'behaviour': beh, 'T': T, 'max_time': 5, 'wf': True, 'want': 'ok', 'tol': tol, 'text': text,
                        'excluded': ['t'], 'reduction': True, 'gen': {'x1': cls}, 'recipes': ['canonical']})
    return out


# --------------------------------------------------------------------------------------
# driving the real solver
# --------------------------------------------------------------------------------------

def snapshot(s):
    p = s.Parser
    exo_names = [x[0] for x in p.Exogenous]
    return copy.deepcopy({
        'eq': [p.Endogenous, p.Lagged, p.Decoration, p.InitialConditions, p.AllEquations, s.EquationString,
               s.VariableList, s.RunEquationReduction],
        'exo': [p.Exogenous, dict((v, s.TimeSeries.get(v)) for v in exo_names)],
        'hor': [p.MaxTime, s.MaxTime],
        'cfg': [p.Err_Tolerance, s.MaxIterations, s.ParameterErrorTolerance],
    })


def same(before, s):
    now = snapshot(s)
    return {'same_eq': now['eq'] == before['eq'], 'same_exo': now['exo'] == before['exo'],
            'same_hor': now['hor'] == before['hor']}, now['cfg'] == before['cfg']


def execute(case):
    """Run one generated system on the real solver; returns the list of trace events (never raises for
    anything the solver does; a failure to even build the solver is reported as {'machinery': ...})."""
    from sfc_models.equation_solver import EquationSolver
    T, tol = case['T'], case['tol']
    try:
        s = EquationSolver(case['text'], run_equation_reduction=case['reduction'])
        s.ParameterInitialSteadyStateMaxTime = T
        s.ParameterInitialSteadyStateErrorToler = tol
        s.ParameterInitialSteadyStateExcludedVariables = list(case['excluded'])
        steptol = case.get('steptol')
        if steptol is not None:
            s.ParameterErrorTolerance = steptol              # the solver's own (per-period) tolerance
        tolc = steptol if (steptol is not None and steptol > tol) else None
        step_kind = 'none' if steptol is None else ('coarser' if steptol > tol else 'finer')
        s.ExtractVariableList()
        s.SetInitialConditions()
        names = list(s.TimeSeries.keys())
        kind_of = {}
        for kind, lst in (('solved', s.Parser.Endogenous), ('lagged', s.Parser.Lagged),
                          ('decorative', s.Parser.Decoration), ('exogenous', s.Parser.Exogenous)):
            for x in lst:
                kind_of.setdefault(x[0], kind)
        before = snapshot(s)
        k0 = dict((v, s.TimeSeries[v][0]) for v in names)
    except Exception as e:                                   # the generator wrote something unusable
        return [{'machinery': 'cannot set up solver: %s: %s' % (type(e).__name__, e)}]
    exo_user = [x[0] for x in s.Parser.Exogenous if x[0] != 'k']
    obs = {}
    real_copy = s._GetCopy

    def wrapped_copy():
        c = real_copy()
        obs['inner'] = c
        obs['copy_same'] = same(before, s)[0]
        try:
            obs['deep'] = bool(c is not s and c.Parser is not s.Parser and c.TimeSeries is not s.TimeSeries and
                               all(c.TimeSeries[v] is not s.TimeSeries[v] for v in names) and
                               all(a is not b for a, b in zip(c.Parser.Exogenous, s.Parser.Exogenous)
                                   if isinstance(a[1], list)))
        except Exception:
            obs['deep'] = False
        real_step = c.SolveStep

        def wrapped_step(step, *a, **kw):
            if 'freeze_same' not in obs:
                obs['freeze_same'] = same(before, s)[0]
                try:
                    obs['frozen'] = all(list(c.TimeSeries[v]) == [k0[v]] * (T + 1) for v in exo_user)
                    obs['hor_ok'] = bool(c.Parser.MaxTime == T)
                    obs['axis_ok'] = bool(list(c.TimeSeries['k']) == [-float(x) for x in range(T, -1, -1)])
                    obs['tol_ok'] = bool(float(c.Parser.Err_Tolerance) == tol)
                except Exception:
                    obs['frozen'], obs['hor_ok'], obs['axis_ok'], obs['tol_ok'] = False, False, False, False
            return real_step(step, *a, **kw)
        c.SolveStep = wrapped_step
        return c
    s._GetCopy = wrapped_copy
    exc = None
    try:
        s.CalculateInitialSteadyState()
        outcome = 'returned'
    except Exception as e:
        exc = e
        tn = type(e).__name__
        outcome = tn if tn in ('NoEquilibriumError', 'ValueError') else 'other'
    s.__dict__.pop('_GetCopy', None)
    final_same, cfg_same = same(before, s)
    inner = obs.get('inner')
    complete = False
    finals = {}
    if inner is not None:
        try:
            complete = all(len(inner.TimeSeries[v]) == T + 1 for v in names)
            if complete:
                finals = dict((v, (inner.TimeSeries[v][-2], inner.TimeSeries[v][-1])) for v in names)
        except Exception:
            complete = False
    nxt = {}
    if complete:
        # the search's own copy, one more period: the value after `last` (decides the `stays` bit of a class)
        try:
            c2 = copy.deepcopy(inner)
            c2.__dict__.pop('SolveStep', None)
            for v, dummy in c2.Parser.Exogenous:
                c2.TimeSeries[v] = list(c2.TimeSeries[v]) + [1.0 if v == 'k' else c2.TimeSeries[v][-1]]
            c2.SolveStep(T + 1)
            nxt = dict((v, c2.TimeSeries[v][T + 1]) for v in names)
        except Exception:
            nxt = {}
    if complete:
        res = 'ok'
    elif type(exc).__name__ == 'ValueError' and 'No convergence in initial equilibrium' in str(exc):
        res = 'conv'
    elif isinstance(exc, ValueError):
        res = 'valerr'
    else:
        res = 'other'
    excl_names = ['k'] + list(case['excluded'])
    idx_excl = [i + 1 for i, v in enumerate(names) if v in excl_names]
    # one further period from the installed values
    further_ok = True
    change = {}
    if outcome == 'returned':
        try:
            s2 = copy.deepcopy(s)
            for v in exo_user:
                s2.TimeSeries[v] = [s2.TimeSeries[v][0]] * len(s2.TimeSeries[v])
            s2.Parser.Err_Tolerance = tol
            s2.MaxIterations = 1000
            s2.SolveStep(1)
            change = dict((v, (s2.TimeSeries[v][0], s2.TimeSeries[v][1])) for v in names)
        except Exception as e:
            further_ok = False
            obs['further_exc'] = type(e).__name__
    events = [{'ev': 'Begin', 'n': len(names), 'names': [list(v) for v in names],
               'kinds': [kind_of.get(v, 'solved') for v in names],
               'tdep': [case.get('tdep', {}).get(v, 'none') for v in names],
               'horizon': 'one' if T == 1 else ('two' if T == 2 else 'many'),
               'steptol': step_kind, 'steptoltext': '' if steptol is None else num(steptol),
               'option': [list(v) for v in case['excluded']], 'listed': idx_excl, 'wf': case['wf'],
               'T': T, 'toltext': num(tol)}]
    cs = obs.get('copy_same', final_same)
    events.append(dict({'ev': 'Copy', 'deep': bool(obs.get('deep', False))}, **cs))
    fs = obs.get('freeze_same', final_same)
    events.append(dict({'ev': 'Freeze', 'frozen': bool(obs.get('frozen', False)),
                        'hor_ok': bool(obs.get('hor_ok', False)), 'axis_ok': bool(obs.get('axis_ok', False)),
                        'tol_ok': bool(obs.get('tol_ok', False))}, **fs))
    classes = [classify(finals[v][0], finals[v][1], tol, nxt.get(v), tolc) for v in names] if res == 'ok' else []
    events.append(dict({'ev': 'Run', 'res': res, 'want': case['want'], 'cls': classes}, **final_same))
    if res == 'ok':
        for i, v in enumerate(names):
            ex = v in excl_names
            st = True
            if outcome == 'returned' and further_ok and not ex:
                st = steady(change[v][0], change[v][1], tol)
            ev = {'ev': 'Judge', 'idx': i + 1, 'name': v, 'excl': ex, 'gen': case['gen'].get(v, classes[i]),
                  'inst': bool(s.TimeSeries[v][0] == finals[v][1]), 'steady': st,
                  'vals': [num(finals[v][0]), num(finals[v][1])]}
            if v in change:
                ev['step'] = [num(change[v][0]), num(change[v][1])]
            events.append(ev)
    events.append(dict({'ev': 'Outcome', 'outcome': outcome, 'further_ok': further_ok, 'same_cfg': cfg_same,
                        'exc': '' if exc is None else ('%s: %s' % (type(exc).__name__, exc))[:120]}, **final_same))
    return events


# --------------------------------------------------------------------------------------
# verdicts
# --------------------------------------------------------------------------------------

def signature(clause, case, events):
    if clause == 'C15_LeavesSolverUntouched':
        for e in events:
            ch = [k[5:] for k in ('same_eq', 'same_exo', 'same_hor') if e.get(k) is False]
            if ch:
                return 'outer-solver-changed:' + '+'.join(ch) + ':first-seen-at-' + e['ev']
        return 'outer-solver-changed'
    if clause == 'C15_OtherwiseRaises':
        out = [e for e in events if e['ev'] == 'Outcome'][0]
        return 'search-raises:' + (out['exc'].split(':')[0] or 'unknown')
    if clause == 'C15_AcceptedIsSteady':
        begin = events[0]
        if any(e['ev'] == 'Freeze' and not e.get('axis_ok', True) for e in events):
            return 'time-axis:search-not-run-along-k=-T..0:time-dependent-series-accepted-off-its-k=0-rest-point'
        if begin.get('horizon') == 'one':
            run1 = [e for e in events if e['ev'] == 'Run'][0]
            if any(e['ev'] == 'Judge' and not e['excl'] and run1['cls'][e['idx'] - 1]['drift'] == 'large' for e in events):
                return 'short-horizon:single-computed-period-accepted-without-comparison-with-the-initial-value'
        if begin.get('steptol') == 'coarser':
            run0 = [e for e in events if e['ev'] == 'Run'][0]
            if any(e['ev'] == 'Judge' and not e['excl'] and run0['cls'][e['idx'] - 1].get('loose') for e in events):
                return 'tolerance:acceptance-test-used-the-coarser-step-tolerance-instead-of-the-steady-state-one'
        opt = [''.join(o) for o in begin['option']] + ['k']
        for e in events:
            if e['ev'] == 'Judge' and not e['excl'] and not e['inst']:
                inside = [o for o in opt if e['name'] in o]
                if inside:
                    return 'exclusion:series-whose-name-occurs-inside-an-excluded-name-is-skipped-not-installed'
                if begin['kinds'][e['idx'] - 1] == 'decorative':
                    return 'decorative:series-not-installed'
                return 'exclusion:non-excluded-series-not-installed'
        # name the cause: among the non-excluded series of the accepted system, the class whose acceptance is
        # least defensible (a system is accepted only if every series passes, so one such series is the cause)
        run = [e for e in events if e['ev'] == 'Run'][0]
        tags = []
        for e in events:
            if e['ev'] != 'Judge' or e['excl']:
                continue
            c = run['cls'][e['idx'] - 1]
            if begin['kinds'][e['idx'] - 1] == 'decorative' and c['drift'] == 'large' and \
                    not (near_zero(c['prev']) and near_zero(c['last'])):
                tags.append((0, 'decorative:series-with-large-drift-accepted-untested'))
                continue
            if c['drift'] != 'large':
                if not e['steady']:
                    tags.append((6, 'accepted-unsteady:%s:%s:%s' % (c['prev'], c['last'], c['drift'])))
            elif c['last'] == 'pL' and c['prev'] != 'pL':
                tags.append((1, 'relative-test:positive-value-accepted-although-the-previous-one-differs-in-sign-or-'
                             'size:%s:%s' % (c['prev'], c['last'])))
            elif c['last'] == 'nL':
                tags.append((2, 'signed-relative-test:negative-value-with-large-drift-accepted'))
            elif c['last'] == 'pL':
                tags.append((3, 'relative-test:positive-value-with-large-drift-accepted'))
            elif not near_zero(c['prev']):
                tags.append((4, 'near-zero-test:accepted-although-previous-value-is-not-near-zero'))
            elif not e['steady']:
                tags.append((5, 'near-zero-band:accepted-inside-the-band-but-the-next-value-leaves-it'))
        if tags:
            return min(tags)[1]
        return 'further-step-raises'
    return clause


def nontrivial(case):
    b = case['behaviour']
    return b['runres'] == 'ok' and any(c['drift'] != 'zero' for c in b['cls'])


def _work(item):
    """item = ('case', case) | ('beh', behaviour, seed, tier)  ->  (case or None, events or None)"""
    if item[0] == 'case':
        return item[1], execute(item[1])
    case = build_case(item[1], item[2], item[3])
    if case is None:
        return None, None
    return case, execute(case)


def _pool_map(items):
    if len(items) < 200:
        return [_work(x) for x in items]
    ctx = multiprocessing.get_context('fork')
    with concurrent.futures.ProcessPoolExecutor(max_workers=8, mp_context=ctx) as ex:
        return list(ex.map(_work, items, chunksize=50))


def judge(rep, items, stats=None):
    """build (where needed) and execute the items, validate the traces, file the verdicts;
    returns the number of behaviours no system could be generated for"""
    stats = stats if stats is not None else {}
    done = _pool_map(items)
    unreal = sum(1 for c, e in done if c is None)
    cases = [c for c, e in done if c is not None]
    observed = [e for c, e in done if c is not None]
    for c in cases:
        for r in c['recipes']:
            stats.setdefault('recipes', {})
            stats['recipes'][r] = stats['recipes'].get(r, 0) + 1
    traces = []
    for i, (c, evs) in enumerate(zip(cases, observed)):
        if evs and 'machinery' in evs[0]:
            raise core.MachineryError('%s\n%s' % (evs[0]['machinery'], c['text']))
        traces.append((i, evs))
        rep.add_case({'system': c, 'observed': evs} if i < 3 else c, nontrivial(c))
        out = evs[-1]['outcome']
        stats.setdefault('outcomes', {})
        stats['outcomes'][out] = stats['outcomes'].get(out, 0) + 1
    verdicts, st, tr = core.validate_traces('MC_Steady_Trace', 'MC_Steady_Trace.cfg', traces, tag='c15', chunk=700,
                                              timeout=14400)
    rep.traces += len(traces)
    rep.extra['trace_validation_states'] = rep.extra.get('trace_validation_states', 0) + st
    for i, c in enumerate(cases):
        v = verdicts[i]
        if v == 'ok:':
            continue
        kind, clause = v.split(':', 1)
        full = {'system': c, 'observed': traces[i][1]}
        if kind == 'property':
            rep.violate(clause, signature(clause, c, traces[i][1]), full,
                        detail='T=%d tol=%s excluded=%s\n%s observed %s' % (
                            c['T'], num(c['tol']), c['excluded'], c['text'].replace('\n', ' | '),
                            json.dumps([e for e in traces[i][1] if e['ev'] in ('Judge', 'Outcome')])[:600]))
        else:
            rep.add_drift(clause, full)
    return unreal


INSTANCES = {
    'quick': [('MC_Steady_quick.cfg', 1)],
    'thorough': [('MC_Steady_quick.cfg', 1), ('MC_Steady_thorough.cfg', 1), ('MC_Steady_thorough3e.cfg', 1)],
}


def run(rep):
    rep.rule = ('behaviours = all maximal histories of the bounded Steady instances emitted by TLC (number of '
                'variables and their names, exclusion option, well-formedness, outcome of the run, grid class of every variable, then '
                'Judge per variable and Install / Reject / Raise); each is realised by one seeded real equation '
                'system (recurrence family, targets inside the class, horizon T, tolerance, reduction on/off, '
                'optional decorative copy / exogenous input) plus the canonical systems of the property text; '
                'distinct = distinct (behaviour, system text, T, tol); non-trivial = the run completed and at '
                'least one variable has non-zero drift')
    rep.exhaustive = True
    rep.assumptions = ['classes are realised by linear recurrences explicit in the lagged value (triangular systems: '
                       'the sweeps of one period end exactly), no judged variable depends on time',
                       'steady is evaluated with exact rationals of the observed floats; relative = relative to the '
                       'larger magnitude; the further period is solved with the tolerance and sweep cap of the search',
                       'border windows of unstable recurrences (last change within tol, next change up to 1.1*tol) are '
                       'not generated',
                       'an excluded variable is never an input of a non-excluded one',
                       'grid combinations that no single tolerance in {1e-2..1e-6} realises are counted in '
                       'unrealisable_combinations and not replayed',
                       'TLC 1.8 / tla2tools; the 3-variable full grid is model-checked exhaustively but replayed '
                       'only on a sub-grid (thorough)']
    seen = set()
    stats = {}
    unreal = 0
    if rep.tier != 'quick':
        res = core.tlc('MC_Steady', 'MC_Steady_thorough3.cfg', workers=4, tag='c15', want_printed=False,
                       timeout=14400)        # 5e6 states: 2 min on a quiet machine, hours on a starved one
        if res.violated:
            raise core.MachineryError('spec invariant %s violated in MC_Steady_thorough3.cfg' % res.violated)
        rep.add_tlc(res, 'exhaustive MC_Steady_thorough3.cfg (3 variables, full grid, not emitted)')
    first = True
    for cfg, workers in INSTANCES[rep.tier]:
        res = core.tlc('MC_Steady', cfg, workers=workers, tag='c15', timeout=7200)
        if res.violated:
            raise core.MachineryError('spec invariant %s violated in %s' % (res.violated, cfg))
        rep.add_tlc(res, 'exhaustive ' + cfg)
        behs = []
        for b in core.json_of_printed(res, 'BEH'):
            k = core.canonical(b)
            if k not in seen:
                seen.add(k)
                behs.append(b)
        if not behs:
            raise core.MachineryError('TLC emitted no behaviours for ' + cfg)
        behs.sort(key=core.canonical)
        items = [('case', c) for c in canonical_cases(rep.tier)] if first else []
        first = False
        items += [('beh', b, rep.seed, rep.tier) for b in behs]
        unreal += judge(rep, items, stats)
    rep.extra['outcomes'] = stats.get('outcomes', {})
    rep.extra['unrealisable_combinations'] = unreal
    if unreal:
        rep.exhaustive = False
    rep.extra['recipes_used'] = stats.get('recipes', {})
    rep.extra['behaviours_emitted'] = len(seen)


def replay(path):
    with open(path) as f:
        data = json.load(f)
    case = data['case']['system']
    rep = core.Report('C15', 'quick', 0)
    judge(rep, [('case', case)])
    print(json.dumps({'system': case, 'observed_now': execute(case)}, indent=1))
    for v in rep.violations:
        print('VIOLATION property=C15 replay=%s' % path)
        print('  clause=%s signature=%s' % (v.clause, v.signature))
        return 1
    print('replay: property clause holds on this case now')
    return 0
