"""C20 - the generated stand-alone solver agrees with the in-process solver.

spec:   spec/Codegen.tla (actions ParseBlock, GenerateEquations, GenerateFile, Import, RunStep, Regenerate; invariants
        C20_Closed, C20_HeaderTimeFirst, C20_StepAppendsAll, C20_StepSatisfiesEquations, C20_RunsClean).
        Names only: which names each section of the written module binds / reads / indexes.
        AsFound_KUndefined = TRUE is the pinned generator (the shared parser injects 't = k', nothing in
        the module binds k): MC_Codegen_asfound.cfg makes TLC report C20_Closed violated.
TLC:    exhaustive check of the bounded instance MC_Codegen: blocks from a small grammar (1-3
        simultaneous affine equations with contraction factor <= 0.5, optional lag / initial condition /
        exogenous list / constant spelled as literal, math call or parameter line / Err_Tolerance, time
        axis injected by the parser, user-defined endogenous, or user-defined exogenous); every block is
        one maximal behaviour and is emitted.
replay: every block is rendered to text and given to the REAL IterativeMachineGenerator(text).main(file);
        the file goes to a scratch directory (core.workdir, outside the tree under test, removed
        afterwards), is parsed with ast (names of the declaration / pack / Iterator / unpack sections),
        imported with importlib under a unique module name, SFCModel() is constructed and main() run
        (RunOneStep is wrapped on the instance to observe every step).  Recorded: exceptions, the
        generator's lists, VariableList, the CreateCsvString() header, series lengths after every step,
        the series themselves.  The in-process EquationSolver solves the same text from the same k = 0
        values (ExtractVariableList / SetInitialConditions / k = 0 overwritten with the module's /
        SolveStep per period).
        Regeneration: for every block in the thorough tier and a seeded third of the blocks in the quick
        tier, main(<second file>) is called AGAIN on the same IterativeMachineGenerator object (the lists
        it holds persist, e.g. the step-index series GenerateEquations appended to Exogenous); the second
        module is imported, run and judged by the same clauses.
        Numeric predicates, exact rationals (fractions.Fraction):
          resid_ok(k)  every equation of the block holds on the module's own values of period k, lags
                       from its own period k-1, exogenous from the supplied path (and the module's
                       exogenous series equal the supplied path), within the ABSOLUTE bound
                       B = 4*n*(1+L)*tol + n*2**-46*scale  (n equations, L largest |coefficient|, tol the
                       block's Err_Tolerance, scale = max(1, largest |value| of periods k-1, k), the second
                       term only covers double rounding); the step index k of 't = k' is the period number,
                       as in EquationSolver.
          agree_ok(k)  |module - in-process| <= D_k componentwise, D_k = (I-|A|)^-1 (|Lag| D_{k-1} +
                       B_module + B_inprocess), D_0 = 0, B_inprocess = 4*n*(1+L)*tol*scale (the in-process
                       solver stops on a RELATIVE measure); exogenous series equal.
trace:  the recorded executions are validated by TLC against Codegen_Trace (same operators); one total
        verdict per block.

Property clauses (the only sources of a VIOLATION), per the statement of C20:
  C20_ImportAndRun            generation, import, SFCModel() and every RunOneStep raise nothing
  C20_StepAppendsAll          every endogenous variable has a value for every period 1..MaxTime
  C20_StepSatisfiesEquations  resid_ok for every k >= 1
  C20_AgreesWithInProcess     agree_ok for every k >= 1
  C20_HeaderTimeFirst         CreateCsvString(): 't' first, every non-lagged variable of the block once,
                              no column twice
Math names (fourth follow-up): the constant of equation 1 is spelled as one of 26 closed expressions over names
of the math module and the builtins the parser admits (tanh, sinh, atan2, log1p, hypot, e, tau, erf, max, min,
abs, pow, round, ...), the time trend may be wrapped (max(t, 0.0), hypot(t, 0.0), ...), an exogenous list
expression may use them too; the driver computes their float values, so the block stays affine.  The generated
module must resolve every name the in-process solver resolves (C20_ResolvesSolverNames, C20_Closed over the
module's own globals, which the driver reads from the import statements of the written file).

Exogenous spellings (tenth follow-up): paths written repeat-count first (2*[20.0, ] + 4*[25.0, ]), as a tuple, or
parenthesised; the module must declare the block's own expression (C20_ExogenousDeclaredVerbatim).

Magnitudes (ninth follow-up): constants 2000.0 / 1000000.0 crossed with Err_Tolerance 1e-4 / 1e-6 / default on
coupled matrices: the equation error must stay of the order of the stated tolerance, not tolerance x |value|.

Histories and text (eighth follow-up): two-block histories on ONE generator object (IterativeMachineGenerator(A)
.main(file); ParseString(B); main(file)): every per-block attribute of B's module - tolerance, horizon, lists,
chained lags, k - must be B's (C20_AttributesFromCurrentBlock; A differs from B in all of them).  Blocks that are
a time axis only (n = 0: `t = 1.0`, an exogenous t) have ONE variable: the iteration vector must still be a
tuple (C20_VectorIsTuple).  Comments (plain, a Windows path, \\N / \\x) are inert.  A variable named like the
template placeholder ITERATOR must be refused like the other names of the generated class.

Step index (seventh follow-up): ordinary equations (+ 0.25*k) and a user-defined time equation (t = 0.25*k +
2000.0) read the step index k under every kind of time axis; the module must bind k whenever an equation reads it
(C20_Closed; GenEqOp adds k whenever ReadsK, not only for the injected t = k).

Nameless right-hand sides (sixth follow-up): the parameter line and zero-row equations are spelled as a plain
literal or as arithmetic on literals only (4/2, (2.0), - 2.0, 3/5, 0.04/4, 0x2, ...), read by other equations; the
Iterator must evaluate every equation as written (C20_IteratorEvaluatesEquations), whatever the declaration takes
for the k = 0 value.

Reduction and tolerance (fifth follow-up): the constructor option run_equation_reduction is part of the block
(reduce): decorative variables (leaves, an unread alias INC = <last>, the injected t = k when unread) are moved
behind the others but every variable is still solved ONCE (C20_EachVariableOnce, C20_ReductionKeepsEquations).
Err_Tolerance = 1.0 / 2.0 with values around 1e6: the stopping rule must still let the iteration run.

Names and lags (second follow-up): the grammar also uses variable names that are locals of the generated
RunOneStep / Iterator (err, cnt = 500.0, new_vector, in_vec - the loop state must stay the module's own:
C20_LoopStateOwn), a lag of a lagged variable (LAG2_y = LAG_y(k-1)), two lags of ONE lagged variable in any declaration order
(every series the module keeps must get exactly one value per period - C20_StepAppendsAll), and names of attributes / methods of the
generated class (STEP, main, orig_vector, MaxIterations; NEW_x next to x - the Iterator's local): such a block must be refused by the generator's
constructor (it is then not an accepted block); if it is accepted its module is judged like any other.

Readings (the weaker one where the statement leaves a choice):
  * blocks are well-posed: exogenous values are LISTS ("exogenous lists" in the quantifier; the scalar
    shorthand  G = 20.  of the in-process solver is not generated) with at least MaxTime+1 values, the
    system contracts (factor <= 0.5) - divergence and too-short lists are C02/C10/C11;
  * "the stated tolerance": the module's Err_Tolerance is an absolute number (its stopping rule is the plain
    sum of absolute changes), so the equation error of the module is judged ABSOLUTELY, whatever the
    magnitude of the values (blocks with constants 2e3 and 1e6 crossed with 1e-4 / 1e-6 / default);
  * extra columns in the table (e.g. a step-index series) are allowed but, like every column, at most
    once; lagged variables are not required; the clauses hold for every module a generator object writes;
  * everything about the spelling / order of the generated sections is conformance (DRIFT), not property.
"""
import ast
import builtins
import importlib.util
import json
import math
import multiprocessing
import os
import random
import re
from fractions import Fraction as F

from harness import core

NAMESETS = [['x', 'y', 'z', 'c0'],                               # = NameSets of MC_Codegen
            ['err', 'new_vector', 'in_vec', 'cnt'],
            ['STEP', 'main', 'orig_vector', 'MaxIterations'],
            ['x', 'NEW_x', 'z', 'c0'],
            ['ITERATOR', 'y', 'z', 'c0']]
PARAM_VALUE = [2, 500, 2, 2, 2]
# cm: comments in the block text (inert for the parser; the whole text goes into the module's docstring)
COMMENTS = [None, '(3.1) household sector, plain comment', r'data copied from C:\Users\new\table.txt',
            r'rates in \N per \x quarter']                                         # the parameter line: c0 = 2.0 / cnt = 500.0 / ...
LOOP_NAMES = ('err', 'cnt')                                       # = LoopNames of Codegen
OWN_NAMES = ('STEP', 'MaxTime', 'MaxIterations', 'Err_Tolerance', 'PrintIterations', 'VariableList', 'main',
             'RunOneStep', 'Iterator', 'CalcError', 'WriteCSV', 'CreateCsvString', 'orig_vector', 'ITERATOR')   # = ModuleOwnNames
# = MathNames of MC_Codegen / MC_Codegen_Trace.cfg: names of the math module the blocks use
MATH_NAMES = ['sqrt', 'exp', 'log', 'floor', 'pi', 'tanh', 'sinh', 'cosh', 'atan2', 'log1p', 'expm1', 'log2', 'hypot',
              'e', 'tau', 'erf', 'copysign', 'degrees', 'gamma', 'trunc', 'fabs']
BUILTIN_NAMES = ['float', 'max', 'min', 'sum', 'pow', 'abs', 'round']   # = BuiltinNames of Codegen (parser's good_tokens)
UNIVERSE = set(MATH_NAMES) | set(BUILTIN_NAMES)                          # = SolverNames
# = ConstSpellingReads of MC_Codegen (fn = index + 1): the constant of equation 1 as a closed expression
CONST_SPELLINGS = ['sqrt(4.0)', 'tanh(0.5) + 1.5', 'sinh(1.0)', 'cosh(0.0) + 1.0', 'atan2(2.0, 1.0) + 1.0',
                   'log1p(1.0) + 1.0', 'expm1(1.0)', 'log2(4.0)', 'hypot(1.2, 1.6)', 'e', 'tau / pi', 'erf(0.5) + 1.5',
                   'copysign(2.0, 1.0)', 'degrees(pi) / 90.0', 'gamma(3.0)', 'trunc(2.5)', 'max(2.0, 1.0)',
                   'min(2.0, 3.0)', 'abs(-2.0)', 'pow(2.0, 1.0)', 'round(2.2)', 'float(2)', 'sum([1.0, 1.0])',
                   'exp(log(2.0))', 'floor(2.5)', 'fabs(-2.0)']
# ps = index: a whole right-hand side without any name (the parameter line, zero-row equations); index 0 = the
# plain literal of the block; the others are arithmetic on literals only (their values differ, the driver evaluates)
PARAM_SPELLINGS = [None, '4/2', '0.5*4', '(2.0)', '- 2.0', '2*0.3', '3/5', '0.04/4', '1e3/500', '2.0 ** 1', '-(-2.0)',
                   '0x2', '5 - 3']
# = TimeWrapReads of MC_Codegen (tw): spellings of the time trend, all equal to t for t >= 0
TIME_WRAPS = ['t', 'max(t, 0.0)', 'hypot(t, 0.0)', 'abs(t)', 'copysign(t, 1.0)']
RESERVED_ATTRS = ('MaxIterations', 'MaxTime', 'STEP', 'PrintIterations', 'Err_Tolerance', 'VariableList')
NAME_FIELDS = ('endo', 'lagged', 'exos', 'ics', 'maxTime', 'foundT', 'reduce', 'tolText')
GRAMMAR_FIELDS = ('n', 'A', 'lag', 'ic', 'exo', 'cst', 'userT', 'useT', 'tol', 'maxTime', 'nm', 'fn', 'tw', 'red', 'al', 'ps', 'uk', 'cm')
REGEN_FRACTION_QUICK = 1.0 / 3.0


# --------------------------------------------------------------------------------------
# block -> affine system -> text
# --------------------------------------------------------------------------------------

def system(block):
    """The block as an affine system: {var: {'same': {name: coef}, 'lag': {of: coef}, 'const': c, 'k': c}}
    (insertion order = text order), the lag names, the supplied exogenous paths and their source text."""
    n, A, mt = block['n'], block['A'], block['maxTime']
    nm = block.get('nm', 0)
    names = NAMESETS[nm][:n]
    param = NAMESETS[nm][3]
    last = names[-1] if names else None          # n = 0: the block is its time axis only
    eqs = {}
    for i, v in enumerate(names):
        e = {'same': {}, 'lag': {}, 'const': F(0), 'k': F(0), 'const_text': None}
        for j, u in enumerate(names):
            if j != i and A[i][j] != 0:
                e['same'][u] = F(A[i][j], 4)
        if i == 0:
            if block['lag'] in (1, 2):
                e['lag_terms'] = [('LAG_' + last, last, F(1, 2) if block['lag'] == 1 else F(1))]
            elif block['lag'] >= 3:                        # LAG2_<last> = LAG_<last>(k-1)
                e['lag_terms'] = [('LAG2_' + last, 'LAG_' + last, F(1, 2))]
                if block['lag'] >= 4:                      # LAGB_<last> = LAG_<last>(k-1) as well
                    e['lag_terms'].append(('LAGB_' + last, 'LAG_' + last, F(1, 4)))
            for dummy, of, c in e.get('lag_terms', []):
                e['lag'][of] = e['lag'].get(of, F(0)) + c
            if block['exo']:
                e['same']['G'] = F(1)
            if block['cst'] == 2:
                e['same'][param] = F(1)
            else:
                e['const'] = {3: F(1000000), 4: F(2000)}.get(block['cst'], F(2))
                if block['cst'] == 1:                      # a closed expression over math names / builtins
                    e['const_text'] = CONST_SPELLINGS[block.get('fn', 1) - 1]
                    e['const'] = F(eval(e['const_text'], _math_namespace()))   # exactly the float both solvers get
        else:
            e['const'] = F(1)
            if block.get('ps') and not e['same'] and not (i == n - 1 and block['useT']):
                e['const_text'] = PARAM_SPELLINGS[block['ps']]        # a whole right-hand side without a name
                e['const'] = F(eval(e['const_text'], {}))
        if i == n - 1 and block['useT']:
            e['same']['t'] = F(1, 4)
            e['same_text'] = {'t': TIME_WRAPS[block.get('tw', 0)]}
        if i == n - 1 and block.get('uk'):
            e['k'] = F(1, 4)                                 # an ordinary equation reads the step index: + 0.25*k
        eqs[v] = e
    if block.get('al'):                                      # an alias nothing reads: INC = <last>
        eqs['INC'] = {'same': {last: F(1)}, 'lag': {}, 'const': F(0), 'k': F(0), 'const_text': None}
    if block['cst'] == 2:
        eqs[param] = {'same': {}, 'lag': {}, 'const': F(PARAM_VALUE[nm]), 'k': F(0), 'const_text': None}
        if block.get('ps'):
            eqs[param]['const_text'] = PARAM_SPELLINGS[block['ps']]
            eqs[param]['const'] = F(eval(PARAM_SPELLINGS[block['ps']], {}))
    if block['lag'] >= 3:
        # the lagged variable LAG_<last> is itself lagged: its own history matters (LAG_<last>(0) = 0)
        eqs['LAG_' + last] = {'same': {}, 'lag': {last: F(1)}, 'const': F(0), 'k': F(0), 'const_text': None,
                              'derived': True}
    if block['userT'] == 'endo':
        eqs['t'] = {'same': {}, 'lag': {'t': F(1)}, 'const': F(1), 'k': F(0), 'const_text': None,
                    'lag_terms': [('t_minus_1', 't', F(1))]}
    elif block['userT'] == 'const':                          # t = 1.0
        eqs['t'] = {'same': {}, 'lag': {}, 'const': F(1), 'k': F(0), 'const_text': None}
    elif block['userT'] == 'endok':                          # a user time axis written with the step index
        eqs['t'] = {'same': {}, 'lag': {}, 'const': F(2000), 'k': F(1, 4), 'const_text': None}
    elif block['userT'] == 'none':
        eqs['t'] = {'same': {}, 'lag': {}, 'const': F(0), 'k': F(1), 'const_text': None, 'injected': True}
    lagname = {}
    if block['lag']:
        lagname[last] = 'LAG_' + last
    if block['lag'] >= 3:
        lagname['LAG_' + last] = 'LAG2_' + last
    if block['userT'] == 'endo':
        lagname['t'] = 't_minus_1'
    paths, path_text = {}, {}
    if block['exo'] == 1:
        paths['G'] = [20.0 + 1.5 * k for k in range(mt + 1)]
        path_text['G'] = '[' + ', '.join(repr(v) for v in paths['G']) + ']'
    elif block['exo'] == 2:
        full = [20.0] * 2 + [25.0] * (mt + 1)
        paths['G'] = full[:mt + 1]
        path_text['G'] = '[20.0, ] * 2 + [25.0, ] * %d' % (mt + 1)
    elif block['exo'] == 3:                                  # math names and builtins in the list expression
        path_text['G'] = '[hypot(12.0, 16.0), ] * 2 + [max(25.0, e) + log1p(0.0), ] * %d' % (mt + 1)
        paths['G'] = [float(v) for v in eval(path_text['G'], _math_namespace())][:mt + 1]
    elif block['exo'] in (4, 5, 6):                          # path expressions that do not start with a bracket
        path_text['G'] = {4: '2*[20.0, ] + %d*[25.0, ]' % (mt + 1),
                          5: '(' + ', '.join(repr(20.0 + 1.5 * k) for k in range(mt + 1)) + ')',
                          6: '([20.0, ] * 2 + [25.0, ] * %d)' % (mt + 1)}[block['exo']]
        paths['G'] = [float(v) for v in eval(path_text['G'], {})][:mt + 1]
    if block['userT'] == 'exo':
        paths['t'] = [float(k) for k in range(mt + 1)]
        path_text['t'] = '[' + ', '.join(repr(v) for v in paths['t']) + ']'
    return {'eqs': eqs, 'lagname': lagname, 'paths': paths, 'path_text': path_text, 'last': last}


def _math_namespace():
    return {k: getattr(math, k) for k in dir(math) if not k.startswith('_')}


def _num(fr):
    return repr(float(fr))


def _rhs(e, lagname):
    terms = []          # (sign, text)
    for u, c in e['same'].items():
        terms.append((c, e.get('same_text', {}).get(u, u)))
    for nm, dummy, c in e.get('lag_terms', []):
        terms.append((c, nm))
    if e['k'] != 0 and not e.get('injected'):
        terms.append((e['k'], 'k'))
    out = ''
    for c, nm in terms:
        mag = abs(c)
        body = nm if mag == 1 else _num(mag) + '*' + nm
        if out == '':
            out = ('-' if c < 0 else '') + body
        else:
            out += (' - ' if c < 0 else ' + ') + body
    if e['const'] != 0 or out == '':
        ctext = e['const_text'] or _num(e['const'])
        out = ctext if out == '' else out + ' + ' + ctext
    return out


def lag_lines(block):
    """(lagged name, source) of the lag lines of the block, in text order (= MkBlock.lagged without t_minus_1)."""
    if block['n'] == 0:
        return []
    last = NAMESETS[block.get('nm', 0)][block['n'] - 1]
    l1, l2, lb = ('LAG_' + last, last), ('LAG2_' + last, 'LAG_' + last), ('LAGB_' + last, 'LAG_' + last)
    return {0: [], 1: [l1], 2: [l1], 3: [l1, l2], 4: [l1, l2, lb], 5: [l2, lb, l1], 6: [l2, l1, lb]}[block['lag']]


def render(block):
    """The text of the block, exactly as it is given to the generator and to the in-process solver."""
    sysm = system(block)
    lines = []
    for v, e in sysm['eqs'].items():
        if e.get('injected') or e.get('derived'):
            continue            # 't = k' is injected by the parser; lag lines are written below
        if v == 't':
            continue
        lines.append('%s = %s' % (v, _rhs(e, sysm['lagname'])))
    for nm, of in lag_lines(block):
        lines.append('%s = %s%s' % (nm, of, '(t-1)' if block['lag'] == 2 else '(k-1)'))
    if block['userT'] == 'endo':
        lines.append('t = t_minus_1 + 1.0')
        lines.append('t_minus_1 = t(k-1)')
    if block['userT'] in ('endok', 'const'):
        lines.append('t = ' + _rhs(sysm['eqs']['t'], sysm['lagname']))
    if block['ic']:
        lines.append('%s(0) = 10.0' % sysm['last'])
    if block['tol']:
        lines.append('Err_Tolerance = ' + tolerance_text(block))
    lines.append('MaxTime = %d' % block['maxTime'])
    cm = block.get('cm', 0)
    if cm == 1:
        lines[0] += '      # ' + COMMENTS[1]
    elif cm:
        lines.insert(0, '# ' + COMMENTS[cm])
    if sysm['paths']:
        lines.append('# Exogenous variables')
        for nm in sysm['paths']:
            lines.append('%s = %s' % (nm, sysm['path_text'][nm]))
    return '\n'.join(lines) + '\n'


def tolerance_text(block):
    """tol: 0 = no line (parser default 1e-8), 1..99 = 1e-<tol>, 100 / 200 = 1.0 / 2.0"""
    if not block['tol']:
        return '1e-8'
    return '1e-%d' % block['tol'] if block['tol'] < 100 else repr(block['tol'] / 100.0)


def tolerance(block):
    return F(tolerance_text(block))


def name_level(block):
    return {k: block[k] for k in NAME_FIELDS}


def names_in(expr):
    try:
        tree = ast.parse(expr.strip(), mode='eval')
    except SyntaxError:
        return ['<unparsable>']
    return sorted({n.id for n in ast.walk(tree) if isinstance(n, ast.Name)})


def check_grammar_binding(block):
    """The text rendered here must read exactly the names the TLA+ grammar says (one source of truth)."""
    sysm = system(block)
    want = {e['name']: sorted(set(e['reads'])) for e in block['endo']}
    got = {}
    for v, e in sysm['eqs'].items():
        if e.get('injected') or e.get('derived'):
            continue
        text = 't_minus_1 + 1.0' if v == 't' and block['userT'] == 'endo' else _rhs(e, sysm['lagname'])
        got[v] = names_in(text)
    if want != got:
        raise core.MachineryError('grammar/driver disagree on the names read: %r vs %r' % (want, got))
    lag_want = [[d['name'], d['of']] for d in block['lagged']]
    lag_got = []
    lag_got.extend([nm, of] for nm, of in lag_lines(block))
    if block['userT'] == 'endo':
        lag_got.append(['t_minus_1', 't'])
    exo_want = [[d['name'], d['len'], sorted(set(d['reads']))] for d in block['exos']]
    exo_got = [[nm, len(eval(sysm['path_text'][nm], _math_namespace())), names_in(sysm['path_text'][nm])]
               for nm in sysm['paths']]
    if lag_want != lag_got or exo_want != exo_got:
        raise core.MachineryError('grammar/driver disagree on lag / exogenous lists: %r' % (block,))


# --------------------------------------------------------------------------------------
# projection of the written module (ast)
# --------------------------------------------------------------------------------------

def _is_self_attr(node):
    return isinstance(node, ast.Attribute) and isinstance(node.value, ast.Name) and node.value.id == 'self'


def _index_kind(node):
    if isinstance(node, ast.UnaryOp) and isinstance(node.op, ast.USub) and isinstance(node.operand, ast.Constant) \
            and node.operand.value == 1:
        return 'last'
    if _is_self_attr(node) and node.attr == 'STEP':
        return 'STEP'
    if isinstance(node, ast.BinOp) and isinstance(node.op, ast.Sub) and _is_self_attr(node.left) \
            and node.left.attr == 'STEP' and isinstance(node.right, ast.Constant) and node.right.value == 1:
        return 'STEP-1'
    return ast.unparse(node)


EMPTY_SECTIONS = {'tol': '', 'maxTime': -1, 'exoVerbatim': True, 'vectorIsTuple': True, 'globals': [], 'declReads': [], 'decl': [], 'pack': [], 'orig': [], 'iterUnpack': [], 'iterBinds': [], 'iterReads': [],
                  'unpack': [], 'varList': [], 'loopAfterPack': True}


def _empty_sections():
    return {k: (list(v) if isinstance(v, list) else v) for k, v in EMPTY_SECTIONS.items()}


def sections_of(path):
    """Name sets of the sections of the generated module, read off its syntax tree."""
    out = _empty_sections()
    all_globals = [set()]
    try:
        with open(path) as f:
            source = f.read()
        m = re.search(r'^\s*self\.Err_Tolerance = (.*?)\s*$', source, re.M)
        out['tol'] = m.group(1) if m else ''
        m = re.search(r'^\s*self\.MaxTime = (\d+)\s*$', source, re.M)
        out['maxTime'] = int(m.group(1)) if m else -1
        tree = ast.parse(source)
        cls = [n for n in tree.body if isinstance(n, ast.ClassDef) and n.name == 'SFCModel'][0]
        fn = {f.name: f for f in cls.body if isinstance(f, ast.FunctionDef)}
        # names the module's global namespace provides: its imports (a star import of math gives every public
        # name of math), what it defines at top level, and the builtins
        provided = set(dir(builtins))
        for st in tree.body:
            if isinstance(st, ast.ImportFrom):
                for al in st.names:
                    if al.name == '*':
                        if st.module == 'math':
                            provided |= {k for k in dir(math) if not k.startswith('_')}
                    else:
                        provided.add(al.asname or al.name)
            elif isinstance(st, ast.Import):
                provided |= {(al.asname or al.name).split('.')[0] for al in st.names}
            elif isinstance(st, (ast.ClassDef, ast.FunctionDef)):
                provided.add(st.name)
        all_globals[0] = provided
        out['globals'] = sorted(provided & UNIVERSE)
        for st in fn['__init__'].body:
            if isinstance(st, ast.Expr) and isinstance(st.value, ast.Call) and len(st.value.args) == 2 \
                    and isinstance(st.value.func, ast.Attribute) and st.value.func.attr == '__init__':
                out['varList'] = [str(x) for x in ast.literal_eval(st.value.args[1])]
            if isinstance(st, ast.Assign) and _is_self_attr(st.targets[0]):
                nm = st.targets[0].attr
                if nm not in RESERVED_ATTRS and nm not in out['decl']:
                    out['decl'].append(nm)
                    # math / builtin names the declaration (an exogenous list expression) uses
                    out['declReads'].append(sorted({n.id for n in ast.walk(st.value) if isinstance(n, ast.Name)}
                                                   & (UNIVERSE | (set(dir(math)) - provided))))
        body = fn['Iterator'].body
        tgt = body[0].targets[0]
        out['iterUnpack'] = [e.id for e in tgt.elts] if isinstance(tgt, ast.Tuple) else [tgt.id]
        tuples = [isinstance(tgt, ast.Tuple)]
        returned = None
        for st in body[1:]:
            if isinstance(st, ast.Assign) and isinstance(st.targets[0], ast.Name):
                nm = st.targets[0].id
                out['iterBinds'].append(nm[4:] if nm.startswith('NEW_') else '<' + nm + '>')
                out['iterReads'].append(sorted({n.id for n in ast.walk(st.value) if isinstance(n, ast.Name)}))
            elif isinstance(st, ast.Return):
                v = st.value
                returned = [e.id for e in v.elts] if isinstance(v, ast.Tuple) else [getattr(v, 'id', '?')]
                tuples.append(isinstance(v, ast.Tuple))
        if returned != ['NEW_' + b for b in out['iterBinds']]:
            out['iterBinds'].append('<return-mismatch>')
        stage = 'pack'
        pending = {}
        loop_init_at, last_pack_at = [], -1
        for pos_in_body, st in enumerate(fn['RunOneStep'].body):
            if isinstance(st, ast.Assign) and isinstance(st.targets[0], ast.Name):
                nm = st.targets[0].id
                if nm in LOOP_NAMES and isinstance(st.value, ast.Constant):
                    loop_init_at.append(pos_in_body)          # err = 1. / cnt = 0
                if stage == 'pack' and (nm == 'orig_vector' or (isinstance(st.value, ast.Subscript)
                                                                and _is_self_attr(st.value.value))):
                    last_pack_at = pos_in_body
                if nm == 'orig_vector' and stage == 'pack':
                    v = st.value
                    out['orig'] = [e.id for e in v.elts] if isinstance(v, ast.Tuple) else [getattr(v, 'id', '?')]
                    tuples.append(isinstance(v, ast.Tuple))
                    stage = 'after'
                elif stage == 'pack' and isinstance(st.value, ast.Subscript) and _is_self_attr(st.value.value):
                    out['pack'].append({'name': nm, 'series': st.value.value.attr,
                                        'idx': _index_kind(st.value.slice)})
                elif stage == 'after' and isinstance(st.value, ast.Subscript) \
                        and isinstance(st.value.value, ast.Name) and st.value.value.id == 'orig_vector' \
                        and isinstance(st.value.slice, ast.Constant):
                    pending[nm] = int(st.value.slice.value)
            elif stage == 'after' and isinstance(st, ast.Expr) and isinstance(st.value, ast.Call) \
                    and isinstance(st.value.func, ast.Attribute) and st.value.func.attr == 'append' \
                    and _is_self_attr(st.value.func.value):
                arg = st.value.args[0] if st.value.args else None
                pos = pending.get(arg.id, -1) if isinstance(arg, ast.Name) else -1
                out['unpack'].append({'name': st.value.func.value.attr, 'pos': pos})
        # the loop state is initialised after every variable has been packed into locals
        out['loopAfterPack'] = bool(loop_init_at) and min(loop_init_at) > last_pack_at
        out['vectorIsTuple'] = all(tuples)
    except Exception:
        return _empty_sections(), False, set()
    return out, True, all_globals[0]


# --------------------------------------------------------------------------------------
# exact numerics
# --------------------------------------------------------------------------------------

def _solve(M, rhs):
    """Gauss-Jordan on Fractions."""
    n = len(M)
    a = [list(M[i]) + [rhs[i]] for i in range(n)]
    for c in range(n):
        p = next(r for r in range(c, n) if a[r][c] != 0)
        a[c], a[p] = a[p], a[c]
        piv = a[c][c]
        a[c] = [v / piv for v in a[c]]
        for r in range(n):
            if r != c and a[r][c] != 0:
                f = a[r][c]
                a[r] = [vr - f * vc for vr, vc in zip(a[r], a[c])]
    return [a[i][n] for i in range(n)]


def _finite(series):
    return all(isinstance(v, (int, float)) and not isinstance(v, bool) and math.isfinite(v) for v in series)


def numeric_flags(block, mod_series, in_series, steps_ok):
    """-> {k: {'resid_ok', 'agree_ok', 'bad_resid': [names], 'bad_agree': [names]}} for k = 1..steps_ok.
    mod_series / in_series: {name: [floats]}; in_series may be None (in-process solver failed)."""
    sysm = system(block)
    eqs, paths = sysm['eqs'], sysm['paths']
    endo = list(eqs.keys())
    for series in (mod_series, in_series):
        if series is None:
            continue
        for v, e in eqs.items():          # a lagged variable's history, when the solver does not expose it
            if e.get('derived') and v not in series:
                of = list(e['lag'])[0]
                if of in series:
                    series[v] = [0.0] + list(series[of][:-1])
    tol = tolerance(block)
    coefs = [abs(c) for e in eqs.values() for c in list(e['same'].values()) + list(e['lag'].values()) + [e['k']]]
    lam = max(coefs) if coefs else F(0)
    n = len(endo)
    unit = 4 * n * (1 + lam) * tol

    def val(series, nm, k):
        return F(series[nm][k])

    def scale(series, k):
        m = F(1)
        for nm in endo + list(paths):
            for kk in (k - 1, k):
                if nm in series and kk < len(series[nm]):
                    m = max(m, abs(F(series[nm][kk])))
        return m

    absA = [[abs(eqs[v]['same'].get(u, F(0))) for u in endo] for v in endo]
    M = [[(F(1) if i == j else F(0)) - absA[i][j] for j in range(n)] for i in range(n)]
    absL = [[abs(eqs[v]['lag'].get(u, F(0))) for u in endo] for v in endo]
    D = [F(0)] * n
    out = {}
    for k in range(1, steps_ok + 1):
        bad_r, bad_a = [], []
        beyond_relative = False
        usable = all(nm in mod_series and len(mod_series[nm]) > k and _finite(mod_series[nm][:k + 1])
                     for nm in endo + list(paths))
        if not usable:
            out[k] = {'resid_ok': False, 'agree_ok': True, 'bad_resid': ['<missing-or-non-finite>'], 'bad_agree': []}
            continue
        # the module states an ABSOLUTE tolerance (its stopping rule is the plain error sum): the residual is
        # judged absolutely, with an allowance for double rounding only (2**-46 of the largest value per equation)
        b_mod = unit + n * F(1, 2 ** 46) * scale(mod_series, k)
        for nm in paths:
            if mod_series[nm][k] != paths[nm][k] or mod_series[nm][k - 1] != paths[nm][k - 1]:
                bad_r.append(nm)
        for v in endo:
            e = eqs[v]
            rhs = e['const'] + e['k'] * k
            for u, c in e['same'].items():
                rhs += c * (F(paths[u][k]) if u in paths else val(mod_series, u, k))
            for of, c in e['lag'].items():
                rhs += c * val(mod_series, of, k - 1)
            if abs(val(mod_series, v, k) - rhs) > b_mod:
                bad_r.append(v)
                if abs(val(mod_series, v, k) - rhs) > unit * scale(mod_series, k):
                    beyond_relative = True        # not even within tolerance x magnitude
        if in_series is not None:
            ok_in = all(nm in in_series and len(in_series[nm]) > k and _finite(in_series[nm][:k + 1])
                        for nm in endo + list(paths))
            if not ok_in:
                bad_a.append('<in-process series missing>')
            else:
                b_in = unit * scale(in_series, k)
                rhs = [sum(absL[i][j] * D[j] for j in range(n)) + b_mod + b_in for i in range(n)]
                D = _solve(M, rhs)
                for i, v in enumerate(endo):
                    if abs(val(mod_series, v, k) - val(in_series, v, k)) > D[i]:
                        bad_a.append(v)
                for nm in paths:
                    if mod_series[nm][k] != in_series[nm][k]:
                        bad_a.append(nm)
        out[k] = {'resid_ok': not bad_r, 'agree_ok': not bad_a, 'bad_resid': bad_r, 'bad_agree': bad_a,
                  'within_tolerance_times_magnitude': bool(bad_r) and not beyond_relative
                  and '<missing-or-non-finite>' not in bad_r and not set(bad_r) & set(paths)}
    return out


# --------------------------------------------------------------------------------------
# executing one block on the real code
# --------------------------------------------------------------------------------------

def _exc(e):
    return '%s: %s' % (type(e).__name__, str(e)[:200])


def _step_of(obj):
    v = getattr(obj, 'STEP', -1)
    return int(v) if isinstance(v, int) and not isinstance(v, bool) else -1


def _lens(obj, names):
    out = []
    for nm in names:
        try:
            out.append({'name': nm, 'len': len(getattr(obj, nm))})
        except Exception:
            out.append({'name': nm, 'len': -1})
    return out


def _is_float_literal(text):
    """what GenerateVarDeclaration recognises as a fixed parameter: float(<right-hand side>) parses"""
    try:
        float(text.strip())
        return True
    except ValueError:
        return False


def initial_values_ok(block, obj):
    """Conformance only: the k = 0 values the module declares are the ones GenerateVarDeclaration documents
    (a literal constant equation -> that constant, else the initial condition, else 0; exogenous -> the list)."""
    sysm = system(block)
    try:
        for v, e in sysm['eqs'].items():
            literal = not e['same'] and not e['lag'] and e['k'] == 0 and _is_float_literal(e['const_text'] or '0.')
            want = float(e['const']) if literal else (10.0 if block['ic'] and v == sysm['last'] else 0.0)
            if list(getattr(obj, v)) != [want]:
                return False
        for nm, path in sysm['paths'].items():
            if list(getattr(obj, nm)) != path:
                return False
    except Exception:
        return False
    return True


def solve_in_process(text, k0, horizon):
    """The in-process solver on the same text from the same k = 0 values -> ({name: series}, error text)."""
    from sfc_models.equation_solver import EquationSolver
    try:
        s = EquationSolver(text)
        s.ExtractVariableList()
        s.SetInitialConditions()
        for nm, v in k0.items():
            if nm in s.TimeSeries:
                s.TimeSeries[nm][0] = v
        for step in range(1, horizon + 1):
            s.SolveStep(step)
        return {nm: list(s.TimeSeries[nm]) for nm in s.TimeSeries}, ''
    except Exception as e:
        return None, _exc(e)


def _one_generation(block, gen, text, path, uid, cache, run=True):
    """gen.main(path), then the written module: sections, import, construction, run, table.
    -> (events, info); info['complete'] is True when the module ran to MaxTime without an exception."""
    math_ns = {k: getattr(math, k) for k in dir(math) if not k.startswith('_')}
    info = {'stage': '', 'exc': '', 'unbound': [], 'loop_captured': [], 'own_captured': [], 'chained_lags': [],
            'tol_text': None, 'vector_tuple': True, 'own_in_block': [], 'exo_verbatim': True,
            'series': {}, 'inproc_exc': '', 'flags': {}, 'complete': False,
            'header': None, 'csv_exc': ''}
    events = []
    # --- GenerateEquations / GenerateFile (one call of main())
    gen_ok = True
    try:
        gen.main(path)
    except Exception as e:
        gen_ok = False
        info.update(stage='generate', exc=_exc(e))
    if not gen_ok:
        events.append({'ev': 'GenerateEquations', 'ok': False, 'exos': [], 'all': [], 'nonLagged': [], 'eqReads': []})
        gf = {'ev': 'GenerateFile', 'ok': False}
        gf.update(_empty_sections())
        events.append(gf)
        return events, info
    events.append({'ev': 'GenerateEquations', 'ok': True,
                   'exos': [str(nm) for nm, dummy in gen.Exogenous],
                   'all': [str(x) for x in gen.AllVariables],
                   'nonLagged': [str(x) for x in gen.NonLagged],
                   'eqReads': [names_in(eq) for eq in gen.EquationList]})
    sec, parsed, provided = sections_of(path)
    gf = {'ev': 'GenerateFile', 'ok': True}
    gf.update(sec)
    events.append(gf)
    info['unbound'] = sorted({nm for reads in sec['iterReads'] for nm in reads
                              if nm not in sec['iterUnpack'] and nm not in provided} |
                             {nm for reads in sec['declReads'] for nm in reads if nm not in provided})
    packed = [p['name'] for p in sec['pack']]
    info['loop_captured'] = [] if sec['loopAfterPack'] else sorted(set(packed) & set(LOOP_NAMES))
    info['own_captured'] = sorted((set(packed) & set(OWN_NAMES)) |
                                  {nm for nm in packed if nm.startswith('NEW_') and nm[4:] in packed})
    info['chained_lags'] = sorted({p['series'] for p in sec['pack'] if p['idx'] == 'STEP-1'} &
                                  {str(nm) for nm, dummy in gen.Lagged})
    # every exogenous path is declared as  self.<name> = <the generator's own expression text>
    try:
        with open(path) as f:
            declared = dict(re.findall(r'^ {8}self\.(\w+) = (.*?)\s*$', f.read(), re.M)[::-1])   # first assignment wins
        sec['exoVerbatim'] = all(declared.get(str(nm)) == str(value).strip() for nm, value in gen.Exogenous)
    except Exception:
        sec['exoVerbatim'] = False
    gf['exoVerbatim'] = sec['exoVerbatim']
    info['exo_verbatim'] = sec['exoVerbatim']
    info['tol_text'] = sec['tol']
    info['vector_tuple'] = sec['vectorIsTuple']
    info['own_in_block'] = sorted({str(nm) for nm, dummy in gen.Endogenous + gen.Lagged + gen.Exogenous} & set(OWN_NAMES))
    if not run:                   # the first block of a two-block history is only generated
        return events, info

    # --- Import: exec the file under a unique module name, construct SFCModel
    obj = None
    ev = {'ev': 'Import'}
    try:
        spec = importlib.util.spec_from_file_location('c20gen_%s' % uid, path)
        module = importlib.util.module_from_spec(spec)
        spec.loader.exec_module(module)
        obj = module.SFCModel()
        varlist = [str(x) for x in obj.VariableList]
        series_names = sec['decl'] if sec['decl'] else sorted(set(varlist), key=varlist.index)
        ev.update(ok=True, exc='', lens=_lens(obj, series_names), varList=varlist,
                  k0_ok=initial_values_ok(block, obj))
    except Exception as e:
        obj = None
        info.update(stage='import', exc=_exc(e))
        ev.update(ok=False, exc=_exc(e), lens=[], varList=[], k0_ok=False)
    events.append(ev)
    if obj is None:
        return events, info
    k0 = {}
    for nm in series_names:
        try:
            k0[nm] = float(getattr(obj, nm)[0])
        except Exception:
            pass

    # --- RunStep: main() with RunOneStep observed on the instance
    steps = []
    horizon = block['maxTime']
    original = obj.RunOneStep

    def observed_step():
        if len(steps) > horizon + 3:
            raise RuntimeError('step limit of the harness reached (main() does not stop at MaxTime)')
        try:
            original()
        except BaseException as e:
            steps.append({'ok': False, 'exc': _exc(e), 'step': _step_of(obj),
                          'lens': _lens(obj, series_names)})
            raise
        steps.append({'ok': True, 'exc': '', 'step': _step_of(obj), 'lens': _lens(obj, series_names)})

    obj.RunOneStep = observed_step
    try:
        obj.main()
    except Exception as e:
        if not steps or steps[-1]['ok']:
            steps.append({'ok': False, 'exc': _exc(e), 'step': _step_of(obj),
                          'lens': _lens(obj, series_names)})
        info.update(stage='run', exc=steps[-1]['exc'])
    steps_ok = 0
    for s in steps:
        if not s['ok']:
            break
        steps_ok += 1
    info['complete'] = (steps_ok == len(steps) == horizon)
    mod_series = {}
    for nm in series_names:
        try:
            mod_series[nm] = [float(v) for v in getattr(obj, nm)]
        except Exception:
            pass
    info['series'] = mod_series
    key = core.canonical(k0)
    if key not in cache:                       # the in-process solve only depends on the text and the k = 0 values
        cache[key] = solve_in_process(text, k0, horizon)
    in_series, in_exc = cache[key]
    info['inproc_exc'] = in_exc
    if in_series is not None:
        info['inproc_series'] = {nm: in_series[nm] for nm in in_series if nm in mod_series}
    flags = numeric_flags(block, mod_series, in_series, min(steps_ok, horizon))
    info['flags'] = {str(k): v for k, v in flags.items()}
    for i, s in enumerate(steps):
        k = i + 1
        fl = flags.get(k) if s['ok'] else None
        events.append({'ev': 'RunStep', 'ok': s['ok'], 'exc': s['exc'], 'step': s['step'], 'lens': s['lens'],
                       'resid_ok': bool(fl['resid_ok']) if fl else False,
                       'agree_ok': bool(fl['agree_ok']) if fl else (not s['ok']),
                       'inproc_ok': in_series is not None})

    # --- Csv
    ev = {'ev': 'Csv'}
    try:
        out = obj.CreateCsvString()
        lines = out.split('\n')
        ev.update(ok=True, header=lines[0].split('\t'), rows=len([x for x in lines[1:] if x != '']))
        info['header'] = ev['header']
    except Exception as e:
        info['csv_exc'] = _exc(e)
        ev.update(ok=False, header=[], rows=0)
    events.append(ev)
    return events, info


def _observed_lists(gen):
    """What the generator object holds after ParseString (one shape for ParseBlock and Reparse events)."""
    math_ns = _math_namespace()
    exos = []
    for nm, value in gen.Exogenous:
        try:
            ln = len(eval(value, dict(math_ns)))
        except Exception:
            ln = -1
        exos.append({'name': str(nm), 'len': ln, 'reads': sorted(set(names_in(value)) & UNIVERSE)})
    return dict(ok=True,
                endo=[{'name': str(nm), 'reads': names_in(eq)} for nm, eq in gen.Endogenous],
                lagged=[{'name': str(nm), 'of': str(of)} for nm, of in gen.Lagged],
                exos=exos, ics=sorted(str(x) for x in gen.InitialConditions), maxTime=int(gen.MaxTime),
                tol=str(gen.Err_Tolerance))


NO_LISTS = dict(ok=False, endo=[], lagged=[], exos=[], ics=[], maxTime=0, tol='')


def execute(block, scratch, uid, regenerate=False):
    """Run one block through the real generator, the written module(s) and the in-process solver.
    block['first'] (optional): another block that the SAME generator object parses and generates first
    (IterativeMachineGenerator(first).main(file); then ParseString(block) on that object).
    regenerate: call main(<second file>) again on the same generator object after the first module ran to
    MaxTime, and import / run / judge that module as well.
    Returns (events, record); record['gens'] holds per written module of `block` what signatures and reports need."""
    from sfc_models.deprecated.iterative_machine_generator import IterativeMachineGenerator
    first = block.get('first')
    check_grammar_binding(block)
    text = render(block)
    rec = {'text': text, 'parse_exc': '', 'gens': []}
    events = []
    cache = {}
    gen = None
    if first:
        check_grammar_binding(first)
        first_text = render(first)
        rec['first_text'] = first_text
        ev = {'ev': 'ParseBlock', 'block': name_level(first)}
        try:
            gen = IterativeMachineGenerator(first_text, run_equation_reduction=bool(first.get('red', False)))
            ev.update(_observed_lists(gen))
        except Exception as e:
            raise core.MachineryError('the first block of a two-block history is refused: %s' % _exc(e))
        events.append(ev)
        evs, dummy = _one_generation(first, gen, first_text, os.path.join(scratch, 'c20gen_%s_first.py' % uid),
                                     uid + '_first', cache, run=False)
        events.extend(evs)
        # --- Reparse: the same object is given the block under test
        ev = {'ev': 'Reparse', 'block': name_level(block)}
        try:
            gen.RunEquationReduction = bool(block.get('red', False))
            gen.ParseString(text)
            ev.update(_observed_lists(gen))
        except Exception as e:
            rec['parse_exc'] = _exc(e)
            ev.update(NO_LISTS)
            gen = None
        events.append(ev)
    else:
        # --- ParseBlock
        ev = {'ev': 'ParseBlock', 'block': name_level(block)}
        try:
            gen = IterativeMachineGenerator(text, run_equation_reduction=bool(block.get('red', False)))
            ev.update(_observed_lists(gen))
        except Exception as e:
            rec['parse_exc'] = _exc(e)
            ev.update(NO_LISTS)
        events.append(ev)
    if gen is None:
        return events, rec
    cache = {}
    evs, info = _one_generation(block, gen, text, os.path.join(scratch, 'c20gen_%s.py' % uid), uid, cache)
    events.extend(evs)
    rec['gens'].append(info)
    if regenerate and info['complete']:
        events.append({'ev': 'Regenerate'})
        evs, info = _one_generation(block, gen, text, os.path.join(scratch, 'c20gen_%s_b.py' % uid), uid + '_b', cache)
        events.extend(evs)
        rec['gens'].append(info)
    return events, rec


def _worker(arg):
    idx, block, scratch, regen = arg
    return idx, execute(block, scratch, '%d_%d' % (os.getpid(), idx), regen)


def execute_all(blocks, scratch, regen):
    """-> [(events, record)] in the order of blocks; worker processes when there are many blocks."""
    items = [(i, b, scratch, bool(regen[i])) for i, b in enumerate(blocks)]
    if len(items) < 64:
        return [execute(b, scratch, '%d_%d' % (os.getpid(), i), r) for i, b, _, r in items]
    out = [None] * len(items)
    ctx = multiprocessing.get_context('fork')
    procs = max(2, min(12, (os.cpu_count() or 4) - 2))
    with ctx.Pool(procs) as pool:
        for idx, res in pool.imap_unordered(_worker, items, chunksize=32):
            out[idx] = res
    if any(r is None for r in out):
        raise core.MachineryError('a replay worker returned nothing')
    return out


# --------------------------------------------------------------------------------------
# verdicts
# --------------------------------------------------------------------------------------

def _signature_of_generation(clause, block, want, endo, info, probe=False):
    """What is wrong for this clause with the module of one generation (None: nothing)."""
    root = None
    if probe:
        pass
    elif info['own_in_block'] and not info['own_captured']:
        root = 'block-variable-captures-name-of-generated-class'        # e.g. a placeholder of the template
    elif info['tol_text'] and info['tol_text'] != tolerance_text(block) \
            and F(info['tol_text'] or '0') != tolerance(block):
        root = 'module-written-with-another-blocks-tolerance'
    elif not info['vector_tuple']:
        root = 'one-variable-block-iteration-vector-is-not-a-tuple'
    elif not info['exo_verbatim']:
        root = 'exogenous-path-is-not-declared-as-the-block-wrote-it'
    elif info['stage'] == 'import' and info['exc'].startswith('SyntaxError') and block.get('cm', 0) >= 2:
        root = 'comment-text-breaks-the-module-docstring'
    elif info['own_captured'] and all(nm.startswith('NEW_') for nm in info['own_captured']):
        root = 'block-variable-named-NEW_<variable>-captures-iterator-local'
    elif info['own_captured']:
        root = 'block-variable-captures-name-of-generated-class'
    elif info['loop_captured']:
        root = 'loop-state-captured-by-block-variable'
    if clause == 'C20_ImportAndRun':
        if not info['exc']:
            return None
        if root:
            return root
        m = re.match(r"NameError: name '(\w+)' is not defined", info['exc'])
        if m and m.group(1) in info['unbound'] and (hasattr(math, m.group(1)) or m.group(1) in BUILTIN_NAMES):
            return 'generated-module-does-not-resolve-a-name-the-in-process-solver-resolves'
        if m and info['stage'] == 'run' and m.group(1) in info['unbound']:
            return 'generated-module-never-binds-' + m.group(1)
        m = re.match(r"AttributeError: 'SFCModel' object has no attribute '(\w+)'", info['exc'])
        if m and m.group(1) in info['chained_lags']:
            return 'no-series-for-lagged-variable-that-is-lagged-again'
        return 'raises:%s:%s' % (info['stage'], info['exc'].split(':')[0])
    if root and clause in ('C20_StepAppendsAll', 'C20_StepSatisfiesEquations', 'C20_AgreesWithInProcess',
                           'C20_HeaderTimeFirst'):
        plain = _signature_of_generation(clause, block, want, endo, info, probe=True)
        return root if plain is not None else None
    if clause == 'C20_StepAppendsAll':
        kept = endo + [nm for nm in info['chained_lags'] if nm in info['series']]
        long_ = sorted(nm for nm in kept if len(info['series'].get(nm, [])) > block['maxTime'] + 1)
        if long_:
            kind = 'lagged' if set(long_) <= set(info['chained_lags']) else 'variable'
            return ('lagged-variable' if kind == 'lagged' else 'variable') + '-series-gets-several-values-per-period'
        short = sorted(nm for nm in kept if len(info['series'].get(nm, [])) < block['maxTime'] + 1)
        return ('series-without-a-value-per-period:' + ','.join(short)) if short else None
    stuck = [nm for nm in endo if len(info['series'].get(nm, [])) > 1 and len(set(info['series'][nm])) == 1]
    if clause in ('C20_StepSatisfiesEquations', 'C20_AgreesWithInProcess') and endo and len(stuck) == len(endo) \
            and any(not f['resid_ok'] for f in info['flags'].values()):
        return 'no-sweep-performed-every-period-repeats-the-values-of-period-0'
    if clause == 'C20_StepSatisfiesEquations':
        eqs = system(block)['eqs']
        for k in sorted(info['flags'], key=int):
            if not info['flags'][k]['resid_ok']:
                bad = set(info['flags'][k]['bad_resid'])
                if bad and all(v in eqs and not eqs[v]['same'] and not eqs[v]['lag'] and eqs[v]['k'] == 0 for v in bad):
                    return 'equation-without-any-name-is-not-evaluated'
                if info['flags'][k].get('within_tolerance_times_magnitude'):
                    return 'equation-error-grows-with-the-magnitude-of-the-values'
                return 'equations-not-satisfied:' + ','.join(sorted(set(info['flags'][k]['bad_resid'])))
        return None
    if clause == 'C20_AgreesWithInProcess':
        for k in sorted(info['flags'], key=int):
            if not info['flags'][k]['agree_ok']:
                return 'differs-from-in-process-solver:' + ','.join(sorted(set(info['flags'][k]['bad_agree'])))
        return None
    if clause == 'C20_HeaderTimeFirst':
        if info['csv_exc']:
            return 'table-raises:' + info['csv_exc'].split(':')[0]
        h = info['header']
        if h is None:
            return None
        if 't' in want and (not h or h[0] != 't'):
            return 'header-time-not-first'
        miss = sorted(nm for nm in want if h.count(nm) == 0)
        dup = sorted({nm for nm in h if h.count(nm) > 1})
        if miss:
            return 'header-missing:' + ','.join(miss)
        if dup:
            return 'header-lists-twice:' + ','.join(dup)
        return None
    return None


def signature(clause, block, events, rec):
    """Names what fails and, when only a later module of the same generator object fails, that it is
    the regenerated one."""
    if rec.get('parse_exc'):
        return 'raises:parse:' + rec['parse_exc'].split(':')[0]
    parse_ev = [e for e in events if e['ev'] in ('ParseBlock', 'Reparse')][-1]      # the block under test
    endo = [e['name'] for e in parse_ev.get('endo', [])]
    want = endo + [e['name'] for e in parse_ev.get('exos', [])]
    for gi, info in enumerate(rec.get('gens', [])):
        sig = _signature_of_generation(clause, block, want, endo, info)
        if sig is not None:
            return sig + ('@regenerated-module' if gi > 0 else '')
    return clause


def nontrivial(block):
    return block['n'] >= 2 or block['lag'] > 0 or block['exo'] > 0


def case_of(block, events=None, rec=None, regenerate=None):
    c = {'block': block, 'text': render(block)}
    if 'first' in block:
        c['text_of_the_block_the_generator_parsed_first'] = render(block['first'])
    if regenerate is not None:
        c['regenerate'] = bool(regenerate)
    if events is not None:
        c['observed'] = events
    if rec is not None:
        c['exceptions'] = [g['exc'] for g in rec.get('gens', [])]
        c['module_series'] = [g['series'] for g in rec.get('gens', [])]
        c['flags'] = [g['flags'] for g in rec.get('gens', [])]
    return c


def judge(rep, blocks, regen):
    """regen[i]: whether block i is also carried through a second main() on the same generator object."""
    scratch = core.workdir('c20')
    try:
        results = execute_all(blocks, scratch, regen)
    finally:
        core.cleanup(scratch)
    traces = [(i, results[i][0]) for i in range(len(blocks))]
    for i, b in enumerate(blocks):
        small = dict({k: b[k] for k in GRAMMAR_FIELDS}, regenerate=bool(regen[i]))
        if 'first' in b:
            small['first'] = {k: b['first'][k] for k in GRAMMAR_FIELDS}
        rep.add_case(case_of(b, results[i][0], regenerate=regen[i]) if i < 3 else small, nontrivial(b))
    verdicts, st, tr = core.validate_traces('MC_Codegen_Trace', 'MC_Codegen_Trace.cfg', traces, tag='c20')
    rep.traces += len(traces)

    def bump(key, n):
        rep.extra[key] = rep.extra.get(key, 0) + n

    bump('trace_validation_states', st)
    bump('modules_generated', sum(sum(1 for e in ev if e['ev'] == 'GenerateFile' and e['ok']) for ev, _ in results))
    bump('modules_run_to_maxtime', sum(sum(1 for g in r['gens'] if g['complete']) for _, r in results))
    bump('modules_written_by_a_second_main_call', sum(1 for _, r in results if len(r['gens']) > 1))
    bump('in_process_comparisons', sum(sum(1 for g in r['gens'] if 'inproc_series' in g) for _, r in results))
    by_sig = rep.extra.setdefault('violating_blocks_by_signature', {})
    for i, b in enumerate(blocks):
        v = verdicts[i]
        if v == 'ok:':
            continue
        kind, clause = v.split(':', 1)
        events, rec = results[i]
        if kind == 'property':
            sig = signature(clause, b, events, rec)
            by_sig[sig] = by_sig.get(sig, 0) + 1
            what = '; '.join(g['exc'] for g in rec['gens'] if g['exc']) or \
                '; '.join('header %r' % (g['header'],) for g in rec['gens'] if g['header'] is not None)
            rep.violate(clause, sig, case_of(b, events, rec, regenerate=regen[i]),
                        detail='%s | block:\n%s' % (what[:300], render(b)))
        else:
            rep.add_drift(clause, case_of(b, events, regenerate=regen[i]))
    return verdicts, results


def run(rep):
    for nm in MATH_NAMES:
        if not hasattr(math, nm):
            raise core.MachineryError('math has no name ' + nm)
    cfg = 'MC_Codegen_quick.cfg' if rep.tier == 'quick' else 'MC_Codegen_thorough.cfg'
    rep.rule = ('blocks = every block of the bounded grammar instance of MC_Codegen emitted by TLC (matrix of '
                'quarter coefficients with row sums <= 1/2 x lag x initial condition x exogenous list x '
                'constant spelling x time axis x time trend x tolerance x MaxTime); each is generated, imported, '
                'run and solved in process, and (every block in thorough, a seeded third in quick) generated a '
                'second time from the same generator object, imported and run again; distinct = distinct block JSON; non-trivial = at least two '
                'simultaneous variables, or a lag, or an exogenous list')
    rep.exhaustive = True
    rep.assumptions = ['blocks are well-posed: contraction factor <= 0.5, exogenous lists >= MaxTime+1 values, '
                       'lags of endogenous variables',
                       'tolerance bound 4*n*(1+L)*tol*scale; agreement bound propagated through the lags with '
                       'exact rationals',
                       'the in-process solver is started from the module\'s k = 0 values through its public '
                       'methods ExtractVariableList / SetInitialConditions / SolveStep',
                       'sections of the generated module are read from its syntax tree (ast)',
                       'TLC 1.8 / tla2tools']
    res = core.tlc('MC_Codegen', cfg, workers=1, tag='c20')
    if res.violated:
        raise core.MachineryError('spec invariant %s violated in %s' % (res.violated, cfg))
    rep.add_tlc(res, 'exhaustive ' + cfg)
    seen = set()
    blocks = []
    for b in core.json_of_printed(res, 'BEH'):
        if b.get('rejected'):
            names = {d['name'] for d in b['block']['endo'] + b['block']['lagged'] + b['block']['exos']}
            if not (set(OWN_NAMES) & names or any('NEW_' + v in names for v in names)):
                raise core.MachineryError('the model rejects a block without a colliding name %r' % (b,))
        elif b.get('status') != 'ok' or b.get('steps') != b['block']['maxTime'] or b.get('generations') != 2:
            raise core.MachineryError('the model predicts a failing run for block %r' % (b,))
        blk = dict(b['block'])
        if 'n' in b.get('first', {}):                 # a two-block history: the block this generator parsed before
            blk['first'] = b['first']
        k = core.canonical(blk)
        if k not in seen:
            seen.add(k)
            blocks.append(blk)
    if not blocks:
        raise core.MachineryError('TLC emitted no behaviours for ' + cfg)
    # smallest blocks first, so that the case stored for a violation is a minimal witness
    blocks.sort(key=lambda b: ('first' in b, b['cm'], b['nm'], b['fn'] > 1 or b['tw'] > 0 or b['exo'] == 3, b['n'], b['maxTime'], b['lag'], b['exo'], b['cst'], int(b['useT']),
                               int(b['ic']), b['tol'], core.canonical(b)))
    rep.extra['two_block_histories_on_one_generator'] = sum(1 for b in blocks if 'first' in b)
    rep.extra['blocks_that_are_a_time_axis_only'] = sum(1 for b in blocks if b['n'] == 0)
    rep.extra['blocks_with_comments'] = sum(1 for b in blocks if b['cm'])
    rep.extra['blocks_without_user_time'] = sum(1 for b in blocks if b['userT'] == 'none')
    rep.extra['blocks_with_names_of_generated_locals'] = sum(1 for b in blocks if b['nm'] == 1)
    rep.extra['blocks_with_names_of_the_generated_class'] = sum(1 for b in blocks if b['nm'] == 2)
    rep.extra['blocks_with_a_variable_named_NEW_other_variable'] = sum(1 for b in blocks if b['nm'] == 3 and b['n'] > 1)
    rep.extra['blocks_with_a_user_equation_reading_the_step_index'] = sum(1 for b in blocks
                                                                          if b['uk'] or b['userT'] == 'endok')
    rep.extra['blocks_with_a_nameless_right_hand_side_spelled_as_arithmetic'] = sum(1 for b in blocks if b['ps'])
    rep.extra['blocks_generated_with_equation_reduction'] = sum(1 for b in blocks if b['red'])
    rep.extra['blocks_with_a_tolerance_of_one_or_more'] = sum(1 for b in blocks if b['tol'] >= 100)
    rep.extra['blocks_with_math_or_builtin_names'] = sum(1 for b in blocks if b['cst'] == 1 or b['tw'] or b['exo'] == 3)
    rep.extra['blocks_with_a_lag_of_a_lagged_variable'] = sum(1 for b in blocks if b['lag'] >= 3)
    rep.extra['blocks_with_two_lags_of_one_lagged_variable'] = sum(1 for b in blocks if b['lag'] >= 4)
    # regeneration (main() twice on one generator object): every block in the thorough tier, a seeded third
    # of the blocks in the quick tier
    rng = random.Random(rep.seed)
    regen = [True if rep.tier != 'quick' else rng.random() < REGEN_FRACTION_QUICK for dummy in blocks]
    judge(rep, blocks, regen)


def replay(path):
    with open(path) as f:
        data = json.load(f)
    block = data['case']['block']
    rep = core.Report('C20', 'quick', 0)
    verdicts, results = judge(rep, [block], [True])          # a replay always regenerates as well
    events, rec = results[0]
    print(render(block))
    print(json.dumps({'verdict': verdicts[0],
                      'modules': [{'exception': g['exc'], 'unbound_names': g['unbound'], 'header': g['header'],
                                   'module_series': g['series'], 'in_process_series': g.get('inproc_series', {}),
                                   'flags': g['flags']} for g in rec['gens']],
                      'observed_now': events}, indent=1)[:8000])
    for v in rep.violations:
        print('VIOLATION property=C20 replay=%s' % path)
        print('  clause=%s signature=%s' % (v.clause, v.signature))
        return 1
    print('replay: property clauses hold on this case now')
    return 0
