"""C17 - results depend only on the model, not on process history or diagnostics.

spec:   spec/Process.tla (actions NewModel, DeclareHead, DeclareRest, Main, RegisterLogs, Cleanup, AddFunction,
        SetSteady, Reparse, Solve, SolveAgain, SetTrace; invariants C17_HistoryIndependent, C17_ReparseClean, action property
        C17_ResolveIdempotent)
TLC:    exhaustive check of the bounded instances (0-2 models x 2 blocks, 0-2 stand-alone solvers);
        every maximal history that computes at least one result is emitted
replay: every history is executed on real Model / EquationSolver / Logger objects inside a child
        Python process.  The histories are dealt (seeded shuffle) into batches; one child executes
        its whole batch one history after the other, so every history but the first of a child runs
        in a process that has already built and solved other models and solvers (id counter advanced,
        log registry used, ...).  A seeded sample of histories is additionally executed each in a
        process of its own.  After every action the child records what the real objects did.
        observed vs observed: each series is compared (repr of every value, i.e. bit-identical floats
        and equal types) with the series of the same model / the same block executed ALONE in a fresh
        subprocess (one reference run per distinct model / block, computed once per check run).
trace:  the recorded executions are validated by TLC against Process_Trace (same actions).

Property clauses (only these can produce a VIOLATION):
  C17_HistoryIndependent  after Main(m): main() returned, key set and every series identical to the
                          fresh-process reference; after a solve: SolveEquation() returned (traced or
                          not), key set, lengths (horizon+1) and every series identical to the reference
                          of the block; NewModel / DeclareHead / DeclareRest / Reparse do not raise
  C17_ResolveIdempotent   SolveEquation() again on the same solver leaves every series as it was
  C17_ReparseClean        a solver that was given another block reports exactly the key set of that
                          block (as observed in the fresh process), each series of length horizon+1
Readings: "the block's variables" = the key set the same block produces in a fresh process (it
contains the time axis 'k' and the automatic 't'); the driver checks (machinery) that this reference
set consists of the names the block text declares plus at most 'k' and 't'.
Models: SIM = the sectors of gl_book.chapter3.SIM('C') (same classes, parameters, order) created in two
parts - GOV, HH, BUS | TF, LAB, GOOD, the book's exogenous demand and hh.AddInitialCondition('F', 80.) -
so that other models can be created in between; TWO = sectors AA | BB with placeholder names requested
before main(), an initial condition booked through Sector.AddInitialCondition (sector id ->
Country.LookupSector(int)), an exogenous series and an initial condition given by sector code, and an
income exclusion (matched by id).  Whatever identifies a sector by its id is thereby exposed to id
collisions caused by other objects created while the model is under construction.
Blocks: A (no user function) and B (calls the user function f) share the variable names x, LAG_x, g and define
x and g differently, so a right-hand side or value of the previous block that survives ParseString changes
the series.  AddFunction(s, f1 | f2) registers the SAME name 'f' with different bodies on different solvers:
the reference of block B is taken per body (B with f1, B with f2 alone in a fresh process) and, for a solver
that never registered f, B alone raises NameError - in a history it must raise as well (C17_HistoryIndependent:
the outcome of a solver depends on its own function table only).
SetSteady(s, on) sets the solver's own option ParameterSolveInitialSteadyState (with
ParameterInitialSteadyStateMaxTime = 40; the search converges for both blocks): every solve with the option on
runs the search, so the reference is taken per option as well (block [: body] [+ss]) and a re-solve is compared
with the previous solve and with the fresh-process run made with the same option.
A block is a body (A or B) plus optional settings lines: X = MaxTime only, Xc / Xf = MaxTime and a coarse /
fine Err_Tolerance, X0 = no line (parser defaults: horizon 0, tolerance 1e-8), Xt = coarse tolerance only; a
solver that is re-parsed with a block lacking a line must fall back to the defaults, not to the previous block.
Series groups: besides the main series a solver reports the step-trace group (TimeSeriesStepTrace /
GetTimeSeries(group_of_series='step')) and the initial steady-state group (TimeSeriesInitialSteadyState).  They are
compared with the fresh-process reference as well (C17_HistoryIndependent): the step group whenever the solve
iterated its traced period (reference = the same block / model, own function and option, traced at the same period,
alone, logging off), the initial group whenever the steady-state search ran.  Weaker reading used: after an
UNTRACED solve the step group is not compared (the code leaves the trace of an earlier traced solve in place; the
group is then not something this solve computed).
Conformance clauses (DRIFT only): id counter and logger registry after every action, cached
VariableList, number of ('k', ...) entries SetInitialConditions has appended to Parser.Exogenous
(one per solve: the list grows, the series do not change), text of Model.FinalEquations.
"""
import concurrent.futures
import json
import math
import os
import random
import subprocess
import sys
import time

if __name__ == '__main__':      # child process: make `harness` importable
    sys.path.insert(0, os.path.dirname(os.path.dirname(os.path.dirname(os.path.abspath(__file__)))))

from harness import core  # noqa: E402

LOG_NAMES = ['log', 'eqn', 'timeseries', 'step', 'steadystate_0']
PRODUCE = ('Main', 'Solve', 'SolveAgain')

# (body A has a float-valued and an integer-valued constant: `a = 3.0`, `n = 2` - the two take different branches of the
# solver's time-zero pass, which also writes log lines when a log is registered)
BODIES = {
    'A': {'text': """
x = 0.5*LAG_x + g
LAG_x = x(k-1)
y = x + a + n
a = 3.0
n = 2
exogenous
g = [1.0, 2.0, 3.0, 4.0, 5.0, 6.0]
""", 'func': False, 'declared': ['LAG_x', 'a', 'g', 'n', 'x', 'y']},
    'B': {'text': """
x = f(w) + 0.25*LAG_x
LAG_x = x(k-1)
w = 0.5*x + g
v = x - w
exogenous
g = [2.0]*8
""", 'func': True, 'declared': ['LAG_x', 'g', 'v', 'w', 'x']},
}
# a block = a body + OPTIONAL settings lines; without a line the parser default holds (MaxTime 0, Err_Tolerance 1e-8)
TOLERANCE = {'default': '1e-8', 'coarse': '1e-3', 'fine': '1e-11'}
TOL_CLASS = dict((v, k) for k, v in TOLERANCE.items())
SETTINGS = {'': (True, 'default'), 'c': (True, 'coarse'), 'f': (True, 'fine'), '0': (False, 'default'),
            't': (False, 'coarse')}        # suffix -> (MaxTime line?, tolerance class; 'default' = no line)
BLOCK_MAXTIME = 4
BLOCKS = {}
for _b, _body in BODIES.items():
    for _sfx, (_mt, _tol) in SETTINGS.items():
        _text = _body['text']
        if _mt:
            _text += 'MaxTime = %d\n' % BLOCK_MAXTIME
        if _tol != 'default':
            _text += 'Err_Tolerance = %s\n' % TOLERANCE[_tol]
        BLOCKS[_b + _sfx] = {'text': _text, 'horizon': BLOCK_MAXTIME if _mt else 0, 'tol': _tol,
                             'func': _body['func'], 'declared': _body['declared']}
MODEL_HORIZON = {'SIM': 2, 'TWO': 6}
def _act(a, x='', b='', k=0):
    return {'a': a, 'x': x, 'b': b, 'k': k}


def ref_hist(key):
    """history of the fresh-process reference run named key = <model>[+tr<k>] | <block>[:<body>][+ss][+tr<k>]"""
    parts = key.split('+')
    name = parts[0]
    ss = 'ss' in parts[1:]
    tr = [int(p[2:]) for p in parts[1:] if p.startswith('tr')]
    if name in MODEL_HORIZON:
        h = [_act('NewModel', name), _act('DeclareHead', name), _act('DeclareRest', name)]
        if tr:
            h.append(_act('SetTrace', name, '', tr[0]))
        return h + [_act('Main', name)]
    blk, _, body = name.partition(':')
    h = []
    if body in ('f1', 'f2'):
        h.append(_act('AddFunction', 's1', body))
    if ss:
        h.append(_act('SetSteady', 's1', '', 1))
    if tr:
        h.append(_act('SetTrace', 's1', '', tr[0]))
    return h + [_act('Reparse', 's1', blk), _act('Solve', 's1', blk)]


def needed_ref_keys(hists):
    """the reference runs needed to judge these histories: walk each history with the configuration every
    solver / model has when it computes a result"""
    keys = set(MODEL_HORIZON)
    for h in hists:
        cfg = {}
        for a in h:
            c = cfg.setdefault(a['x'], {'block': '', 'body': 'none', 'steady': False, 'trace': 0})
            if a['a'] == 'AddFunction':
                c['body'] = a['b']
            elif a['a'] == 'SetSteady':
                c['steady'] = (a['k'] == 1)
            elif a['a'] == 'SetTrace':
                c['trace'] = a['k']
            elif a['a'] == 'Reparse':
                c['block'] = a['b']
            elif a['a'] in ('Solve', 'SolveAgain') and c['block']:
                keys.add(ref_key(c['block'], c['body'], c['steady']))
                if 1 <= c['trace'] <= BLOCKS[c['block']]['horizon']:
                    keys.add(ref_key(c['block'], c['body'], c['steady'], c['trace']))
            elif a['a'] == 'Main' and 1 <= c['trace'] <= MODEL_HORIZON[a['x']]:
                keys.add('%s+tr%d' % (a['x'], c['trace']))
    return keys


STEADY_MAXTIME = 40


# --------------------------------------------------------------------------------------
# child side: executes histories on the real objects
# --------------------------------------------------------------------------------------

def user_f1(z):
    return 0.5 * z + 1.0


def user_f2(z):
    return 0.25 * z + 2.0


USER_FUNCTIONS = {'f1': user_f1, 'f2': user_f2}


def ref_key(block, body, steady, trace=0):
    """name of the fresh-process reference of a block solved by a solver that registered `body` itself, has the
    steady-state option `steady` and traces period `trace` (0 = none)"""
    return (block + ':' + body if BLOCKS[block]['func'] else block) + ('+ss' if steady else '') + \
        ('+tr%d' % trace if trace else '')


def snapshot(holder):
    return dict((str(k), [repr(v) for v in vals]) for k, vals in holder.items())


def logs_state():
    from sfc_models.utils import Logger
    out = {}
    for n in LOG_NAMES:
        h = Logger.log_file_handles.get(n, None)
        out[n] = 'none' if h is None else ('reg' if type(h) is str else 'open')
    return out


def id_counter():
    from sfc_models.models import EconomicObject
    return int(EconomicObject.ID)


def blank(ev, x='', b='', k=0):
    return {'ev': ev, 'x': x, 'b': b, 'k': k, 'ok': True, 'exc': '', 'same_keys': True, 'same_vals': True,
            'full': True, 'same_prev': True, 'same_eqs': True, 'varlist': [], 'nk': 0, 'id1': 0,
            'logs': {}, 'diff': '', 'traced': False, 'hasfunc': False, 'remnants': [], 'exp_ok': True, 'steady': False,
            'ss': False, 'hz': 0, 'tol': 'default', 'same_step': True, 'same_init': True}


def compare(ev, snap, ref, horizon):
    ev['full'] = all(len(v) == horizon + 1 for v in snap.values()) and len(snap) > 0
    if ref is None:
        return
    extra = sorted(set(snap) - set(ref))
    missing = sorted(set(ref) - set(snap))
    ev['same_keys'] = not extra and not missing
    ev['remnants'] = extra
    diff = ''
    if extra or missing:
        diff = 'keys: extra %s missing %s' % (extra, missing)
    for key in sorted(set(snap) & set(ref)):
        if snap[key] != ref[key]:
            ev['same_vals'] = False
            if not diff:
                diff = '%s: here %s alone %s' % (key, snap[key][:6], ref[key][:6])
            break
    if not ev['full'] and not diff:
        diff = 'lengths %s' % sorted(set(len(v) for v in snap.values()))
    ev['diff'] = diff[:300]


def compare_group(ev, field, what, snap, ref):
    """a further series group (step trace / initial steady state) against the reference"""
    if snap != ref:
        ev[field] = False
        if not ev['diff']:
            keys = sorted(set(snap) ^ set(ref))
            if keys:
                ev['diff'] = ('%s group: keys differ %s (here %d, alone %d series)' % (what, keys[:6], len(snap), len(ref)))[:300]
            else:
                k = [k for k in sorted(snap) if snap[k] != ref[k]][0]
                ev['diff'] = ('%s group: %s here %s alone %s' % (what, k, snap[k][:4], ref[k][:4]))[:300]


def two_head(st):
    """first part of model TWO: country and sector AA"""
    from sfc_models.models import Country
    from sfc_models.sector import Sector
    mod = st['model']
    c = Country(mod, 'C2', 'country two')
    a = Sector(c, 'AA', 'sector A')
    a.AddVariable('P', 'driver', '0.5*LAG_P + Z')
    a.AddVariable('LAG_P', 'lag', 'P(k-1)')
    a.AddVariable('Z', 'input path', '1.0')
    mod.AddExogenous('AA', 'Z', '[1.0, 2.0, 4.0] + [3.0]*20')      # by sector code: looked up at main()
    st['country'], st['a'] = c, a


def two_rest(st):
    """second part: sector BB; the two sectors ask for each other's variable names before main() (no full
    code yet, so GetVariableName hands out `_<ID>__<var>` and these are embedded); an initial condition
    booked through the sector object (-> its id), an income exclusion (matched by id)."""
    from sfc_models.sector import Sector
    mod, c, a = st['model'], st['country'], st['a']
    b = Sector(c, 'BB', 'sector B')
    name_p = a.GetVariableName('P')
    b.AddVariable('Q', 'follows P', '0.25*Q + 0.5*' + name_p)
    b.AddVariable('R', 'decorative', 'Q - ' + name_p)
    name_q = b.GetVariableName('Q')
    a.AddVariable('S', 'back reference', name_q + ' + 1.0')
    mod.AddInitialCondition('AA', 'P', 2.0)                     # by sector code
    b.AddInitialCondition('F', 5.0)                             # by sector id
    mod.AddCashFlowIncomeExclusion(b, 'PAY')                    # B's payment is not (negative) income of B
    b.AddCashFlow('-PAY', '0.1*Q', 'payment to A')
    name_pay = b.GetVariableName('PAY')
    a.AddCashFlow('+PAY', name_pay, 'receipt from B')           # income of A
    mod.MaxTime = MODEL_HORIZON['TWO']
    st['placeholders'] = [name_p, name_q, name_pay]


def sim_head(st):
    """first part of SIM.build_model(): government, households, business"""
    from sfc_models.sector_definitions import ConsolidatedGovernment, Household, FixedMarginBusiness
    country = st['builder'].Country
    st['gov'] = ConsolidatedGovernment(country, 'GOV', 'Government')
    st['hh'] = Household(country, 'HH', 'Household', alpha_income=.6, alpha_fin=.4)
    FixedMarginBusiness(country, 'BUS', 'Business Sector')


def sim_rest(st):
    """the remaining sectors of SIM.build_model() (tax flow and the two markets: the ones that scan the other
    sectors and leave themselves out by id), in its order, the book's exogenous demand, and wealth the
    households start with (booked through the sector object, i.e. its id)"""
    from sfc_models.sector_definitions import TaxFlow
    from sfc_models.sector import Market
    country = st['builder'].Country
    TaxFlow(country, 'TF', 'TaxFlow', taxrate=.2)
    Market(country, 'LAB', 'Labour market')
    Market(country, 'GOOD', 'Goods market')
    st['gov'].SetExogenous('DEM_GOOD', '[0.,] + [20.,] * 105')
    st['hh'].AddInitialCondition('F', 80.)
    st['model'].MaxTime = MODEL_HORIZON['SIM']


def execute(hist, refs, base):
    """Run one history on fresh objects inside THIS process; returns the list of trace events.
    refs: {name: {'series': snapshot, 'eqs': text}} of the fresh-process runs, or None (reference mode:
    the snapshots themselves are returned in the events)."""
    from sfc_models.utils import Logger
    from sfc_models.equation_solver import EquationSolver
    models = {}
    solvers = {}
    events = []
    ev = blank('Begin')
    ev['id1'] = id_counter()
    ev['logs'] = logs_state()
    events.append(ev)

    def solver_of(s):
        if s not in solvers:
            solvers[s] = {'solver': EquationSolver(), 'block': '', 'prev': None, 'body': 'none', 'steady': False}
        return solvers[s]

    for act in hist:
        a, x, b, k = act['a'], act['x'], act['b'], act['k']
        ev = blank(a, x, b, k)
        try:
            if a == 'NewModel':
                if x == 'SIM':
                    from sfc_models.gl_book.chapter3 import SIM
                    builder = SIM('C')
                    models[x] = {'builder': builder, 'model': builder.Model, 'placeholders': []}
                else:
                    from sfc_models.models import Model
                    models[x] = {'builder': None, 'model': Model(), 'placeholders': []}
            elif a == 'DeclareHead':
                (sim_head if x == 'SIM' else two_head)(models[x])
            elif a == 'DeclareRest':
                (sim_rest if x == 'SIM' else two_rest)(models[x])
            elif a == 'Main':
                st = models[x]
                mod = st['model']
                try:
                    if k == 1:
                        mod.main(base)
                    else:
                        mod.main()
                finally:
                    snap = snapshot(mod.EquationSolver.TimeSeries)
                    ref = None if refs is None else refs[x]['series']
                    compare(ev, snap, ref, MODEL_HORIZON[x])
                    eqs = str(mod.FinalEquations)
                    if refs is None:
                        ev['snap'] = snap
                        ev['eqs'] = eqs
                        ev['placeholders'] = list(st['placeholders'])
                    else:
                        ev['same_eqs'] = (eqs == refs[x]['eqs'])
                    ts = mod.EquationSolver.TraceStep
                    ev['traced'] = ts is not None and 1 <= ts <= MODEL_HORIZON[x]
                    step = snapshot(mod.EquationSolver.TimeSeriesStepTrace)
                    if refs is None:
                        ev['snap_step'] = step
                        ev['snap_init'] = {}
                    elif ev['traced']:
                        compare_group(ev, 'same_step', 'step', step, refs['%s+tr%d' % (x, ts)]['step'])
            elif a == 'RegisterLogs':
                Logger.register_standard_logs(base)
            elif a == 'Cleanup':
                Logger.cleanup()
            elif a == 'AddFunction':
                st = solver_of(x)
                st['body'] = b
                st['prev'] = None           # the solver's own function table changed
                st['solver'].AddFunction('f', USER_FUNCTIONS[b])
            elif a == 'SetSteady':
                st = solver_of(x)
                st['steady'] = (k == 1)
                st['prev'] = None           # the solver's own configuration changed
                st['solver'].ParameterInitialSteadyStateMaxTime = STEADY_MAXTIME
                st['solver'].ParameterSolveInitialSteadyState = (k == 1)
            elif a == 'Reparse':
                st = solver_of(x)
                st['block'] = b
                st['prev'] = None
                st['solver'].ParseString(BLOCKS[b]['text'])
            elif a in ('Solve', 'SolveAgain'):
                st = solver_of(x)
                sol = st['solver']
                blk = BLOCKS[st['block']]
                ts = sol.TraceStep
                ev['traced'] = ts is not None and 1 <= ts <= blk['horizon']
                ev['hasfunc'] = len(sol.Functions) > 0
                ev['ss'] = st['steady']
                try:
                    sol.SolveEquation()
                finally:
                    snap = snapshot(sol.TimeSeries)
                    rk = ref_key(st['block'], st['body'], st['steady'])
                    ref = None if refs is None else refs[rk]['series']
                    compare(ev, snap, ref, blk['horizon'])
                    step = snapshot(sol.TimeSeriesStepTrace)
                    init = snapshot(sol.TimeSeriesInitialSteadyState)
                    if refs is None:
                        ev['snap'] = snap
                        ev['snap_step'] = step
                        ev['snap_init'] = init
                    else:
                        ev['exp_ok'] = refs[rk]['ok']
                        if ev['exp_ok'] and ev['traced']:
                            compare_group(ev, 'same_step', 'step', step,
                                          refs[ref_key(st['block'], st['body'], st['steady'], ts)]['step'])
                        if ev['exp_ok'] and st['steady']:
                            compare_group(ev, 'same_init', 'initial', init, refs[rk]['init'])
                    if a == 'SolveAgain' and st['prev'] is not None:
                        ev['same_prev'] = (snap == st['prev'])
                    st['prev'] = snap
                    ev['varlist'] = [str(v) for v in sol.VariableList]
                    ev['nk'] = sum(1 for e in sol.Parser.Exogenous if e[0] == 'k')
                    ev['steady'] = bool(sol.ParameterSolveInitialSteadyState)
                    ev['hz'] = int(sol.Parser.MaxTime)
                    ev['tol'] = TOL_CLASS.get(str(sol.Parser.Err_Tolerance).strip(), 'other')
            elif a == 'SetTrace':
                if x in MODEL_HORIZON:
                    models[x]['model'].EquationSolver.TraceStep = (k if k else None)
                else:
                    solver_of(x)['solver'].TraceStep = (k if k else None)
            else:
                raise RuntimeError('unknown action ' + a)
        except Exception as e:      # recorded, never propagated
            ev['ok'] = False
            ev['exc'] = ('%s: %s' % (type(e).__name__, e))[:200]
        ev['id1'] = id_counter()
        ev['logs'] = logs_state()
        events.append(ev)
    return events


def child_main(jobfile):
    with open(jobfile) as f:
        job = json.load(f)
    core.use_repo()
    devnull = open(os.devnull, 'w')
    real_stdout = sys.stdout
    sys.stdout = devnull           # main() prints warnings; results travel through the out file
    try:
        with open(job['out'], 'w') as out:
            for item in job['items']:
                events = execute(item['hist'], job.get('refs'), job['base'])
                out.write(json.dumps({'tid': item['tid'], 'events': events}, separators=(',', ':')) + '\n')
    finally:
        sys.stdout = real_stdout
    return 0


# --------------------------------------------------------------------------------------
# parent side
# --------------------------------------------------------------------------------------

_CHILD_NO = [0]


def run_children(jobs, wd, workers=None):
    """jobs: list of {'items': [{'tid','hist'}], 'refs': ...}; one fresh child process per job, the
    items of a job run sequentially in that child.  -> {tid: events}"""
    workers = workers or min(16, os.cpu_count() or 4)
    paths = []
    for i, job in enumerate(jobs):
        _CHILD_NO[0] += 1
        d = os.path.join(wd, 'child_%d' % _CHILD_NO[0])
        os.makedirs(d)
        job = dict(job)
        job['base'] = os.path.join(d, 'log')
        job['out'] = os.path.join(d, 'events.ndjson')
        jf = os.path.join(d, 'job.json')
        with open(jf, 'w') as f:
            json.dump(job, f)
        paths.append((jf, job['out'], d, [it['tid'] for it in job['items']]))
    env = dict(os.environ)
    env['SFC_REPO'] = core.repo_path()
    env['PYTHONHASHSEED'] = '0'
    env['PYTHONDONTWRITEBYTECODE'] = '1'

    def one(p):
        jf, outp, d, tids = p
        try:
            r = subprocess.run([sys.executable, os.path.abspath(__file__), '--child', jf], cwd=d, env=env,
                               capture_output=True, text=True, timeout=3600)
        except subprocess.TimeoutExpired:
            raise core.MachineryError('C17 child timed out: ' + jf)
        if r.returncode != 0 or not os.path.exists(outp):
            raise core.MachineryError('C17 child failed (%s):\n%s' % (jf, r.stderr[-2000:]))
        got = {}
        with open(outp) as f:
            for line in f:
                rec = json.loads(line)
                got[rec['tid']] = rec['events']
        miss = [t for t in tids if t not in got]
        if miss:
            raise core.MachineryError('C17 child reported nothing for %r' % miss[:3])
        return got

    out = {}
    with concurrent.futures.ThreadPoolExecutor(max_workers=workers) as ex:
        for got in ex.map(one, paths):
            out.update(got)
    return out


def references(wd, keys):
    """Each distinct model / block (per function body, steady-state option and traced period) alone in a fresh
    subprocess; keys: the reference names the histories to be judged need (needed_ref_keys)."""
    names = sorted(keys)
    got = run_children([{'items': [{'tid': 'ref:' + n, 'hist': ref_hist(n)}], 'refs': None} for n in names], wd)
    refs = {}
    for n in names:
        evs = got['ref:' + n]
        last = evs[-1]
        bad = [e for e in evs if not e['ok']]
        if n.split('+')[0].endswith(':none') and (BLOCKS[n.split(':')[0]]['horizon'] >= 1 or '+ss' in n):
            # a block that calls f, solved by a solver without f: alone it must fail with NameError (as soon as a
            # period is iterated: not with horizon 0 and no steady-state search)
            if len(bad) != 1 or bad[0] is not last or not last['exc'].startswith('NameError') or 'snap' not in last:
                raise core.MachineryError('reference run of %s: expected NameError in the solve, got %s' % (
                    n, json.dumps(bad[:1] or last)[:400]))
            refs[n] = {'series': last['snap'], 'eqs': '', 'ok': False, 'step': last['snap_step'],
                       'init': last['snap_init']}
            continue
        if bad or not last['full'] or 'snap' not in last:
            raise core.MachineryError('reference run of %s alone in a fresh process failed: %s' % (
                n, json.dumps(bad[:1] or last)[:400]))
        refs[n] = {'series': last['snap'], 'eqs': last.get('eqs', ''), 'ok': True, 'step': last['snap_step'],
                   'init': last['snap_init']}
        keys = set(last['snap'])
        if n.split('+')[0].split(':')[0] in BLOCKS:
            dec = set(BLOCKS[n.split('+')[0].split(':')[0]]['declared'])
            if not (dec <= keys and keys - dec <= {'k', 't'}):
                raise core.MachineryError('reference key set of block %s is not its declared variables: %s' % (
                    n, sorted(keys)))
        else:
            ph = last.get('placeholders', [])
            if n.split('+')[0] == 'TWO' and (len(ph) != 3 or not all(p.startswith('_') for p in ph)):
                raise core.MachineryError('model TWO did not receive placeholder names: %r' % ph)
            leaked = [p for p in ph if p in last['eqs'] or any(p in key for key in keys)]
            if leaked:
                raise core.MachineryError('reference run of %s keeps a placeholder: %r' % (n, leaked))
    return refs


def first_bad(events):
    for e in events:
        if not e['exp_ok']:             # alone in a fresh process this solve raises: it must raise here too
            if e['ok']:
                return e
            continue
        if not (e['ok'] and e['same_keys'] and e['same_vals'] and e['full'] and e['same_prev']
                and e['same_step'] and e['same_init']):
            return e
    return None


def signature(clause, events):
    """short stable name of WHAT fails, taken from the first event that shows it"""
    e = first_bad(events)
    if e is None:
        return clause + ':unlocated'
    settings_differ = e['ev'] in ('Solve', 'SolveAgain') and e['b'] in BLOCKS and \
        (e['hz'], e['tol']) != (BLOCKS[e['b']]['horizon'], BLOCKS[e['b']]['tol'])
    if clause == 'C17_ReparseClean':
        if e['remnants'] and set(e['remnants']) <= set(e['varlist']):
            return 'stale-variable-list-after-reparse'        # the cached VariableList still names them
        if e['remnants']:
            return 'remnant-series-after-reparse'
        if settings_differ:
            return 'settings-of-previous-block-after-reparse'
        return 'reparse-key-set-differs:' + e['b']
    if settings_differ:
        return 'settings-of-previous-block-after-reparse'      # the parser holds a horizon / tolerance the block does not state
    if e['ok'] and not e['exp_ok']:
        return 'solves-with-a-function-it-never-registered'
    if not e['ok']:
        cls = e['exc'].split(':')[0]
        if e['ev'] in ('Solve', 'SolveAgain') and e['traced'] and e['hasfunc'] and cls == 'TypeError':
            return 'traced-step-with-user-function-raises-TypeError'
        return '%s-raises-%s' % (e['ev'], cls)
    if clause == 'C17_ResolveIdempotent':
        return 'resolve-changes-series:' + e['b'] + (':steady-state-option-on' if e['ss'] else '')
    what = 'model:' + e['x'] if e['ev'] == 'Main' else 'block:' + e['b']
    if e['same_keys'] and e['same_vals'] and e['full']:
        if not e['same_step']:
            return 'step-trace-group-differs:' + what
        if not e['same_init']:
            return 'initial-steady-state-group-differs:' + what
    if not e['same_keys']:
        return 'key-set-differs:' + what
    return 'series-differ:%s%s%s' % (what, ':traced' if e['traced'] else '', ':steady-state-option-on' if e['ss'] else '')


def nontrivial(beh):
    """some result is computed after at least one action that is not part of computing it alone
    (alone = NewModel, DeclareHead, DeclareRest, Main of that model / at most one AddFunction and SetSteady, the first
    Reparse and the first Solve of that solver)"""
    h = beh['hist']
    for i, a in enumerate(h):
        if a['a'] not in PRODUCE:
            continue
        mine = [p for p in h[:i] if p['x'] == a['x']]
        if a['a'] == 'Main':
            own = [p for p in mine if p['a'] in ('NewModel', 'DeclareHead', 'DeclareRest')]
        elif a['a'] == 'Solve' and sorted(set(p['a'] for p in mine) - {'AddFunction', 'SetSteady'}) == ['Reparse'] \
                and len(mine) == len(set(p['a'] for p in mine)):
            own = mine
        else:
            own = []
        if i - len(own) > 0:
            return True
    return False


def _phase(rep, name, t0):
    d = rep.extra.setdefault('phase_wall_s', {})
    d[name] = round(d.get(name, 0.0) + time.time() - t0, 2)


def validate(traces, tag='c17'):
    n = len(traces)
    jobs = min(8, os.cpu_count() or 4)
    chunk = max(1000, int(math.ceil(n / float(jobs))))
    return core.validate_traces('MC_Process_Trace', 'MC_Process_Trace.cfg', traces, chunk=chunk, tag=tag)


def judge(rep, behs, refs, wd, n_fresh, n_batches):
    """Execute (accumulated + a fresh-process sample), validate, report."""
    rng = random.Random(rep.seed)
    order = list(range(len(behs)))
    rng.shuffle(order)
    n_batches = max(1, min(n_batches, len(behs)))
    batches = [order[i::n_batches] for i in range(n_batches)]
    jobs = []
    where = {}
    for bi, idxs in enumerate(batches):
        jobs.append({'items': [{'tid': 'a%d' % i, 'hist': behs[i]['hist']} for i in idxs], 'refs': refs})
        for pos, i in enumerate(idxs):
            where[i] = (bi, pos)
    fresh = sorted(rng.sample(range(len(behs)), min(n_fresh, len(behs))))
    for i in fresh:
        jobs.append({'items': [{'tid': 'f%d' % i, 'hist': behs[i]['hist']}], 'refs': refs})
    t0 = time.time()
    observed = run_children(jobs, wd)
    _phase(rep, 'execute_histories', t0)
    rep.extra['child_processes'] = rep.extra.get('child_processes', 0) + len(jobs)
    rep.extra['histories_in_accumulating_processes'] = rep.extra.get('histories_in_accumulating_processes', 0) + len(behs)
    rep.extra['histories_in_fresh_processes'] = rep.extra.get('histories_in_fresh_processes', 0) + len(fresh)
    top = max(e['id1'] for evs in observed.values() for e in evs)
    rep.extra['max_id_counter_seen'] = max(rep.extra.get('max_id_counter_seen', 0), top)
    traces = [(tid, observed[tid]) for tid in sorted(observed)]
    for n, (tid, evs) in enumerate(traces):
        i = int(tid[1:])
        case = {'hist': behs[i]['hist'], 'mode': 'accumulated' if tid[0] == 'a' else 'fresh'}
        rep.add_case(dict(case, observed=evs) if n < 2 else case, nontrivial(behs[i]))
    t0 = time.time()
    verdicts, st, tr = validate(traces)
    _phase(rep, 'trace_validation', t0)
    rep.traces += len(traces)
    rep.extra['trace_validation_states'] = rep.extra.get('trace_validation_states', 0) + st
    groups = {}
    order_of = []
    for tid, evs in traces:
        v = verdicts[tid]
        if v == 'ok:':
            continue
        kind, clause = v.split(':', 1)
        i = int(tid[1:])
        if kind != 'property':
            rep.add_drift(clause, {'hist': behs[i]['hist'], 'mode': 'accumulated' if tid[0] == 'a' else 'fresh',
                                   'observed': evs})
            continue
        key = (clause, signature(clause, evs))
        if key not in groups:
            groups[key] = []
            order_of.append(key)
        groups[key].append((tid, evs))

    def case_of(tid, evs, with_prefix):
        i = int(tid[1:])
        case = {'hist': behs[i]['hist'], 'mode': 'fresh', 'prefix': [], 'observed': evs}
        if tid[0] == 'a':
            bi, pos = where[i]
            case['mode'] = 'accumulated'
            case['prefix_histories'] = pos
            if with_prefix:
                case['prefix'] = [behs[j]['hist'] for j in batches[bi][:pos]]
        return case

    for key in order_of:
        clause, sig = key
        # shortest process prefix first
        members = sorted(groups[key], key=lambda m: (0 if m[0][0] == 'f' else where[int(m[0][1:])][1], m[0]))
        # representative (it becomes the replay file): a history that fails in a process of its own if there
        # is one (observed so, or re-executed alone now), else the first one together with its process prefix
        lead = None
        lead_tid = None
        for tid, evs in members:
            if tid[0] == 'f' or where[int(tid[1:])][1] == 0:
                lead = case_of(tid, evs, False)
                lead['mode'] = 'fresh'
                lead_tid = tid
                break
        if lead is None:
            for tid, evs in members[:5]:
                i = int(tid[1:])
                alone = run_children([{'items': [{'tid': 'm0', 'hist': behs[i]['hist']}], 'refs': refs}], wd)
                va, _, _ = validate([('m0', alone['m0'])], tag='c17m')
                if va['m0'] == 'property:' + clause and signature(clause, alone['m0']) == sig:
                    lead = {'hist': behs[i]['hist'], 'mode': 'fresh', 'prefix': [], 'observed': alone['m0']}
                    lead_tid = tid
                    break
        if lead is None:
            lead_tid = members[0][0]
            lead = case_of(lead_tid, members[0][1], True)
        # the representative first (it stands for the member it was made from), then the other members
        for case in [lead] + [case_of(t, e, False) for t, e in members if t != lead_tid]:
            e = first_bad(case['observed']) or {}
            rep.violate(clause, sig, case, detail='%s(%s %s) %s %s' % (
                e.get('ev'), e.get('x'), e.get('b'), e.get('exc', ''), e.get('diff', '')))


def run(rep):
    quick = rep.tier == 'quick'
    cfgs = ['MC_Process_quick.cfg', 'MC_Process_quick2.cfg', 'MC_Process_quick3.cfg', 'MC_Process_quick4.cfg',
            'MC_Process_quick5.cfg']
    if not quick:
        cfgs += ['MC_Process_thorough%s.cfg' % n for n in ('', '2', '3', '4', '5', '6', '7', '8')]
    rep.rule = ('histories = all maximal behaviours of the bounded Process instances emitted by TLC that contain a '
                'Main / Solve / SolveAgain (2 models, each declared in two parts so that other models are created in '
                'between; 2 block bodies sharing variable names, each with optional MaxTime / Err_Tolerance lines; the '
                'user function registered per solver with one of 2 bodies; the steady-state option per solver; '
                'instances: 1 solver length 5; 2 solvers length 4; models only length 6; model TWO + 1 solver length 6 '
                'restricted to histories with both a Main and a Solve; 1 solver over 7 block variants length 4; '
                'thorough: also 1 solver length 6; 2 solvers length 5; models only length 7 and, untraced, length 8; '
                'SIM / TWO + 1 solver length 7 (Main and Solve); both models + 1 solver length 5; 1 solver over 7 '
                'block variants length 5); '
                'each executed in a child process after the other histories of its batch (mode accumulated), a '
                'seeded sample also alone (mode fresh); distinct = distinct (history, mode); non-trivial = some '
                'result is computed after at least one action that is not part of computing it alone')
    rep.exhaustive = True
    rep.assumptions = ['reference = the same model / block executed alone in a fresh subprocess (observed vs observed), '
                       'one run per distinct model / block',
                       'series compared by repr of every value (bit-identical floats, equal types)',
                       'within a child process every history builds new Model / EquationSolver objects; what '
                       'accumulates is the process-level state (EconomicObject.ID, Logger registry, module state)',
                       'PYTHONHASHSEED=0 in every child; TLC 1.8 / tla2tools']
    wd = core.workdir('c17')
    try:
        t0 = time.time()
        with concurrent.futures.ThreadPoolExecutor(max_workers=min(len(cfgs), 8)) as ex:
            results = list(ex.map(lambda c: core.tlc('MC_Process', c, workers=1, tag='c17', timeout=14400), cfgs))
        _phase(rep, 'tlc_exhaustive', t0)
        seen = set()
        behs = []
        for cfg, res in zip(cfgs, results):
            if res.violated:
                raise core.MachineryError('spec property %s violated in %s' % (res.violated, cfg))
            rep.add_tlc(res, 'exhaustive ' + cfg)
            got = core.json_of_printed(res, 'BEH')
            if not got:
                raise core.MachineryError('TLC emitted no behaviours for ' + cfg)
            for b in got:
                key = core.canonical(b)
                if key not in seen:
                    seen.add(key)
                    behs.append(b)
            del res.printed[:]
            res.stdout = ''
        t0 = time.time()
        refs = references(wd, needed_ref_keys(b['hist'] for b in behs))
        _phase(rep, 'reference_runs', t0)
        rep.extra['reference_runs'] = len(refs)
        round_size = 8000 if quick else 16000
        n_rounds = int(math.ceil(len(behs) / float(round_size)))
        n_fresh_total = 48 if quick else 320
        for r in range(n_rounds):
            part = behs[r * round_size:(r + 1) * round_size]
            judge(rep, part, refs, wd, n_fresh=int(math.ceil(n_fresh_total / float(n_rounds))),
                  n_batches=32)
    finally:
        core.cleanup(wd)
    if not quick:       # extension specification (Logger life cycle): thorough tier only
        from harness import loggercheck
        loggercheck.run_logger(rep)


def replay(path):
    with open(path) as f:
        data = json.load(f)
    case = data['case']
    wd = core.workdir('c17r')
    try:
        refs = references(wd, needed_ref_keys(list(case.get('prefix', [])) + [case['hist']]))
        items = [{'tid': 'p%d' % i, 'hist': h} for i, h in enumerate(case.get('prefix', []))]
        items.append({'tid': 'case', 'hist': case['hist']})
        observed = run_children([{'items': items, 'refs': refs}], wd)
        evs = observed['case']
        verdicts, _, _ = validate([('case', evs)], tag='c17r')
    finally:
        core.cleanup(wd)
    v = verdicts['case']
    print(json.dumps({'history': case['hist'], 'prefix_histories': len(case.get('prefix', [])),
                      'observed_now': [dict((k, e[k]) for k in ('ev', 'x', 'b', 'k', 'ok', 'exc', 'same_keys', 'same_vals',
                                                               'full', 'same_prev', 'diff')) for e in evs]}, indent=1))
    if v.startswith('property:'):
        clause = v.split(':', 1)[1]
        print('VIOLATION property=C17 replay=%s' % path)
        print('  clause=%s signature=%s' % (clause, signature(clause, evs)))
        return 1
    print('replay: property clauses hold on this case now (%s)' % v)
    return 0


if __name__ == '__main__':
    if len(sys.argv) == 3 and sys.argv[1] == '--child':
        sys.exit(child_main(sys.argv[2]))
    sys.exit('usage: c17.py --child <job.json>   (the check itself is run by bin/check C17)')
