"""C10 - exogenous paths, initial conditions and the horizon are honoured verbatim.

spec:   spec/Horizon.tla (actions Parse, IC_Pass1..4, Step(k), Finish; invariants C10_*)
TLC:    exhaustive check of the bounded instance (blueprints x exogenous forms x initial condition
        on each class x horizons x where the horizon is set x equation reduction); every maximal
        behaviour (= one configuration and its outcome) is emitted
replay: every configuration is rendered as an equation block and run on the real
        sfc_models.equation_solver.EquationSolver (MaxTime as a line of the block, or set on the
        solver before ParseString, or both with different values (the solver's value wins, 0
        included; through the model: model.MaxTime and model.EquationSolver.MaxTime), or absent,
        or - "late" - a different value assigned to
        solver.MaxTime after EquationSolver(<block>) / after ParseString(<block>), which must have
        no effect on the solve); a seeded sample is also run
        Histories of two blocks are parsed (and solved) one after the other on ONE solver object:
        the second block's horizon is its own MaxTime line unless the USER wrote solver.MaxTime
        (before a parse or late) - a value that merely stood in the first block does not survive.
        The clauses are judged for every round.  A seeded sample is also run
          * with seeded random float values in place of the small integers ("float dress"),
          * through the model API (Model / Country / Sector, AddVariable, SetExogenous /
            AddExogenous, AddInitialCondition, MaxTime, main(), GetTimeSeries).
        Variable names are a dimension of the blueprints (h1 next to h10, W0, x100, a0b): the text
        "NAME(0) = v" and Model.AddInitialCondition must reach exactly the variable NAME.
        The projection compares what came back with what was SUPPLIED by exact float equality and
        logs Booleans, lengths and (when integral) the series as small integers.
trace:  TLC (Horizon_Trace) decides per trace which clauses must hold and gives one total verdict.

Readings taken (the weaker one where the statement has two):
  * the five "verbatim" clauses bind runs that returned; a raise on an input form that the statement
    does not list as rejected is reported as drift (unexpected_raise), not as a violation;
  * "rejected with an error" = SolveEquation()/main() (or the API call that was handed the bad
    value) raised; the exception class and "nothing solved" are conformance (drift) only;
  * values of simultaneous / decorative variables and time-zero values of variables without a
    stated initial condition are conformance only (C02 owns them);
  * scalar exogenous values are generated at block level only (DESIGN C10 scope decision).
Steady-state initialisation stays off.
"""
import json
import math
import random
import signal
import threading

from harness import core

PREFIX = 'S__'          # one sector 'S' in one country: full names are S__<local>
CASE_LIMITS_S = [20.0, 5.0, 1.0, 0.25]  # wall-clock limit for one execution of the code under test; it shrinks
_hangs = [0]                            # with every hang seen so that a tree that loops cannot stall the check
MAX_HANGS = 25                          # more than this: the check gives up (exit 2), C10 says nothing about loops


# --------------------------------------------------------------------------------------
# supplied data
# --------------------------------------------------------------------------------------

TIME_NAMES = ('t', 't_minus_1')       # the parser's reserved names of the time axis and its lag
LATE = ('late_ctor', 'late_parse')     # MaxTime line in the block, solver.MaxTime = cfg['late'] after parsing


def horizon_of(cfg):
    """the horizon the solve must honour (a late assignment on the solver does not move it)"""
    return 0 if cfg['where'] == 'default' else cfg['horizon']


def in_block(cfg):
    return cfg['where'] in ('block', 'ctor', 'both', 'kept') or cfg['where'] in LATE


def block_maxtime(cfg):
    """value of the MaxTime line; with 'both' it differs from the value set on the solver, which must win"""
    return cfg['bmax'] if cfg['where'] in ('both', 'kept') else cfg['horizon']


def _rand_float(rng):
    r = rng.random()
    if r < 0.70:
        return rng.uniform(-1000.0, 1000.0)
    if r < 0.85:
        return rng.choice([0.1, 0.2, 0.3, 1e-05, 1.0 / 3.0, 2.5e-07, 123456.789, -0.7, 1e+16 + 2.0])
    return float(rng.randint(-50, 50)) + rng.choice([0.0, 0.5, 0.25])


def supplied_values(cfg, dress, fseed):
    """The Python values handed to the code: {'exo': list | float | int | None, 'v': .., 'ics': {name: float|int|None}}.
    dress 'int': the small integers of cfg (as floats where the form is a float form);
    dress 'float': seeded random floats of the same shape."""
    rng = random.Random(fseed)
    exo = cfg['exo']
    form = exo['form']
    n = len(exo['vals'])
    if dress == 'int':
        vals = [float(v) for v in exo['vals']]
        v = float(exo['v'])
        stated = [float(ic['val']) for ic in cfg['ics']]
    else:
        v = _rand_float(rng)
        vals = [v] * n if form == 'strexpr' else [_rand_float(rng) for _ in range(n)]
        if form in ('list', 'tuple') and n and rng.random() < 0.3:
            # integer entries inside a list stay what the user wrote
            i = rng.randrange(n)
            vals[i] = rng.randint(-9, 9)
        stated = []
        for ic in cfg['ics']:
            if ic['val'] == 0:
                stated.append(rng.choice([0.0, -0.0]))        # a stated zero stays a zero in float dress
                continue
            stated.append(float(rng.randint(-10 ** 6, 10 ** 6)) if cfg['icform'] == 'int' else _rand_float(rng))
    if form == 'intscalar':
        v = int(exo['v']) if dress == 'int' else rng.randint(-99, 99)
    # 'stated': one value per statement, in order; 'ics': the value in force per variable = its LAST statement
    ics = {}
    for ic, x in zip(cfg['ics'], stated):
        ics[ic['name']] = x
    return {'vals': vals, 'v': v, 'ics': ics, 'stated': stated}


def expected_path(cfg, sup):
    """first horizon+1 supplied values (scalar: broadcast)"""
    h = horizon_of(cfg)
    if cfg['exo']['form'] == 'scalar':
        return [sup['v']] * (h + 1)
    return list(sup['vals'][0:h + 1])


# --------------------------------------------------------------------------------------
# rendering
# --------------------------------------------------------------------------------------

def num(x):
    """text of a supplied number: 3.0 -> '3.', other floats by repr (round-trips exactly), ints as ints"""
    if isinstance(x, int):
        return str(x)
    if x == int(x) and abs(x) < 1e6:
        return '%d.' % int(x)
    return repr(x)


def rhs_text(v):
    if v['cls'] == 'lag':
        return '%s(k-1)' % v['src']
    parts = list(v['refs'])
    if v['add'] != 0 or not parts:
        parts.append(str(v['add']))
    return ' + '.join(parts)


def exo_text(cfg, sup):
    form = cfg['exo']['form']
    vals = sup['vals']
    if form == 'list':
        return '[' + ', '.join(num(x) for x in vals) + ']'
    if form == 'tuple':
        if len(vals) == 1:
            return '(' + num(vals[0]) + ',)'
        return '(' + ', '.join(num(x) for x in vals) + ')'
    if form == 'strexpr':
        return '[%s]*%d' % (num(sup['v']), len(vals))
    if form == 'scalar':
        return num(sup['v'])
    if form == 'intscalar':
        return str(sup['v'])
    return 'foo'


def ic_text(cfg, sup, i):
    """text of the i-th stated initial condition"""
    if cfg['icform'] == 'undef':
        return 'foo'
    x = sup['stated'][i]
    if cfg['icform'] == 'int':
        return str(int(x))
    return num(x)


def render_block(cfg, sup):
    h = block_maxtime(cfg)
    lines = []
    maxtime = 'MaxTime = %d' % h
    top = in_block(cfg) and h % 2 == 1
    if top:
        lines.append(maxtime)
    for v in cfg['vars']:
        if v['cls'] != 'exo':
            lines.append('%s = %s' % (v['name'], rhs_text(v)))
    for i, ic in enumerate(cfg['ics']):
        lines.append('%s(0) = %s' % (ic['name'], ic_text(cfg, sup, i)))
    lines.append('# Exogenous Variables')
    for v in cfg['vars']:
        if v['cls'] == 'exo':
            lines.append('%s = %s' % (v['name'], exo_text(cfg, sup)))
    if in_block(cfg) and not top:
        lines.append(maxtime)
    return '\n'.join(lines)


# --------------------------------------------------------------------------------------
# projection of what the real objects did
# --------------------------------------------------------------------------------------

def _strip(name, prefix):
    if prefix and name.startswith(prefix):
        return name[len(prefix):]
    return name


def observe_parser(parser, prefix):
    classes = []
    for n, _ in parser.Endogenous:
        classes.append({'name': _strip(n, prefix), 'cls': 'endo', 'src': ''})
    for n, src in parser.Lagged:
        classes.append({'name': _strip(n, prefix), 'cls': 'lag', 'src': _strip(src.strip(), prefix)})
    for n, _ in parser.Exogenous:
        if n != 'k':
            classes.append({'name': _strip(n, prefix), 'cls': 'exo', 'src': ''})
    for n, _ in parser.Decoration:
        classes.append({'name': _strip(n, prefix), 'cls': 'deco', 'src': ''})
    mt = parser.MaxTime
    return classes, (mt if isinstance(mt, int) and not isinstance(mt, bool) and abs(mt) < 10 ** 6 else -1)


def _eq(a, b):
    try:
        return bool(a == b)
    except Exception:
        return False


def _ints(series):
    out = []
    for x in series:
        if isinstance(x, bool) or not isinstance(x, (int, float)):
            return False, []
        if isinstance(x, float) and (math.isnan(x) or math.isinf(x)):
            return False, []
        if x != int(x) or abs(x) > 10 ** 6:
            return False, []
        out.append(int(x))
    return True, out


def observe_series(cfg, sup, ts, prefix, getter=None):
    """ts: name -> list (EquationSolver.TimeSeries).  With a getter (Model.GetTimeSeries) the series are read
    through it - that is the reader the model user has; a name it cannot deliver counts as missing."""
    series = {}
    for full in list(ts.keys()):
        if getter is None:
            s = list(ts[full])
        else:
            try:
                s = list(getter(full))
            except Exception:
                continue
        series[_strip(full, prefix)] = s
    path = expected_path(cfg, sup)
    byname = {v['name']: v for v in cfg['vars']}
    obs = []
    for name in sorted(series):
        s = series[name]
        v = byname.get(name)
        exov = icv = lagv = True
        if v is not None and v['cls'] == 'exo':
            exov = len(s) == len(path) and all(_eq(a, b) for a, b in zip(s, path))
        if name in sup['ics'] and cfg['icform'] != 'undef':
            icv = len(s) >= 1 and _eq(s[0], sup['ics'][name])
        if v is not None and v['cls'] == 'lag':
            src = series.get(v['src'])
            if src is None:
                lagv = False
            else:
                lagv = all(_eq(s[k], src[k - 1]) for k in range(1, min(len(s), len(src) + 1)))
        integral, vals = _ints(s)
        obs.append({'name': name, 'len': len(s), 'icv': icv, 'exov': exov, 'lagv': lagv,
                    'integral': integral, 'vals': vals})
    t = series.get('t')
    # the automatic time axis: t[k] = k for k >= 1 (taxis); t[0] = 0 (taxis0, not demanded when t(0) is stated)
    taxis = t is not None and all(_eq(t[k], k) and _eq(t[k], float(k)) for k in range(1, len(t)))
    taxis0 = t is not None and len(t) >= 1 and _eq(t[0], 0) and _eq(t[0], 0.0)
    return obs, taxis, taxis0


def _no_solve(exc, dress):
    return {'ev': 'Solve', 'round': 1, 'dress': dress, 'ok': False, 'exc': exc, 'ts_empty': True, 'taxis': False,
            'taxis0': False, 'obs': []}


# --------------------------------------------------------------------------------------
# execution on the real code
# --------------------------------------------------------------------------------------

def shown_text(cfg, text, fresh):
    pre = '' if fresh else '>>> same solver object, next block:\n'
    if cfg['where'] in LATE:
        return pre + text + '\n>>> after %s: solver.MaxTime = %d' % (
            'EquationSolver(block)' if cfg['where'] == 'late_ctor' else 'ParseString(block)', cfg['late'])
    if cfg['where'] in ('solver', 'both'):
        return pre + '>>> before ParseString(block): solver.MaxTime = %d\n' % cfg['horizon'] + text
    if cfg['where'] == 'ctor':
        return pre + '>>> EquationSolver(block):\n' + text
    if cfg['where'] == 'kept':
        return pre + '>>> solver.MaxTime still holds the %d written in the previous round\n' % cfg['horizon'] + text
    return pre + text


def run_round(solver, cfg, dress, fseed):
    """One round (parse, and solve unless cfg['solve'] is false) on `solver`, or on a new EquationSolver when
    solver is None.  -> (events, text, solver)"""
    from sfc_models.equation_solver import EquationSolver
    fresh = solver is None
    sup = supplied_values(cfg, dress, fseed)
    text = render_block(cfg, sup)
    text_shown = shown_text(cfg, text, fresh)
    pe = {'ev': 'Parse', 'fresh': fresh, 'cfg': cfg, 'api': 'block', 'dress': dress, 'ok': True, 'exc': '',
          'classes': [], 'maxtime': 0}
    try:
        if fresh and cfg['where'] in ('ctor', 'late_ctor'):
            solver = EquationSolver(text, run_equation_reduction=bool(cfg['reduce']))
        else:
            if fresh:
                solver = EquationSolver(run_equation_reduction=bool(cfg['reduce']))
            else:
                solver.RunEquationReduction = bool(cfg['reduce'])
            if cfg['where'] in ('solver', 'both'):
                solver.MaxTime = cfg['horizon']
            solver.ParseString(text)
        solver.ParameterSolveInitialSteadyState = False
        if cfg['where'] in LATE and cfg['solve']:
            solver.MaxTime = cfg['late']        # too late for this block: it is parsed already
        pe['classes'], pe['maxtime'] = observe_parser(solver.Parser, '')
    except Exception as e:
        pe.update(ok=False, exc=type(e).__name__)
        return [pe, _no_solve(type(e).__name__, dress)], text_shown, solver
    if not cfg['solve']:
        return [pe], text_shown, solver
    se = {'ev': 'Solve', 'dress': dress, 'ok': True, 'exc': '', 'ts_empty': False, 'taxis': False, 'taxis0': False,
          'obs': []}
    before = solver.TimeSeries
    try:
        solver.SolveEquation()
    except Exception as e:
        # "nothing solved": the solver still holds the series object it held before this call (empty on a new solver)
        se.update(ok=False, exc=type(e).__name__,
                  ts_empty=(solver.TimeSeries is before and (not fresh or len(before) == 0)))
        return [pe, se], text_shown, solver
    se['obs'], se['taxis'], se['taxis0'] = observe_series(cfg, sup, solver.TimeSeries, '')
    return [pe, se], text_shown, solver


def execute_block(plan, dress, fseed):
    """the history on ONE solver object; every event carries the number of its round"""
    solver = None
    events = []
    texts = []
    for r, cfg in enumerate(plan):
        evs, text, solver = run_round(solver, cfg, dress, fseed + r)
        for e in evs:
            e['round'] = r + 1
        events.extend(evs)
        texts.append(text)
        if solver is None:
            break           # the constructor itself raised: there is no object to go on with
    return events, '\n'.join(texts)


def execute_model(cfg, dress, fseed):
    """The same configuration through Model / Country / Sector.  Which of the two equivalent entry points is
    used (Sector.SetExogenous or Model.AddExogenous, Sector.AddInitialCondition or Model.AddInitialCondition)
    is a seeded choice."""
    from sfc_models.models import Model, Country
    from sfc_models.sector import Sector
    sup = supplied_values(cfg, dress, fseed)
    rng = random.Random(fseed + 1)
    pe = {'ev': 'Parse', 'fresh': True, 'round': 1, 'cfg': cfg, 'api': 'model', 'dress': dress, 'ok': True,
          'exc': '', 'classes': [], 'maxtime': 0}
    calls = []
    mod = None
    try:
        mod = Model()
        country = Country(mod, 'CO')
        sec = Sector(country, 'S', has_F=False)
        for v in cfg['vars']:
            if v['name'] == 't':
                mod.AddGlobalEquation('t', 'user time axis', rhs_text(v))
            elif v['cls'] == 'exo':
                sec.AddVariable(v['name'], 'path given by the user', '0.0')
            else:
                sec.AddVariable(v['name'], 'variable ' + v['name'], rhs_text(v))
        form = cfg['exo']['form']
        if rng.random() < 0.5:
            # a provisional horizon stated before the paths are declared; the one stated last (below) is in force
            early = rng.choice([0, 1])
            mod.MaxTime = early
            calls.append('model.MaxTime = %d    (provisional)' % early)
        for v in cfg['vars']:
            if v['cls'] != 'exo':
                continue
            if form == 'list':
                val = list(sup['vals'])
            elif form == 'tuple':
                val = tuple(sup['vals'])
            else:
                val = exo_text(cfg, sup)
            if rng.random() < 0.5:
                sec.SetExogenous(v['name'], val)
                calls.append('Sector.SetExogenous(%s, %r)' % (v['name'], val))
            else:
                mod.AddExogenous('S', v['name'], val)
                calls.append('Model.AddExogenous(S, %s, %r)' % (v['name'], val))
        for i, ic in enumerate(cfg['ics']):
            if cfg['icform'] == 'float':
                val = sup['stated'][i]
            else:
                val = ic_text(cfg, sup, i)       # a string: '12' or 'foo'
            if rng.random() < 0.5:
                sec.AddInitialCondition(ic['name'], val)
                calls.append('Sector.AddInitialCondition(%s, %r)' % (ic['name'], val))
            else:
                mod.AddInitialCondition('S', ic['name'], val)
                calls.append('Model.AddInitialCondition(S, %s, %r)' % (ic['name'], val))
        mod.MaxTime = block_maxtime(cfg)
        calls.append('model.MaxTime = %d' % block_maxtime(cfg))
        if cfg['where'] == 'both':
            mod.EquationSolver.MaxTime = cfg['horizon']       # set before main(): it wins over the MaxTime line
            calls.append('model.EquationSolver.MaxTime = %d' % cfg['horizon'])
        mod.EquationSolver.RunEquationReduction = bool(cfg['reduce'])
        mod.EquationSolver.ParameterSolveInitialSteadyState = False
    except Exception as e:
        pe.update(ok=False, exc=type(e).__name__)
        return [pe, _no_solve(type(e).__name__, dress)], '\n'.join(calls)
    exc = None
    try:
        mod.main()
    except Exception as e:
        exc = e
    solver = mod.EquationSolver
    text = '\n'.join(calls) + '\n' + str(mod.FinalEquations)
    if len(solver.Parser.AllEquations) == 0:
        name = type(exc).__name__ if exc is not None else 'NothingParsed'
        pe.update(ok=False, exc=name)
        return [pe, _no_solve(name, dress)], text
    pe['classes'], pe['maxtime'] = observe_parser(solver.Parser, PREFIX)
    se = {'ev': 'Solve', 'round': 1, 'dress': dress, 'ok': True, 'exc': '', 'ts_empty': False, 'taxis': False,
          'taxis0': False, 'obs': []}
    if exc is not None:
        se.update(ok=False, exc=type(exc).__name__, ts_empty=(len(solver.TimeSeries) == 0))
        return [pe, se], text
    se['obs'], se['taxis'], se['taxis0'] = observe_series(cfg, sup, solver.TimeSeries, PREFIX, getter=mod.GetTimeSeries)
    return [pe, se], text


class _Hang(BaseException):
    pass


def _limited(fn, seconds):
    """Run fn() under a wall-clock limit.  The timer keeps firing: the code under test has bare `except:`
    clauses that can swallow one delivery."""
    if threading.current_thread() is not threading.main_thread():
        return fn()

    fired = [False]

    def handler(signum, frame):
        fired[0] = True
        raise _Hang()
    old = signal.signal(signal.SIGALRM, handler)
    signal.setitimer(signal.ITIMER_REAL, seconds, 0.05)
    try:
        out = fn()
    finally:
        signal.setitimer(signal.ITIMER_REAL, 0)
        signal.signal(signal.SIGALRM, old)
    if fired[0]:
        raise _Hang()       # the injected exception was swallowed: what came back is not a run of the code
    return out


def execute(case):
    """-> (events, text).  A run that does not come back within the limit is recorded as raised 'Hang'
    (bounded work is C11's subject; here it only must not stall the check)."""
    def go():
        if case['api'] == 'model':
            return execute_model(case['plan'][0], case['dress'], case['fseed'])
        return execute_block(case['plan'], case['dress'], case['fseed'])
    limit = CASE_LIMITS_S[min(_hangs[0], len(CASE_LIMITS_S) - 1)]
    try:
        return _limited(go, limit)
    except _Hang:
        _hangs[0] += 1
        if _hangs[0] > MAX_HANGS:
            raise core.MachineryError('the code under test did not come back on %d inputs (limit %g s each); '
                                      'last one: %s' % (_hangs[0], limit, core.canonical(case)[:600]))
        pe = {'ev': 'Parse', 'fresh': True, 'round': 1, 'cfg': case['plan'][0], 'api': case['api'],
              'dress': case['dress'], 'ok': False, 'exc': 'Hang', 'classes': [], 'maxtime': 0}
        return [pe, _no_solve('Hang', case['dress'])], '(no answer within %g s)' % limit


# --------------------------------------------------------------------------------------
# cases, signatures
# --------------------------------------------------------------------------------------

def model_eligible(cfg):
    """MaxTime always travels in the block; scalars stay at block level; the time axis is a global name there,
    which AddInitialCondition and AddVariable (sector-bound, prefixed names) cannot address"""
    return cfg['where'] in ('block', 'both') and cfg['exo']['form'] in ('list', 'tuple', 'strexpr') \
        and all(ic['name'] not in TIME_NAMES for ic in cfg['ics']) \
        and all(v['name'] != 't_minus_1' for v in cfg['vars'])


def var_class(cfg, name):
    """class as the property statement names it"""
    if name in ('k',):
        return 'k'
    if name == 't':
        return 'time'
    for v in cfg['vars']:
        if v['name'] == name:
            if v['cls'] != 'sim':
                return v['cls']
            referenced = any((name in w['refs']) or (w['src'] == name) for w in cfg['vars'])
            kind = 'const' if not v['refs'] else 'sim'
            if cfg['reduce'] and not referenced:
                return 'deco' + kind if kind == 'const' else 'deco'
            return kind
    return 'other'


def rejected_why(cfg):
    h = horizon_of(cfg)
    why = []
    if cfg['ics'] and cfg['icform'] == 'undef':
        why.append('ic-undef')
    form = cfg['exo']['form']
    if form in ('undef', 'intscalar'):
        why.append('exo-' + form)
    elif form != 'scalar' and len(cfg['exo']['vals']) < h + 1:
        why.append('exo-short-' + form)
    return why


def signature(clause, case, events, rnd):
    """rnd: the round (1-based) in which TLC gave the verdict"""
    plan = case['plan']
    rnd = min(max(rnd, 1), len(plan))
    cfg = plan[rnd - 1]
    h = horizon_of(cfg)
    mine = [e for e in events if e.get('round') == rnd] or events
    obs = mine[-1].get('obs', [])
    head = case['api'] + ':'
    if rnd > 1:
        prev = plan[rnd - 2]
        wrote = prev['where'] in ('solver', 'both') or prev['where'] in LATE
        head += 'second-block-on-one-solver-after-%s-%s:' % (
            'solver-maxtime-written' if wrote else 'block-line-only',
            'shorter' if horizon_of(prev) < h else ('longer' if horizon_of(prev) > h else 'equal'))
    if cfg['where'] == 'kept':
        head += 'kept-solver-maxtime-vs-%s-block-line:' % ('larger' if cfg['bmax'] > cfg['horizon'] else 'smaller')
    if cfg['where'] == 'both':
        head += 'solver-maxtime-%s-vs-%s-block-line:' % (
            'zero' if cfg['horizon'] == 0 else 'positive', 'larger' if cfg['bmax'] > cfg['horizon'] else 'smaller')
    if cfg['where'] in LATE:
        head += 'maxtime-assigned-after-parse-%s:' % ('larger' if cfg['late'] > cfg['horizon'] else 'smaller')
    if clause == 'C10_Lengths':
        tic = sorted({ic['name'] for ic in cfg['ics'] if ic['name'] in TIME_NAMES})
        lookalike = sorted({v['name'] for v in cfg['vars'] if v['name'] not in ('t', 't_minus_1', 'MaxTime')
                            and v['name'].lower() in ('t', 't_minus_1', 'maxtime')})
        if lookalike:
            head += 'names-like-special-names-%s:' % '+'.join(lookalike)
        if tic and not any(v['name'] == 't' for v in cfg['vars']):
            head += 'ic-on-%s-without-equation-for-t:' % '+'.join(tic)
        bad = sorted({var_class(cfg, o['name']) for o in obs if o['len'] != h + 1})
        seen = {o['name'] for o in obs}
        required = [v['name'] for v in cfg['vars']] + ['k']
        if not any(v['name'] in TIME_NAMES for v in cfg['vars']):
            required.append('t')            # the automatic time axis
        missing = sorted({var_class(cfg, n) for n in required if n not in seen})
        return head + 'len:' + ','.join(bad) + ('|missing:' + ','.join(missing) if missing else '') \
            + ':' + cfg['exo']['form']
    if clause == 'C10_ExoVerbatim':
        return head + 'exo:' + cfg['exo']['form']
    if clause == 'C10_ICVerbatim':
        off = [o['name'] for o in obs if not o['icv']]
        vals = {ic['name']: ic['val'] for ic in cfg['ics']}
        names = [ic['name'] for ic in cfg['ics']]
        if off and all(names.count(n) > 1 for n in off):
            head += 'stated-twice:'
        if off and all(vals.get(n) == 0 for n in off):
            head += 'stated-zero:'
        if any(n.endswith('0') for n in off):
            head += 'name-ends-in-0:'
        bad = sorted({var_class(cfg, o['name']) for o in obs if not o['icv']})
        if not bad:
            bad = ['ints']
        return head + 'ic:' + ','.join(bad) + ':' + cfg['icform']
    if clause == 'C10_LagShift':
        srcs = {v['name']: v['src'] for v in cfg['vars'] if v['cls'] == 'lag'}
        bad = sorted({var_class(cfg, srcs[o['name']]) for o in obs if o['name'] in srcs and not o['lagv']})
        return head + 'lag-of:' + ','.join(bad or ['ints'])
    if clause == 'C10_TimeAxis':
        if any(ic['name'] in TIME_NAMES for ic in cfg['ics']):
            head += 'ic-on-%s:' % '+'.join(sorted({ic['name'] for ic in cfg['ics'] if ic['name'] in TIME_NAMES}))
        return head + 'time-axis:' + ('deco' if cfg['reduce'] and var_class(cfg, 't') == 'time' else 'any')
    if clause == 'C10_Rejects':
        return head + 'accepted:' + '+'.join(rejected_why(cfg))
    return head + clause


def nontrivial(case):
    return any(horizon_of(cfg) >= 1 or bool(cfg['ics']) or bool(rejected_why(cfg)) for cfg in case['plan'])


def make_cases(behs, seed, tier):
    """every configuration at block level with its integer values; a seeded sample again in float dress and
    through the model API"""
    rng = random.Random(seed)
    quick = tier == 'quick'
    cases = []
    for b in behs:
        cases.append({'plan': b['plan'], 'api': 'block', 'dress': 'int', 'fseed': 0})
    p_float = 0.45 if quick else 0.3
    p_model = 0.60 if quick else 0.60
    for b in behs:
        plan = b['plan']
        if rng.random() < p_float:
            cases.append({'plan': plan, 'api': 'block', 'dress': 'float', 'fseed': rng.randrange(1 << 30)})
        if len(plan) == 1 and model_eligible(plan[0]) and rng.random() < p_model:
            cases.append({'plan': plan, 'api': 'model', 'dress': rng.choice(['int', 'float']),
                          'fseed': rng.randrange(1 << 30)})
    return cases


# --------------------------------------------------------------------------------------
# judging
# --------------------------------------------------------------------------------------

def judge(rep, cases, count=True):
    traces = []
    texts = []
    for i, case in enumerate(cases):
        events, text = execute(case)
        traces.append((i, events))
        texts.append(text)
        if count:
            rep.add_case(dict(case, block=text, observed=events[-1]) if i < 3 else case, nontrivial(case))
    verdicts, st, tr = core.validate_traces('MC_Horizon_Trace', 'MC_Horizon_Trace.cfg', traces, tag='c10',
                                            chunk=1500)
    rep.traces += len(traces)
    rep.extra['trace_validation_states'] = rep.extra.get('trace_validation_states', 0) + st
    tally = rep.extra.setdefault('outcomes', {})
    for i, case in enumerate(cases):
        events = traces[i][1]
        key = '%s%s/%s/%s' % (case['api'], '-2-rounds' if len(case['plan']) > 1 else '', case['dress'],
                              'returned' if events[-1]['ok'] else 'raised')
        tally[key] = tally.get(key, 0) + 1
        kind, clause, rnd = verdicts[i].split(':')
        if kind == 'ok':
            continue
        rnd = int(rnd)
        full = dict(case, block=texts[i], observed=events)
        if kind == 'property':
            rep.violate(clause, signature(clause, case, events, rnd), full,
                        detail='block:\n%s\nobserved %s' % (texts[i], json.dumps(events[-1])[:600]))
        else:
            rep.add_drift(clause, {'api': case['api'], 'dress': case['dress'], 'fseed': case['fseed'], 'round': rnd,
                                   'block': texts[i], 'exc': events[-1]['exc'],
                                   'obs': events[-1].get('obs', [])})


def run(rep):
    cfgs = ['MC_Horizon_quick.cfg'] if rep.tier == 'quick' else ['MC_Horizon_quick.cfg', 'MC_Horizon_thorough.cfg']
    rep.rule = ('configurations = all initial states of the bounded Horizon instance (5 blueprints, three of them also under variable names ending in 0 / holding a 0 / differing by a trailing 0 (h1, h10) and under names that differ from the special names of the parser only in letter case (T, T_MINUS_1, maxtime) x exogenous form '
                'and length x initial condition on none / each non-exogenous variable / all / the time axis t and t_minus_1 with and without an equation for t, as float, int or '
                'undefined name, with the stated value non-zero or zero, stated once or twice with different values (the last one is in force) x horizon x MaxTime in block / on solver before parsing / both with different values (solver wins, 0 included) / absent / in block and a larger or smaller value assigned to the solver after EquationSolver(block) or ParseString(block) x reduction on/off; plus histories of two blocks parsed one after the other into ONE solver object - first round with the horizon only in its block (ParseString or constructor, solved or only parsed) or written to the solver (before or late), second round with its own MaxTime line / none / solver written again / the kept solver value against another line), each solved by '
                'TLC and emitted; every one is replayed at block level with its integer values, a seeded sample again '
                'with random float values and through the model API; distinct = distinct (history, api, dress, '
                'float seed); non-trivial = horizon >= 1, or an initial condition, or a rejected input form')
    rep.exhaustive = True
    rep.assumptions = ['acyclic integer-valued blocks (sums of variables and constants); values of simultaneous and '
                       'decorative variables are conformance only',
                       'a raise on an input form the statement does not list as rejected is drift, not a violation',
                       'scalar exogenous values only at block level (DESIGN C10 scope decision); steady-state '
                       'initialisation off',
                       'TLC 1.8 / tla2tools; Python exact float equality for the verbatim Booleans']
    seen = set()
    for cfg in cfgs:
        res = core.tlc('MC_Horizon', cfg, workers=1, tag='c10')
        if res.violated:
            raise core.MachineryError('spec invariant %s violated in %s' % (res.violated, cfg))
        rep.add_tlc(res, 'exhaustive ' + cfg)
        behs = []
        for b in core.json_of_printed(res, 'BEH'):
            k = core.canonical(b['plan'])
            if k not in seen:
                seen.add(k)
                behs.append(b)
        behs.sort(key=lambda b: (b['outcome'] != 'done', len(b['plan']), -horizon_of(b['plan'][-1]),
                                 -len(b['plan'][-1]['ics'])))      # stable; samples show full cases
        if not behs:
            if cfg == cfgs[0]:
                raise core.MachineryError('TLC emitted no behaviours for ' + cfg)
            continue
        judge(rep, make_cases(behs, rep.seed, rep.tier))


def replay(path):
    with open(path) as f:
        data = json.load(f)
    c = data['case']
    plan = c['plan'] if 'plan' in c else [c['cfg']]          # files written before histories existed
    for cfg in plan:
        cfg.setdefault('late', 0)
        cfg.setdefault('bmax', 0)
        cfg.setdefault('solve', True)
    case = {'plan': plan, 'api': c['api'], 'dress': c['dress'], 'fseed': c['fseed']}
    rep = core.Report('C10', 'quick', 0)
    judge(rep, [case], count=False)
    events, text = execute(case)
    print(json.dumps({'case': case, 'block': text, 'observed_now': events}, indent=1))
    for v in rep.violations:
        print('VIOLATION property=C10 replay=%s' % path)
        print('  clause=%s signature=%s' % (v.clause, v.signature))
        return 1
    print('replay: property clause holds on this case now')
    return 0
