"""C09 - the textbook models SIM, SIMEX1 and PC obey their difference equations for any parameters.

spec:   spec/Book.tla - the book's recursions over exact rationals (spec/Rat.tla); TLC checks the book's own
        accounting identities on a designed parameter grid and emits every grid behaviour (case + series).
replay: each grid case is built with the REAL bundled builders (gl_book.chapter3.SIM / SIMEX1, chapter4.PC) with
        those parameters, paths and initial stocks; Model.main() runs; the emitted equations are solved exactly
        (harness/exact.py).
trace:  Book_Trace re-runs StepOp in TLC and compares the exact solution of the generated equations rational by
        rational (clause C09_ExactMatchesRecursion); the real solver's floats must be within 50*tol*scale of the
        closed form when the solver returns (C09_SolverWithinTolerance); the hand-coded iterative SIM must agree
        within its own stopping rule (C09_IterativeSIMAgrees).
Off-grid: seeded random admissible parameter vectors with up to 8 significant digits (rationals too large for
        TLC's 32-bit integers) are judged by a Python mirror of StepOp, which is first checked against TLC's
        output on every grid case (a mismatch is a machinery failure, not a property result).
"""
import json
import random
from fractions import Fraction

from harness import core

TOL_MODEL = 1e-6     # Model._FinalEquationFormatting emits Err_Tolerance=1e-6
NAMES = {
    'SIM': {'Y': 'GOOD__SUP_GOOD', 'T': 'GOV__T', 'YD': 'HH__AfterTax', 'C': 'HH__DEM_GOOD', 'H': 'HH__F'},
    'SIMEX1': {'Y': 'GOOD__SUP_GOOD', 'T': 'GOV__T', 'YD': 'HH__AfterTax', 'C': 'HH__DEM_GOOD', 'H': 'HH__F'},
    'PC': {'Y': 'GOOD__SUP_GOOD', 'T': 'TRE__T', 'YD': 'HH__AfterTax', 'C': 'HH__DEM_GOOD', 'H': 'HH__F',
           'B': 'HH__DEM_DEP', 'M': 'HH__DEM_MON'},
}


def F(x):
    if isinstance(x, Fraction):
        return x
    if isinstance(x, (list, tuple)):
        return Fraction(x[0], x[1])
    return Fraction(str(x))


def closed_form(case, T):
    """Python mirror of Book!StepOp."""
    a1, a2, th = F(case['a1']), F(case['a2']), F(case['theta'])
    H, YD, B = F(case['H0']), F(case['YD0']), F(case['B0'])
    if case.get('partial'):
        # Book!OpeningBills: the bill holding the portfolio equation gives at the stated opening wealth and income
        B = H * (F(case['l0']) + F(case['l1']) * F(case['r'][0])) - F(case['l2']) * YD
    q = a1 * (1 - th)
    out = []
    for k in range(1, T + 1):
        G = F(case['G'][k - 1])
        if case['model'] == 'SIM':
            Y = (G + a2 * H) / (1 - q)
            Tx = th * Y
            YDn = Y - Tx
            C = a1 * YDn + a2 * H
            Hn = H + YDn - C
            r = {'Y': Y, 'T': Tx, 'YD': YDn, 'C': C, 'H': Hn}
        elif case['model'] == 'SIMEX1':
            C = a1 * YD + a2 * H
            Y = G + C
            Tx = th * Y
            YDn = Y - Tx
            Hn = H + YDn - C
            r = {'Y': Y, 'T': Tx, 'YD': YDn, 'C': C, 'H': Hn}
        else:
            l0, l1, l2 = F(case['l0']), F(case['l1']), F(case['l2'])
            I = F(case['r'][k - 1]) * B
            Y = (G + q * I + a2 * H) / (1 - q)
            Tx = th * (Y + I)
            YDn = Y + I - Tx
            C = a1 * YDn + a2 * H
            V = H + YDn - C
            Bn = V * (l0 + l1 * F(case['r'][k])) - l2 * YDn
            r = {'Y': Y, 'T': Tx, 'YD': YDn, 'C': C, 'H': V, 'B': Bn, 'M': V - Bn}
            Hn = V
            B = Bn
        out.append(r)
        H, YD = Hn, YDn
    return out


def fl(x):
    return float(F(x))


def lit(x):
    """a Python literal for a rational that is an exact decimal"""
    return repr(float(F(x)))


def build_and_solve(case, T):
    """-> dict(built, error, exact (list of dicts) | None, solver_returned, real (list of dicts) | None)"""
    from sfc_models.gl_book.chapter3 import SIM, SIMEX1
    from sfc_models.gl_book.chapter4 import PC
    from harness import project, exact
    out = {'built': False, 'error': None, 'exact': None, 'undecided': None, 'solver_returned': False, 'real': None,
           'text': None}
    model_name = case['model']
    try:
        cls = {'SIM': SIM, 'SIMEX1': SIMEX1, 'PC': PC}[model_name]
        # for a third of the cases (a function of the case) the builder first installs the book's own exogenous
        # paths and initial values; the paths and stocks stated afterwards must override them
        book_first = int(core.digest(case), 16) % 3 == 0 and not case.get('partial')
        # (with partial stocks the book's own statement of the opening bill holding would remain in force)
        builder = cls('C', use_book_exogenous=book_first)
        out['book_first'] = book_first
        m = builder.build_model()
        c = m['C']
        hh, tf = c['HH'], c['TF']
        hh.AlphaIncome = fl(case['a1'])
        hh.AlphaFin = fl(case['a2'])
        tf.TaxRate = fl(case['theta'])
        gpath = [0.0] + [fl(g) for g in case['G'][:T]]
        # a path may be handed over as text, as a list or as a tuple (a function of the case)
        spelling = (lambda p: repr(p), lambda p: list(p), lambda p: tuple(p))[(int(core.digest(case), 16) // 3) % 3]
        out['path_spelling'] = ('text', 'list', 'tuple')[(int(core.digest(case), 16) // 3) % 3]
        if model_name == 'PC':
            gpath[0] = gpath[1]
            tre, dep = c['TRE'], c['DEP']
            tre.SetExogenous('DEM_GOOD', spelling(gpath))
            dep.SetExogenous('r', spelling([fl(x) for x in case['r'][:T + 1]]))
            hh.SetEquationRightHandSide('L0', lit(case['l0']))
            hh.SetEquationRightHandSide('L1', lit(case['l1']))
            hh.SetEquationRightHandSide('L2', lit(case['l2']))
            m.AddInitialCondition('HH', 'F', fl(case['H0']))
            m.AddInitialCondition('TRE', 'F', -fl(case['H0']))
            if case.get('partial'):
                # partial initial stocks (the style the chapter-4 builder documents): wealth and disposable income are
                # stated, the split between bills and money at k=0 is left to the model's own portfolio equation
                m.AddInitialCondition('HH', 'AfterTax', fl(case['YD0']))
            else:
                m.AddInitialCondition('HH', 'DEM_DEP', fl(case['B0']))
        else:
            c['GOV'].SetExogenous('DEM_GOOD', spelling(gpath))
            m.AddInitialCondition('HH', 'F', fl(case['H0']))
            m.AddInitialCondition('GOV', 'F', -fl(case['H0']))
            if model_name == 'SIMEX1':
                m.AddInitialCondition('HH', 'AfterTax', fl(case['YD0']))
        m.MaxTime = T
    except Exception as e:  # noqa
        out['error'] = 'build: %s: %s' % (type(e).__name__, e)
        return out
    try:
        m.main()
        out['solver_returned'] = True
    except Exception as e:  # noqa
        out['error'] = 'main: %s: %s' % (type(e).__name__, str(e)[:200])
    text = m.FinalEquations
    if not text:
        return out
    out['built'] = True
    out['text'] = text
    names = NAMES[model_name]
    if out['solver_returned']:
        try:
            out['real'] = [{v: m.GetTimeSeries(n)[k] for v, n in names.items()} for k in range(1, T + 1)]
        except Exception as e:  # noqa
            out['solver_returned'] = False
            out['error'] = 'series: %s: %s' % (type(e).__name__, e)
    try:
        sys_ = project.parse_system(text)
        res = exact.solve(sys_, T)
        if any(res.freed.get(k) for k in range(1, T + 1)):
            out['undecided'] = 'freed variables remain'
        else:
            out['exact'] = [{v: res.series[n][k] for v, n in names.items()} for k in range(1, T + 1)]
    except (exact.Undecided, project.ProjectionError, ZeroDivisionError, KeyError) as e:
        out['undecided'] = '%s: %s' % (type(e).__name__, e)
    return out


def solver_close(real, cf, tol=TOL_MODEL):
    worst = 0.0
    for k, row in enumerate(real):
        for v, x in row.items():
            want = float(cf[k][v])
            err = abs(float(x) - want) / max(1.0, abs(want))
            worst = max(worst, err)
    return worst <= 50 * tol, worst


def rat(x):
    x = F(x)
    return [x.numerator, x.denominator]


def small(x):
    return abs(x.numerator) < 2 ** 30 and x.denominator < 2 ** 30


def observe_case(case, T, ongrid, tlc_hist=None):
    cf = closed_form(case, T)
    if tlc_hist is not None:
        # bind the Python mirror to the specification: identical to TLC's own output on the grid
        for k, row in enumerate(tlc_hist[:T]):
            for v in ('Y', 'T', 'YD', 'C', 'H') + (('B', 'M') if case['model'] == 'PC' else ()):
                if F(row[v]) != cf[k][v]:
                    raise core.MachineryError('Python closed form differs from Book.tla on %s k=%d %s' % (
                        json.dumps(case)[:200], k + 1, v))
    r = build_and_solve(case, T)
    ev = {'ev': 'Book' if ongrid else 'BookOff', 'built': r['built'], 'decided': r['exact'] is not None,
          'solver_returned': r['solver_returned'], 'solver_close': True, 'exact_equal': True}
    info = {'error': r['error'], 'undecided': r['undecided']}
    if r['solver_returned'] and r['real'] is not None:
        ok, worst = solver_close(r['real'], cf)
        ev['solver_close'] = ok
        info['solver_worst_rel_err'] = worst
    if r['exact'] is not None:
        names = list(NAMES[case['model']])
        eq = all(r['exact'][k][v] == cf[k][v] for k in range(T) for v in names)
        ev['exact_equal'] = eq
        if not eq:
            for k in range(T):
                for v in names:
                    if r['exact'][k][v] != cf[k][v]:
                        info['first_difference'] = 'k=%d %s: equations give %s, book gives %s' % (
                            k + 1, v, r['exact'][k][v], cf[k][v])
                        break
                if 'first_difference' in info:
                    break
        if ongrid:
            ok_small = all(small(r['exact'][k][v]) for k in range(T) for v in names)
            if ok_small:
                ev['case'] = case
                ev['series'] = [dict({v: rat(r['exact'][k][v]) for v in names},
                                     **({} if case['model'] == 'PC' else {'B': [0, 1], 'M': [0, 1]})) for k in range(T)]
            else:
                ev['ev'] = 'BookOff'     # too large for TLC's integers: judged by the mirror
    if ev['ev'] == 'Book' and 'series' not in ev:
        ev['ev'] = 'BookOff'
    return ev, info


def iterative_case(rnd, T=8, slow=None):
    """the bundled hand-coded iterative SIM against the closed form"""
    from sfc_models.gl_book.model_SIM_iterative import ModelSIMiterative
    a1 = Fraction(rnd.randint(30, 90), 100)
    a2 = Fraction(rnd.randint(5, 60), 100)
    th = Fraction(rnd.randint(5, 50), 100)
    draw = rnd.random()
    if (draw < 0.35) if slow is None else slow:
        # the slow corner: a high propensity to consume with a low tax rate (the sweep contracts by q = a1*(1-theta)
        # close to 1 and needs hundreds of sweeps per period)
        a1 = Fraction(rnd.randint(90, 98), 100)
        th = Fraction(rnd.randint(1, 6), 100)
    H0 = Fraction(rnd.randint(0, 120))
    G = [Fraction(rnd.randint(5, 40)) for _ in range(T + 1)]
    case = {'model': 'SIM', 'a1': rat(a1), 'a2': rat(a2), 'theta': rat(th), 'G': [rat(g) for g in G[1:]],
            'H0': rat(H0), 'YD0': [0, 1], 'B0': [0, 1]}
    cf = closed_form(case, T)
    ev = {'ev': 'Iterative', 'ran': False, 'close': False}
    info = {'case': case}
    try:
        obj = ModelSIMiterative()
        obj.theta, obj.alpha1, obj.alpha2 = float(th), float(a1), float(a2)
        obj.H = [float(H0)]
        obj.G = [float(g) for g in G]
        obj.main()
        ev['ran'] = True
        q = float(a1 * (1 - th))
        # the loop stops when successive guesses of Y differ by <= 1e-3: |Y - Y*| <= 1e-3*q/(1-q); the error in H
        # accumulates at most linearly in k
        bound_y = 1e-3 * (1 + q / (1 - q)) * 2
        worst = 0.0
        close = True
        for k in range(1, T + 1):
            for v, series in (('Y', obj.Y), ('YD', obj.YD), ('T', obj.tax), ('C', obj.C), ('H', obj.H)):
                err = abs(series[k] - float(cf[k - 1][v]))
                lim = bound_y * (k + 1)
                worst = max(worst, err / lim)
                if err > lim:
                    close = False
        ev['close'] = close
        info['worst_over_bound'] = worst
    except Exception as e:  # noqa
        info['error'] = '%s: %s' % (type(e).__name__, e)
    return ev, info


def method2_case(rnd, T=6):
    """the second solution method of the hand-coded SIM (RunMethod2: one call per period) against the closed form"""
    from sfc_models.gl_book.model_SIM_iterative import ModelSIMiterative
    # the method gives up after 100 sweeps: only clear contractions (q = a1*(1-theta) <= 0.45) are asked of it
    th = Fraction(rnd.randint(10, 50), 100)
    a1 = Fraction(rnd.randint(30, 50), 100)
    a2 = Fraction(rnd.randint(5, 60), 100)
    H0 = Fraction(rnd.randint(0, 120))
    G = [Fraction(rnd.randint(0, 40)) for _ in range(T + 1)]
    case = {'model': 'SIM', 'a1': rat(a1), 'a2': rat(a2), 'theta': rat(th), 'G': [rat(g) for g in G[1:]],
            'H0': rat(H0), 'YD0': [0, 1], 'B0': [0, 1]}
    cf = closed_form(case, T)
    ev = {'ev': 'Iterative', 'ran': False, 'close': False, 'method': 2}
    info = {'case': case, 'method': 'RunMethod2'}
    try:
        obj = ModelSIMiterative()
        obj.theta, obj.alpha1, obj.alpha2 = float(th), float(a1), float(a2)
        obj.H = [float(H0)]
        obj.G = [float(g) for g in G]
        for _ in range(T):
            obj.RunMethod2()
        ev['ran'] = True
        close = True
        worst = 0.0
        for k in range(1, T + 1):
            for v, series in (('Y', obj.Y), ('YD', obj.YD), ('T', obj.tax), ('C', obj.C), ('H', obj.H)):
                err = abs(series[k] - float(cf[k - 1][v]))
                # the sweep stops when the summed change of the vector is <= 1e-3; stock errors add up over k
                lim = 0.01 * (k + 1)
                worst = max(worst, err / lim)
                if err > lim:
                    close = False
        ev['close'] = close
        info['worst_over_bound'] = worst
    except Exception as e:  # noqa
        info['error'] = '%s: %s' % (type(e).__name__, e)
    return ev, info


def random_case(rnd, model, T):
    def dec(lo, hi, digits):
        q = 10 ** digits
        return Fraction(rnd.randint(int(lo * q), int(hi * q)), q)
    digits = rnd.choice([2, 4, 6, 8])
    th = dec(0.05, 0.5, digits)
    a1 = dec(0.3, 0.95, digits)
    # keep the one-sweep map a clear contraction so that the real solver is expected to return (clause b);
    # clause (a) does not need it
    if rnd.random() < 0.7:
        while a1 * (1 - th) > Fraction(6, 10):
            a1 = a1 * Fraction(9, 10)
            a1 = Fraction(int(a1 * 10 ** digits), 10 ** digits)
    gd = rnd.choice([1, 1, 7])
    rd = rnd.choice([3, 3, 8])
    case = {'model': model, 'a1': rat(a1), 'a2': rat(dec(0.05, 0.6, digits)), 'theta': rat(th),
            'l0': rat(dec(0.3, 0.8, digits)), 'l1': rat(dec(1, 8, 2)), 'l2': rat(dec(0.0, 0.05, digits)),
            # (paths with few and with many decimals: a path entry must reach the solver as stated)
            'G': [rat(dec(5, 60, gd)) for _ in range(T)],
            'r': [rat(dec(0.0, 0.08, rd)) for _ in range(T + 1)],
            'H0': rat(dec(0, 150, 1)), 'YD0': rat(dec(0, 100, 1)), 'B0': [0, 1]}
    if model == 'PC':
        case['B0'] = rat(F(case['H0']) * Fraction(rnd.randint(0, 9), 10))
    if model != 'SIMEX1':
        case['YD0'] = [0, 1]
    if model == 'PC' and F(case['H0']) > 0 and rnd.random() < 0.4:
        case['partial'] = True
        case['YD0'] = rat(dec(1, 100, 1))
    return case


def signature(clause, case):
    return '%s:%s' % (clause, case.get('model', 'iterative'))


def run(rep):
    cfg = 'MC_Book_quick.cfg' if rep.tier == 'quick' else 'MC_Book_thorough.cfg'
    res = core.tlc('MC_Book', cfg, workers=1, tag='c09')
    if res.violated:
        raise core.MachineryError('Book identity %s violated' % res.violated)
    rep.add_tlc(res, 'exhaustive Book ' + cfg)
    behs = core.json_of_printed(res, 'BEH')
    if not behs:
        raise core.MachineryError('Book run emitted no behaviours')
    rep.rule = ('grid behaviours = every case of the designed parameter grid of spec/MC_Book.tla with its exact series, '
                'emitted by TLC; each is rebuilt with the real gl_book builder and compared exactly; off-grid cases = seeded '
                'random parameter vectors (2-8 digits), paths and initial stocks for SIM, SIMEX1, PC; plus the bundled '
                'iterative SIM; distinct = distinct case JSON; non-trivial = the builder produced equations')
    rep.exhaustive = False
    rep.assumptions = ['exact oracle and equation-text reader trusted; Python mirror of Book!StepOp checked against TLC on every grid case',
                      'clause (b) is evaluated only when the real solver returns (a ConvergenceError is a loud failure, C11)']
    rnd = random.Random(rep.seed)
    cases = []
    grid = behs
    if rep.tier == 'quick':
        rnd2 = random.Random(rep.seed + 1)
        grid = sorted(behs, key=lambda b: core.canonical(b['c']))
        rnd2.shuffle(grid)
        grid = grid[:60]
    for b in grid:
        T = len(b['hist'])
        cases.append(('grid', b['c'], T, b['hist']))
    n_off = 12 if rep.tier == 'quick' else 170
    for i in range(n_off):
        for model in ('SIM', 'SIMEX1', 'PC'):
            T = rnd.choice([3, 5, 8, 12]) if rep.tier != 'quick' else rnd.choice([3, 5])
            cases.append(('off', random_case(rnd, model, T), T, None))
    n_iter = 6 if rep.tier == 'quick' else 60
    traces = []
    infos = []
    import concurrent.futures
    with concurrent.futures.ProcessPoolExecutor(max_workers=8) as ex:
        results = list(ex.map(_job, cases, chunksize=4))
    for (kind, case, T, hist), r in zip(cases, results):
        if isinstance(r, str):
            raise core.MachineryError(r)
        ev, info = r
        traces.append((len(traces), [ev]))
        infos.append((case, info))
        rep.add_case({'kind': kind, 'case': case, 'T': T}, ev['built'])
    for i in range(n_iter):
        ev, info = iterative_case(rnd, slow=(i % 3 == 0))     # every third case sits in the slow corner
        traces.append((len(traces), [ev]))
        infos.append((info.get('case', {}), info))
        rep.add_case({'kind': 'iterative', 'case': info.get('case')}, True)
    for i in range(max(4, n_iter // 2)):
        ev, info = method2_case(rnd)
        traces.append((len(traces), [ev]))
        infos.append((info.get('case', {}), info))
        rep.add_case({'kind': 'iterative-method2', 'case': info.get('case')}, True)
    judge(rep, traces, infos)


def _job(args):
    kind, case, T, hist = args
    try:
        return observe_case(case, T, kind == 'grid', hist)
    except core.MachineryError as e:
        return 'MACHINERY: %s' % e


def judge(rep, traces, infos):
    verdicts, st, tr = core.validate_traces('MC_Book_Trace', 'MC_Book_Trace.cfg', traces, chunk=60, tag='c09')
    rep.traces += len(traces)
    rep.extra['trace_validation_states'] = st
    und = 0
    for (tid, events), (case, info) in zip(traces, infos):
        for c in [x for x in verdicts[tid].split(':', 1)[1].split(',') if x]:
            if c.startswith('C09_'):
                rep.violate(c, signature(c, case), {'case': case, 'event': {k: v for k, v in events[0].items() if k not in ('series', 'case')}},
                            detail=json.dumps(info, default=str)[:500])
            elif c == 'undecided':
                und += 1
    rep.extra['undecided_by_exact_oracle'] = und


def replay(path):
    with open(path) as f:
        data = json.load(f)
    case = data['case']['case']
    rep = core.Report('C09', 'quick', 0)
    if not case.get('G'):
        print('iterative case: re-run the check with the same seed')
        return 0
    T = len(case['G'])
    ev, info = observe_case(case, T, False)
    judge(rep, [(0, [ev])], [(case, info)])
    print(json.dumps({'case': case, 'event': ev, 'info': info}, default=str))
    if rep.violations:
        print('VIOLATION property=C09 replay=%s' % path)
        return 1
    print('replay: property clauses hold on this case now')
    return 0
