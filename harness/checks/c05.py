"""C05 - the generated system is closed, canonical and free of placeholder names.

Two specifications decide it:
  * spec/ModelBuild.tla (shared model-level driver, harness/modelcheck.py): C05_Closed on the abstract final state;
    rebuilt models embed names requested before full codes exist in sector equations, product terms, supplier rules
    and global equations; the emitted text is checked for placeholders, duplicate / non-canonical names, dangling
    references and meaning preservation.
  * spec/Names.tla: the life of a placeholder - every sequence of (request a name, embed it in a place) made before
    main() or, through a user-defined sector, inside main() after full codes exist; invariant C05_NoPlaceholder.
    Each behaviour is replayed on a real SIM-like model and validated by Names_Trace.
"""
import json
import os

from harness import core, modelcheck

PROP = 'C05'
PREFIXES = ['C05_']


def names_job(beh, seed):
    """one Names behaviour on a real model"""
    from sfc_models.models import Model, Country
    from sfc_models.sector import Sector, Market
    from sfc_models.sector_definitions import ConsolidatedGovernment, Household, FixedMarginBusiness, TaxFlow
    from harness import modelkit, modelprops as mp, project
    import random as _random
    reqs = beh['requests']
    rng = _random.Random(seed)
    m = Model()
    c = Country(m, 'C', currency='C')
    objs = {}
    makers = {'GOV': lambda: ConsolidatedGovernment(c, 'GOV'), 'HH': lambda: Household(c, 'HH'),
              'BUS': lambda: FixedMarginBusiness(c, 'BUS'), 'TF': lambda: TaxFlow(c, 'TF', taxrate=0.2),
              'LAB': lambda: Market(c, 'LAB'), 'GOOD': lambda: Market(c, 'GOOD')}

    def need(code):
        if code not in objs:
            objs[code] = makers[code]()
        return objs[code]
    # the sectors the probes are written into exist from the start; the others appear in a seed-chosen order, some
    # only after the first names have been handed out (and after an unrelated Model() has been created)
    need('HH')
    need('GOOD')
    pending = [k for k in ('GOV', 'BUS', 'TF', 'LAB')]
    rng.shuffle(pending)
    for _ in range(rng.randint(0, 4)):
        need(pending.pop())
    intended = []
    deferred = []
    events = []
    counter = [0]

    def embed(r, when):
        owner = need(r['var'][0])
        name = owner.GetVariableName(r['var'][1])
        counter[0] += 1
        n = counter[0]
        intended.append((n, r['place'], r['var'][0], r['var'][1]))
        got = name.startswith('_') and '__' in name and name.split('__')[0][1:].isdigit()
        place = r['place']
        if place == 'sector_eq':
            objs['HH'].AddVariable('PROBE%d' % n, 'probe', '2.0*%s' % name)
        elif place == 'term':
            objs['HH'].AddVariable('PROBE%d' % n, 'probe', '')
            objs['HH'].AddTermToEquation('PROBE%d' % n, '%s*AlphaFin' % name)
        elif place == 'supplier_rule':
            objs['GOOD'].AddVariable('PROBE%d' % n, 'probe', '0.5*%s' % name)
        elif place == 'global':
            m.AddGlobalEquation('PROBE%d' % n, 'probe', '3.0*%s' % name)
        elif place == 'own_generate':
            # a user-defined sector keeps the name it was given and writes it into an equation of its own when its
            # _GenerateEquations() runs inside main()
            if when == 'coded':
                objs['PROBE'].AddVariable('PROBE%d' % n, 'probe', '4.0*%s' % name)
            else:
                deferred.append((n, name))
        events.append({'ev': 'Request', 'place': place, 'var': r['var'], 'when': when, 'got_placeholder': bool(got)})

    late = [r for r in reqs if not r['placeholder']]
    early = [r for r in reqs if r['placeholder']]

    class Probe(Sector):
        """a user-defined sector: its _GenerateEquations runs inside main(), after full codes exist"""
        def _GenerateEquations(self):
            for (n, name) in deferred:
                self.AddVariable('PROBE%d' % n, 'probe', '4.0*%s' % name)
            for r in late:
                embed(r, 'coded')

    for i, r in enumerate(early):
        if rng.random() < 0.5:
            Model()      # an unrelated model created while this one is under construction must change nothing
        for _ in range(rng.randint(0, 2)):
            if pending:
                need(pending.pop())
        embed(r, 'construct')
    while pending:
        need(pending.pop())
    objs['PROBE'] = Probe(c, 'PRB', has_F=False)
    objs['GOV'].SetExogenous('DEM_GOOD', '[0.] + [20.]*5')
    m.MaxTime = 2
    ev = {'ev': 'Main', 'main_ok': True, 'no_placeholder': True, 'closed': True, 'canonical': True, 'defined_once': True,
          'meaning': True}
    info = {}
    try:
        m.main()
    except Exception as e:  # noqa
        info['main_error'] = '%s: %s' % (type(e).__name__, str(e)[:200])
    text = m.FinalEquations
    if not text:
        ev['main_ok'] = False
    else:
        b = modelkit.Built()
        b.model = m
        b.final_text = text
        b.sectors = {'C.' + k: v for k, v in objs.items()}
        try:
            b.system = project.parse_system(text)
            cl = mp.closure(b)
            ev.update(no_placeholder=not cl['placeholders'], closed=not (cl['dangling'] or cl['ic_undefined']),
                      canonical=not (cl['noncanonical'] or cl['missing'] or cl['extra']), defined_once=not cl['dupes'],
                      meaning=not mp.meaning_preserved(b, seed=seed))
            info['closure'] = cl
            # every probe still refers to the variable whose name was requested (however the name was spelt then)
            wrong = []
            rnd = _random.Random(seed + 1)
            from fractions import Fraction
            env = {nm: Fraction(rnd.randint(1, 9), rnd.randint(1, 7)) for nm in sorted(b.system.defined() | {'k'})}
            for (n, place, own, loc) in intended:
                target = '%s__%s' % (own, loc)
                host = {'sector_eq': 'HH__PROBE%d', 'term': 'HH__PROBE%d', 'supplier_rule': 'GOOD__PROBE%d',
                        'global': 'PROBE%d', 'own_generate': 'PRB__PROBE%d'}[place] % n
                if host not in b.system.endo or target not in env:
                    wrong.append(host)
                    continue
                want = {'sector_eq': Fraction(2) * env[target], 'supplier_rule': Fraction(1, 2) * env[target],
                        'global': Fraction(3) * env[target], 'own_generate': Fraction(4) * env[target],
                        'term': env[target] * env.get('HH__AlphaFin', Fraction(0))}[place]
                try:
                    got = mp._eval(b.system.endo[host], env)
                except Exception:  # noqa
                    got = None
                if got != want:
                    wrong.append(host)
            if wrong:
                ev['meaning'] = False
                info['probe_refers_elsewhere'] = wrong
        except project.ProjectionError as e:
            ev.update(closed=False)
            info['projection'] = str(e)
    return events + [ev], info


def _names_job_star(job):
    try:
        return names_job(job[0], job[1])
    except Exception as e:  # noqa
        import traceback
        return 'names_job failed: ' + traceback.format_exc()[-600:], None


def run_names(rep):
    cfg = 'MC_Names_quick.cfg' if rep.tier == 'quick' else 'MC_Names_thorough.cfg'
    res = core.tlc('MC_Names', cfg, workers=1, tag='c05n')
    if res.violated:
        raise core.MachineryError('Names invariant %s violated' % res.violated)
    rep.add_tlc(res, 'exhaustive Names ' + cfg)
    behs = core.json_of_printed(res, 'BEH')
    if not behs:
        raise core.MachineryError('Names run emitted no behaviours')
    seen = {}
    for b in behs:
        seen[core.canonical(b)] = b
    behs = list(seen.values())
    if not any(r['placeholder'] for b in behs for r in b['requests']):
        raise core.MachineryError('Names run emitted no behaviour with a request made before main(): vacuous')
    traces, infos, cases = [], [], []
    per = 2 if rep.tier == 'quick' else 3
    if rep.tier != 'quick' and len(behs) > 5000:
        # thorough: every behaviour with at most two requests, and a seeded sample of the longer ones
        import random as _r
        short = [b for b in behs if len(b['requests']) <= 2]
        longer = [b for b in behs if len(b['requests']) > 2]
        _r.Random(rep.seed).shuffle(longer)
        behs = short + longer[:5000 - min(len(short), 5000)]
        rep.extra['names_behaviours_sampled'] = len(behs)
    jobs = []
    for i, b in enumerate(behs):
        early = any(r['placeholder'] for r in b['requests'])
        for j in range(per if early else 1):
            # the seed fixes when the other sectors (and unrelated Model objects) are created relative to the requests
            jobs.append((b, rep.seed + 7919 * i + j, early))
    import concurrent.futures
    with concurrent.futures.ProcessPoolExecutor(max_workers=min(16, os.cpu_count() or 4)) as ex:
        results = list(ex.map(_names_job_star, jobs, chunksize=max(1, len(jobs) // 64)))
    for (b, oseed, early), (ev, info) in zip(jobs, results):
        if isinstance(ev, str):
            raise core.MachineryError(ev)
        case = {'names_behaviour': b, 'order_seed': oseed}
        traces.append((len(traces), ev))
        infos.append(info)
        cases.append(case)
        rep.add_case(case, early)
    verdicts, st, tr = core.validate_traces('MC_Names_Trace', 'MC_Names_Trace.cfg', traces, tag='c05n')
    rep.traces += len(traces)
    rep.extra['names_behaviours'] = len(behs)
    rep.extra['names_executions'] = len(traces)
    for i, case in enumerate(cases):
        b = case['names_behaviour']
        for cl in [x for x in verdicts[i].split(':', 1)[1].split(',') if x]:
            if cl.startswith('C05_'):
                places = sorted({r['place'] for r in b['requests'] if r['placeholder']})
                why = '+'.join(sorted(k for k in ('probe_refers_elsewhere', 'main_error', 'projection') if k in infos[i]))
                rep.violate(cl, '%s:placeholder-embedded-in:%s%s' % (cl, '+'.join(places) or 'none', ':' + why if why else ''),
                            case, detail=json.dumps(infos[i], default=str)[:500])
            elif cl.startswith('drift_'):
                rep.add_drift(cl, case)


def run(rep):
    modelcheck.describe(rep, PROP)
    rep.rule += '; plus every behaviour of spec/Names.tla (name requests before / inside main() x embedding places)'
    modelcheck.run_property(rep, PROP, PREFIXES)
    run_names(rep)


def replay(path):
    with open(path) as f:
        data = json.load(f)
    if 'names_behaviour' in data['case']:
        rep = core.Report(PROP, 'quick', 0)
        b = data['case']['names_behaviour']
        ev, info = names_job(b, data['case'].get('order_seed', 0))
        verdicts, st, tr = core.validate_traces('MC_Names_Trace', 'MC_Names_Trace.cfg', [(0, ev)], tag='c05n')
        print(json.dumps({'behaviour': b, 'events': ev, 'info': info}, default=str)[:2000])
        bad = [c for c in verdicts[0].split(':', 1)[1].split(',') if c.startswith('C05_')]
        if bad:
            print('VIOLATION property=C05 replay=%s' % path)
            return 1
        print('replay: property clauses hold on this case now')
        return 0
    return modelcheck.replay_case(PROP, PREFIXES, path)
