"""
exact.py - exact rational reference semantics of an equation block (DESIGN.md appendix A).

solve(system, horizon) -> Result with series[var] = [Fraction, ...] for k = 0..horizon.
No tolerance anywhere: per period the lagged / exogenous variables and k are known Fractions,
constants are propagated, the remaining affine system is solved by Gaussian elimination over
Fraction.  A variable whose own equation is not affine in the unknowns is *freed* (equation
dropped, arbitrary value), then re-evaluated exactly; if the re-evaluation reaches a fixed point
the solution is the exact solution of the full system (block-triangular case).

k = 0 follows the real solver's documented time-zero rule: initial condition if given, exogenous
value, else the value of a constant definition, else 0.
"""
from __future__ import annotations

import ast
from fractions import Fraction

from harness.project import frac_of_constant


class NonAffine(Exception):
    pass


class Undecided(Exception):
    """The oracle cannot decide this system (singular, non-rational function, ...)."""


class Result(object):
    def __init__(self):
        self.series = {}
        self.freed = {}      # k -> set of variables that stayed freed in period k
        self.horizon = 0

    def exact(self, k):
        return not self.freed.get(k)


# affine forms: (const Fraction, {var: Fraction})

def aff_const(c):
    return (Fraction(c), {})


def aff_add(a, b, sign=1):
    c = a[0] + sign * b[0]
    d = dict(a[1])
    for v, x in b[1].items():
        d[v] = d.get(v, 0) + sign * x
        if d[v] == 0:
            del d[v]
    return (c, d)


def aff_scale(a, s):
    if s == 0:
        return (Fraction(0), {})
    return (a[0] * s, {v: x * s for v, x in a[1].items()})


_FUNCS = {
    'max': max, 'min': min, 'abs': abs, 'float': lambda x: x,
}


def affine(node, env, unknowns):
    """Affine form of an expression over `unknowns`, everything else looked up in env."""
    if isinstance(node, ast.Constant):
        return aff_const(frac_of_constant(node.value))
    if isinstance(node, ast.Name):
        if node.id in unknowns:
            return (Fraction(0), {node.id: Fraction(1)})
        if node.id in env:
            return aff_const(env[node.id])
        raise Undecided('name %s is not defined' % node.id)
    if isinstance(node, ast.UnaryOp):
        a = affine(node.operand, env, unknowns)
        if isinstance(node.op, ast.USub):
            return aff_scale(a, -1)
        if isinstance(node.op, ast.UAdd):
            return a
        raise NonAffine()
    if isinstance(node, ast.BinOp):
        a = affine(node.left, env, unknowns)
        b = affine(node.right, env, unknowns)
        if isinstance(node.op, ast.Add):
            return aff_add(a, b)
        if isinstance(node.op, ast.Sub):
            return aff_add(a, b, -1)
        if isinstance(node.op, ast.Mult):
            if not a[1]:
                return aff_scale(b, a[0])
            if not b[1]:
                return aff_scale(a, b[0])
            raise NonAffine()
        if isinstance(node.op, ast.Div):
            if b[1]:
                raise NonAffine()
            if b[0] == 0:
                raise ZeroDivisionError()
            return aff_scale(a, 1 / b[0])
        if isinstance(node.op, ast.Pow):
            if a[1] or b[1]:
                raise NonAffine()
            if b[0].denominator == 1:
                return aff_const(a[0] ** int(b[0]))
            raise NonAffine()
        raise NonAffine()
    if isinstance(node, ast.Call) and isinstance(node.func, ast.Name) and node.func.id in _FUNCS:
        args = [affine(x, env, unknowns) for x in node.args]
        if any(x[1] for x in args):
            raise NonAffine()
        return aff_const(_FUNCS[node.func.id](*[x[0] for x in args]))
    raise NonAffine()


def evaluate(node, env):
    a = affine(node, env, ())
    return a[0]


def gauss(eqs, unknowns):
    """eqs: list of (const, coeffs) meaning  sum coeffs[v]*v + const = 0.  Returns {v: value}.
    Raises Undecided if singular/inconsistent."""
    vs = sorted(unknowns)
    idx = {v: i for i, v in enumerate(vs)}
    n = len(vs)
    rows = []
    for c, d in eqs:
        row = [Fraction(0)] * (n + 1)
        for v, x in d.items():
            row[idx[v]] += x
        row[n] = -c
        rows.append(row)
    r = 0
    piv = []
    for col in range(n):
        p = None
        for i in range(r, len(rows)):
            if rows[i][col] != 0:
                p = i
                break
        if p is None:
            continue
        rows[r], rows[p] = rows[p], rows[r]
        pv = rows[r][col]
        rows[r] = [x / pv for x in rows[r]]
        for i in range(len(rows)):
            if i != r and rows[i][col] != 0:
                f = rows[i][col]
                rows[i] = [x - f * y for x, y in zip(rows[i], rows[r])]
        piv.append(col)
        r += 1
    for i in range(r, len(rows)):
        if rows[i][n] != 0:
            raise Undecided('inconsistent affine system')
    if len(piv) < n:
        missing = [vs[c] for c in range(n) if c not in piv]
        raise Undecided('under-determined: %s' % ','.join(missing[:5]))
    return {vs[col]: rows[i][n] for i, col in enumerate(piv)}


def time_zero(system):
    """k = 0 values, following the solver's documented passes."""
    vals = {}
    allv = list(system.endo) + list(system.lagged)
    for v in allv:
        vals[v] = system.ic.get(v, Fraction(0))
    consts = {v: x for v, x in vals.items() if v in system.ic}
    for v, path in system.exo.items():
        vals[v] = path[0]
        consts[v] = path[0]
    consts['k'] = Fraction(0)
    changed = True
    while changed:
        changed = False
        for v, node in system.endo.items():
            if v in consts:
                continue
            try:
                a = affine(node, consts, ())
            except (NonAffine, Undecided, ZeroDivisionError):
                continue
            consts[v] = a[0]
            vals[v] = a[0]
            changed = True
    return vals


def solve(system, horizon=None, free_value=Fraction(1, 3), max_rounds=10):
    T = system.max_time if horizon is None else horizon
    res = Result()
    res.horizon = T
    for v, path in system.exo.items():
        if len(path) < T + 1:
            raise Undecided('exogenous %s too short' % v)
    z = time_zero(system)
    names = list(system.endo) + list(system.lagged) + list(system.exo)
    cur = dict(z)
    for v in names:
        res.series[v] = [cur.get(v, Fraction(0))]
    res.series['k'] = [Fraction(0)]
    prev = {v: res.series[v][0] for v in res.series}
    for k in range(1, T + 1):
        env = {'k': Fraction(k)}
        for v, path in system.exo.items():
            env[v] = path[k]
        for v, src in system.lagged.items():
            if src not in prev:
                raise Undecided('lag source %s undefined' % src)
            env[v] = prev[src]
        freed_vals = {}
        sol = None
        stayed_freed = set()
        for rnd in range(max_rounds):
            sol, freed = _solve_period(system, dict(env), freed_vals, free_value)
            # re-evaluate freed variables exactly
            moved = False
            full = dict(env)
            full.update(sol)
            stayed_freed = set()
            for v in freed:
                try:
                    val = _eval_nonaffine(system.endo[v], full)
                except (NonAffine, Undecided, ZeroDivisionError):
                    stayed_freed.add(v)
                    continue
                if val != full[v]:
                    freed_vals[v] = val
                    moved = True
            if not moved:
                break
        else:
            stayed_freed = set(freed)
        full = dict(env)
        full.update(sol)
        if stayed_freed:
            res.freed[k] = stayed_freed
        for v in res.series:
            if v == 'k':
                res.series['k'].append(Fraction(k))
            else:
                res.series[v].append(full[v])
        prev = {v: res.series[v][k] for v in res.series}
    return res


def _eval_nonaffine(node, env):
    """Exact evaluation of a rational expression with every name known."""
    if isinstance(node, ast.Constant):
        return frac_of_constant(node.value)
    if isinstance(node, ast.Name):
        if node.id in env:
            return env[node.id]
        raise Undecided('name ' + node.id)
    if isinstance(node, ast.UnaryOp):
        v = _eval_nonaffine(node.operand, env)
        return -v if isinstance(node.op, ast.USub) else v
    if isinstance(node, ast.BinOp):
        a = _eval_nonaffine(node.left, env)
        b = _eval_nonaffine(node.right, env)
        if isinstance(node.op, ast.Add):
            return a + b
        if isinstance(node.op, ast.Sub):
            return a - b
        if isinstance(node.op, ast.Mult):
            return a * b
        if isinstance(node.op, ast.Div):
            if b == 0:
                raise ZeroDivisionError()
            return a / b
        if isinstance(node.op, ast.Pow) and b.denominator == 1:
            return a ** int(b)
        raise NonAffine()
    if isinstance(node, ast.Call) and isinstance(node.func, ast.Name) and node.func.id in _FUNCS:
        return _FUNCS[node.func.id](*[_eval_nonaffine(x, env) for x in node.args])
    raise NonAffine()


def _solve_period(system, env, freed_vals, free_value):
    """Returns (solution for all endogenous variables, set of freed variables)."""
    unknowns = set(system.endo)
    freed = set()
    for v, val in freed_vals.items():
        env[v] = val
        unknowns.discard(v)
        freed.add(v)
    forms = {}
    while True:
        forms = {}
        nonaff = []
        progress = False
        for x in sorted(unknowns):
            try:
                a = affine(system.endo[x], env, unknowns)
            except NonAffine:
                nonaff.append(x)
                continue
            except ZeroDivisionError:
                nonaff.append(x)
                continue
            if not a[1]:
                env[x] = a[0]
                unknowns.discard(x)
                progress = True
            elif set(a[1]) == {x} and a[1][x] != 1:
                # x = c + a*x  with a != 1: solved on its own
                env[x] = a[0] / (1 - a[1][x])
                unknowns.discard(x)
                progress = True
            else:
                forms[x] = a
        if progress:
            continue
        if nonaff:
            # free one variable: prefer one that is itself non-affine-defined
            v = nonaff[0]
            env[v] = free_value
            unknowns.discard(v)
            freed.add(v)
            continue
        break
    sol = {}
    if unknowns:
        eqs = []
        for x in sorted(unknowns):
            c, d = forms[x]
            dd = dict(d)
            dd[x] = dd.get(x, 0) - 1
            if dd[x] == 0:
                del dd[x]
            eqs.append((c, dd))
        sol = gauss(eqs, unknowns)
    out = {v: env[v] for v in system.endo if v in env}
    out.update(sol)
    return out, freed
