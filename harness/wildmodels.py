"""
wildmodels.py - "code -> spec" on models the machinery did not design: every Model whose main() returns normally while
the repository's own example scripts (sfc_models/examples/scripts/*.py of the tree under test) run is projected with the
same functions as a blueprint build (harness/modelprops.py) and judged by spec/ModelBuild_Trace.tla (event "Harvested":
the blueprint-free clauses of C01 / C04 / C05 / C06 / C07).  The scripts define their own sector classes (investment
accelerators, capitalists, gold-standard governments): shapes that spec/ModelBlueprints.tla does not enumerate.

No file of the repository is touched: Model.main is wrapped at run time inside the child process.  One child process
per script, run in a scratch directory under /verif/.work (the scripts write log files into ./output).

  python -m harness.wildmodels <script-name> <out.json>     (child; SFC_REPO names the tree)
"""
import contextlib
import importlib
import io
import json
import os
import shutil
import subprocess
import sys
import time

from harness import core

HORIZON = 5
SKIP = {'__init__', 'run_all_scripts', 'build_run_all_scripts', 'build_script_list',
        'ex20171127_equations_state_space_models',   # needs matplotlib (absent): no model is built
        'sfcmod_investment', 'sfcmod_external_sector'}   # GUI front ends (sfc_gui is not part of the library)


def script_names(tree):
    d = os.path.join(tree, 'sfc_models', 'examples', 'scripts')
    if not os.path.isdir(d):
        return []
    return [f[:-3] for f in sorted(os.listdir(d)) if f.endswith('.py') and f[:-3] not in SKIP]


def _project(model, seed):
    """-> the 'Harvested' event of one built model"""
    from harness import modelkit, modelprops as mp, project, exact
    from harness.modelcheck import _safe, _BAD_MARKET
    b = modelkit.Built()
    b.model = model
    b.final_text = model.FinalEquations
    b.main_ran = True
    for c in model.CountryList:
        for s in c.GetSectors():
            b.sectors[c.Code + '.' + s.Code] = s
    info = {}
    b.system = project.parse_system(b.final_text)
    b.has_ic = bool(b.system.ic)
    try:
        b.exact = exact.solve(b.system, HORIZON)
    except (exact.Undecided, exact.NonAffine, ZeroDivisionError) as e:
        b.exact = None
        info['undecided'] = '%s: %s' % (type(e).__name__, str(e)[:120])
    decided = b.exact is not None
    cl = mp.closure(b)
    meaning_bad = mp.meaning_preserved(b, seed=seed)
    sfc, sfc_detail, mk, am, pf, rows_bad, numeraire = {}, {}, [], [], [], [], []
    if decided:
        sfc, sfc_detail = _safe(lambda: mp.sfc_by_zone(b), ({'?': [False]}, {'?': ['unobservable']}), info, 'sfc')
        mk = _safe(lambda: mp.markets(b), [dict(_BAD_MARKET)], info, 'markets')
        am = _safe(lambda: mp.asset_markets(b), [{'market': '?', 'n_holders': 0, 'n_issuers': 0, 'demand_aggregates': [False],
                                                 'clears': [False], 'issuer_supplies': [False]}], info, 'assetmarkets')
        pf = _safe(lambda: mp.portfolios(b), [{'sector': '?', 'assets': [], 'adds_up': [False]}], info, 'portfolios')
        rows_bad = _safe(lambda: mp.ledger_rows(b), ['unobservable'], info, 'ledger_rows')
        if model.ExternalSector is not None:
            numeraire, _nf, _ = _safe(lambda: mp.numeraire_value(b), ([False], [False], []), info, 'numeraire')
    ev = {'ev': 'Harvested', 'decided': decided, 'hasic': bool(b.has_ic), 'T': HORIZON,
          'hasext': model.ExternalSector is not None,
          'sfc': [{'cur': c, 'flags': f} for c, f in sorted(sfc.items())],
          'ledger_rows_ok': not rows_bad,
          'markets': mk, 'assetmarkets': am, 'portfolios': pf,
          'no_placeholder': not cl['placeholders'], 'defined_once': not cl['dupes'],
          'canonical': not (cl['noncanonical'] or cl['missing'] or cl['extra']),
          'closed': not (cl['dangling'] or cl['ic_undefined']), 'meaning': not meaning_bad,
          'numeraire': numeraire}
    info.update(sfc_detail=sfc_detail, closure={k: v for k, v in cl.items() if v}, meaning_bad=meaning_bad, rows_bad=rows_bad,
                n_sectors=len(b.sectors), n_equations=len(b.system.defined()))
    return ev, info


def child(script, out):
    tree = core.use_repo()
    sys.path.insert(0, os.path.join(tree, 'sfc_models', 'examples', 'scripts'))
    import sfc_models.examples.Quick2DPlot as extras
    extras.plt = None
    import sfc_models.models as M
    built = []
    orig = M.Model.main

    def main(self, *a, **k):
        r = orig(self, *a, **k)
        built.append(self)
        return r
    M.Model.main = main
    res = {'script': script, 'models': [], 'script_error': ''}
    try:
        with contextlib.redirect_stdout(io.StringIO()), contextlib.redirect_stderr(io.StringIO()):
            m = importlib.import_module(script)
            if 'main' in dir(m):
                m.main()
    except BaseException as e:   # a script may stop with an error after it has built its model (NoEquilibriumError ...)
        res['script_error'] = '%s: %s' % (type(e).__name__, str(e)[:200])
    finally:
        M.Model.main = orig
    seen = set()
    for i, model in enumerate(built):
        if id(model) in seen:
            continue
        seen.add(id(model))
        if not model.FinalEquations:
            # main() logs a Warning and returns without equations (documented): nothing was built
            res['models'].append({'idx': i, 'built': False})
            continue
        try:
            ev, info = _project(model, 1)
            res['models'].append({'idx': i, 'built': True, 'event': ev, 'info': info})
        except Exception as e:
            res['models'].append({'idx': i, 'built': True, 'machinery': '%s: %s' % (type(e).__name__, str(e)[:300])})
    with open(out, 'w') as f:
        json.dump(res, f, default=str)


def collect(only=None):
    """Runs every example script of the tree under test in its own child process -> list of per-script results."""
    names = script_names(core.repo_path())
    if only:
        names = [n for n in names if n in only]
    base = os.path.join(core.WORK_ROOT, 'wild_%d' % os.getpid())
    shutil.rmtree(base, ignore_errors=True)
    procs = []
    env = dict(os.environ, PYTHONPATH=core.VERIF, PYTHONHASHSEED='0', SFC_REPO=core.repo_path())
    t0 = time.time()
    try:
        for n in names:
            d = os.path.join(base, n)
            os.makedirs(os.path.join(d, 'output'))
            out = os.path.join(d, 'result.json')
            p = subprocess.Popen([sys.executable, '-m', 'harness.wildmodels', n, out], cwd=d, env=env,
                                 stdout=subprocess.DEVNULL, stderr=subprocess.PIPE, text=True)
            procs.append((n, p, out))
        results = []
        for n, p, out in procs:
            try:
                _, err = p.communicate(timeout=600)
            except subprocess.TimeoutExpired:
                p.kill()
                results.append({'script': n, 'models': [], 'script_error': 'timeout'})
                continue
            if os.path.exists(out):
                results.append(json.load(open(out)))
            else:
                results.append({'script': n, 'models': [], 'script_error': 'child failed: ' + (err or '')[-300:]})
    finally:
        shutil.rmtree(base, ignore_errors=True)
    return results, time.time() - t0


def judge(rep, prop, clause_prefixes, only=None):
    results, wall = collect(only)
    traces, meta = [], []
    not_built = 0
    for r in results:
        for m in r['models']:
            if not m.get('built'):
                not_built += 1
                continue
            if 'machinery' in m:
                raise core.MachineryError('projection of a harvested model failed (%s #%d): %s' % (r['script'], m['idx'], m['machinery']))
            events = [m['event']]
            if not m['event']['decided']:
                events.append({'ev': 'Undecided', 'why': 'harvested'})
            traces.append((len(traces), events))
            meta.append((r['script'], m['idx'], m['info']))
    rep.extra['harvested_scripts'] = len(results)
    rep.extra['harvested_scripts_without_model'] = sorted(r['script'] + (': ' + r['script_error'][:80] if r['script_error'] else '')
                                                          for r in results if not any(m.get('built') for m in r['models']))
    rep.extra['harvested_models'] = len(traces)
    rep.extra['harvested_main_returned_without_equations'] = not_built
    rep.extra['harvest_wall_s'] = round(wall, 1)
    if not traces:
        return
    verdicts, st, tr = core.validate_traces('MC_ModelBuild_Trace', 'MC_ModelBuild_Trace.cfg', traces,
                                            chunk=max(8, len(traces) // 8 + 1), tag=prop.lower() + 'w', stack='256m')
    rep.traces += len(traces)
    rep.extra['trace_validation_states'] = rep.extra.get('trace_validation_states', 0) + st
    undecided = 0
    for i, (script, idx, info) in enumerate(meta):
        case = {'wild': script, 'idx': idx}
        rep.add_case(case, traces[i][1][0]['decided'])
        clauses = [c for c in verdicts[i].split(':', 1)[1].split(',') if c]
        for c in clauses:
            if any(c.startswith(p) for p in clause_prefixes):
                detail = {k: info.get(k) for k in ('sfc_detail', 'projection_errors', 'closure', 'meaning_bad', 'rows_bad') if info.get(k)}
                rep.violate(c, '%s:wild:%s#%d' % (c, script, idx), case, detail=json.dumps(detail, default=str)[:600])
            elif c.startswith('undecided_'):
                undecided += 1
    rep.extra['harvested_undecided_by_exact_oracle'] = undecided


if __name__ == '__main__':
    child(sys.argv[1], sys.argv[2])
