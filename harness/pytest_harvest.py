"""
pytest_harvest.py - pytest plugin: harvest every EquationSolver.SolveEquation() that returns normally
while the repository's own test suite runs (DESIGN.md 5.2, "code -> spec" on the suite).

  cd $SFC_REPO && PYTHONPATH=/verif HARVEST_FILE=<file> /venv/bin/python -m pytest -q -p no:cacheprovider \
        -p harness.pytest_harvest test sfc_models

No file of the repository is touched: the method is wrapped at run time (pytest_configure) and the
original is restored at pytest_unconfigure.  One JSON line per normally returning call is appended to
$HARVEST_FILE: the equation text, the solver's settings, the parser's lists as used, the names of the
registered functions and the complete TimeSeries (floats as repr strings, so inf / nan survive JSON).
A call that raises contributes nothing.  Standard library only.
"""
import functools
import json
import os
import sys

_STATE = {'orig': None, 'cls': None, 'test': '', 'count': 0, 'depth': 0}


def _num(x):
    if isinstance(x, bool) or not isinstance(x, (int, float)):
        return 'obj:' + type(x).__name__
    return repr(float(x))


def _pairs(lst):
    out = []
    for item in lst:
        try:
            var, eqn = item
        except Exception:
            continue
        if isinstance(eqn, str):
            out.append([str(var), 'text', eqn])
        else:
            try:
                out.append([str(var), 'list', [_num(v) for v in list(eqn)]])
            except Exception:
                out.append([str(var), 'text', repr(eqn)])
    return out


def _record(solver):
    p = solver.Parser
    tol = solver.ParameterErrorTolerance
    if tol is None:
        tol = p.Err_Tolerance
    try:
        tol = float(tol)
    except Exception:
        tol = None
    ts = {}
    for name in solver.TimeSeries.keys():
        try:
            ts[str(name)] = [_num(v) for v in list(solver.TimeSeries[name])]
        except Exception:
            ts[str(name)] = []
    return {
        'test': _STATE['test'],
        'equation_string': solver.EquationString if isinstance(solver.EquationString, str) else '',
        'reduction': bool(solver.RunEquationReduction),
        'tolerance': tol,
        'max_iterations': int(solver.MaxIterations),
        'max_time': int(p.MaxTime),
        'endogenous': _pairs(p.Endogenous),
        'lagged': _pairs(p.Lagged),
        'exogenous': _pairs(p.Exogenous),
        'decoration': _pairs(p.Decoration),
        'functions': sorted(str(k) for k in solver.Functions.keys()),
        'initial_steady_state': bool(solver.ParameterSolveInitialSteadyState),
        'timeseries': ts,
    }


def _wrap(orig):
    @functools.wraps(orig)
    def SolveEquation(self, *args, **kwargs):
        _STATE['depth'] += 1
        try:
            result = orig(self, *args, **kwargs)
        finally:
            _STATE['depth'] -= 1
        # only reached when the call returned normally
        path = os.environ.get('HARVEST_FILE')
        if path and _STATE['depth'] == 0:
            try:
                line = json.dumps(_record(self), separators=(',', ':'))
                with open(path, 'a') as f:
                    f.write(line + '\n')
                _STATE['count'] += 1
            except Exception as e:      # never disturb the test that is running
                sys.stderr.write('pytest_harvest: could not record a solve: %r\n' % (e,))
        return result
    return SolveEquation


def pytest_configure(config):
    repo = os.environ.get('SFC_REPO')
    if repo:
        repo = os.path.abspath(repo)
        if repo in sys.path:
            sys.path.remove(repo)
        sys.path.insert(0, repo)
    import sfc_models.equation_solver as es
    got = os.path.dirname(os.path.dirname(os.path.abspath(es.__file__)))
    if repo and got != repo:
        raise RuntimeError('pytest_harvest: sfc_models imported from %s, wanted %s' % (got, repo))
    _STATE['cls'] = es.EquationSolver
    _STATE['orig'] = es.EquationSolver.SolveEquation
    es.EquationSolver.SolveEquation = _wrap(_STATE['orig'])


def pytest_unconfigure(config):
    if _STATE['cls'] is not None and _STATE['orig'] is not None:
        _STATE['cls'].SolveEquation = _STATE['orig']
    path = os.environ.get('HARVEST_FILE')
    if path:
        try:
            with open(path + '.done', 'w') as f:
                f.write(str(_STATE['count']))
        except Exception:
            pass


def pytest_runtest_setup(item):
    _STATE['test'] = item.nodeid


def pytest_runtest_teardown(item, nextitem):
    _STATE['test'] = ''
