"""
core.py - shared machinery of the /verif checks.

* locating the tree under test (SFC_REPO, default /repo) and putting it first on sys.path
* running TLC (exhaustive / simulate / trace validation) and parsing what it reports
* batched trace validation: ndjson in, one total verdict per trace id out
* known findings, replay files, evidence files, exit codes

Standard library only; run with /venv/bin/python.
"""
from __future__ import annotations

import concurrent.futures
import hashlib
import json
import os
import re
import shutil
import subprocess
import sys
import tempfile
import time

VERIF = os.path.dirname(os.path.dirname(os.path.abspath(__file__)))
SPEC_DIR = os.path.join(VERIF, 'spec')
EVIDENCE_DIR = os.path.join(VERIF, 'evidence')
REPLAY_DIR = os.path.join(VERIF, 'replays')
WORK_ROOT = os.path.join(VERIF, '.work')
FINDINGS_FILE = os.path.join(VERIF, 'known_findings.json')
TLA_JARS = '/opt/veriftools/tla/tla2tools.jar:/opt/veriftools/tla/CommunityModules-deps.jar'
GUARD = 'SFC_MODELS_VERIF'


class MachineryError(Exception):
    """Something in the verification machinery itself failed (exit code 2)."""


# --------------------------------------------------------------------------------------
# tree under test
# --------------------------------------------------------------------------------------

def repo_path():
    return os.path.abspath(os.environ.get('SFC_REPO', '/repo'))


def use_repo():
    """Put the tree under test first on sys.path; returns its path."""
    p = repo_path()
    if not os.path.isdir(os.path.join(p, 'sfc_models')):
        raise MachineryError('no sfc_models package under ' + p)
    if sys.path[0] != p:
        sys.path.insert(0, p)
    sys.dont_write_bytecode = True
    os.environ[GUARD] = '1'
    import warnings
    warnings.filterwarnings('ignore')
    import sfc_models  # noqa
    got = os.path.dirname(os.path.dirname(os.path.abspath(sfc_models.__file__)))
    if got != p:
        raise MachineryError('sfc_models imported from %s, wanted %s' % (got, p))
    return p


def repo_head():
    try:
        out = subprocess.run(['git', '-C', repo_path(), 'rev-parse', '--short', 'HEAD'],
                             capture_output=True, text=True, timeout=20)
        head = out.stdout.strip() or 'unknown'
        st = subprocess.run(['git', '-C', repo_path(), 'status', '--porcelain', '-uno'],
                            capture_output=True, text=True, timeout=20)
        if st.stdout.strip():
            head += '+dirty'
        return head
    except Exception:
        return 'unknown'


# --------------------------------------------------------------------------------------
# work directories
# --------------------------------------------------------------------------------------

def workdir(tag):
    os.makedirs(WORK_ROOT, exist_ok=True)
    return tempfile.mkdtemp(prefix=tag + '_', dir=WORK_ROOT)


def cleanup(path):
    shutil.rmtree(path, ignore_errors=True)


# --------------------------------------------------------------------------------------
# TLC
# --------------------------------------------------------------------------------------

class TLCResult(object):
    def __init__(self):
        self.states = 0
        self.distinct = 0
        self.depth = 0
        self.ok = False
        self.violated = None       # name of violated invariant / property, if any
        self.errors = []
        self.printed = []          # parsed PrintT tuples (as python lists)
        self.coverage = {}         # action name -> (distinct, total) when -coverage was used
        self.wall = 0.0
        self.stdout = ''
        self.cmd = ''


_RE_STATES = re.compile(r'(\d+) states generated, (\d+) distinct states found')
_RE_DEPTH = re.compile(r'The depth of the complete state graph search is (\d+)')
_RE_INV = re.compile(r'Invariant (\S+) is violated')
_RE_PROP = re.compile(r'(?:Action|Temporal) propert(?:y|ies) (\S+)? ?(?:is|were) violated')
_RE_COV = re.compile(r'^<(\w+) line \d+, col \d+ to line \d+, col \d+ of module (\w+)>: (\d+):(\d+)')


def parse_tla_value(s):
    """Parse the small subset of TLA+ values our specs print: tuples << >>, strings, ints,
    TRUE/FALSE.  Returns python lists / str / int / bool."""
    pos = 0
    n = len(s)

    def ws():
        nonlocal pos
        while pos < n and s[pos] in ' \t\r\n':
            pos += 1

    def val():
        nonlocal pos
        ws()
        if s.startswith('<<', pos):
            pos += 2
            out = []
            ws()
            if s.startswith('>>', pos):
                pos += 2
                return out
            while True:
                out.append(val())
                ws()
                if s.startswith('>>', pos):
                    pos += 2
                    return out
                if pos < n and s[pos] == ',':
                    pos += 1
                    continue
                raise ValueError('bad tuple at %d in %r' % (pos, s[:80]))
        if pos < n and s[pos] == '"':
            pos += 1
            buf = []
            while pos < n and s[pos] != '"':
                if s[pos] == '\\' and pos + 1 < n:
                    pos += 1
                    c = s[pos]
                    buf.append({'n': '\n', 't': '\t'}.get(c, c))
                else:
                    buf.append(s[pos])
                pos += 1
            pos += 1
            return ''.join(buf)
        m = re.compile(r'-?\d+').match(s, pos)
        if m:
            pos = m.end()
            return int(m.group(0))
        if s.startswith('TRUE', pos):
            pos += 4
            return True
        if s.startswith('FALSE', pos):
            pos += 5
            return False
        raise ValueError('cannot parse TLA value at %d in %r' % (pos, s[:80]))

    v = val()
    return v


def tlc(module, cfg=None, workers=1, env=None, simulate=None, depth=None, seed=None,
        coverage=False, timeout=1800, tag=None, dfs=False, want_printed=True, heap=None, stack=None):
    """Run TLC on spec/<module>.tla with spec/<cfg>.  Returns a TLCResult.
    Raises MachineryError on anything that is not 'finished' or 'invariant violated'."""
    cfg = cfg or (module + '.cfg')
    # Exploration runs do not depend on the tree under test.  Only for campaigns over many trees (bin/mutate, which
    # sets VERIF_TLC_CACHE=1) their results are cached, keyed by the text of every spec file and the arguments;
    # the registered commands never set the variable and always run TLC.
    cache_path = None
    if os.environ.get('VERIF_TLC_CACHE') == '1' and not (env and 'TRACE_FILE' in env):
        cache_path = os.path.join(WORK_ROOT, 'tlc_cache', _spec_digest(
            [module, cfg, simulate, depth, seed, coverage, dfs, sorted((env or {}).items())]) + '.pkl')
        if os.path.exists(cache_path):
            import pickle
            with open(cache_path, 'rb') as f:
                return pickle.load(f)
    wd = workdir(tag or module)
    opts = ['-XX:+UseParallelGC']
    if heap:
        opts.append('-Xmx' + heap)
    if stack:
        opts.append('-Xss' + stack)
    if dfs:
        opts.append('-Dtlc2.tool.queue.IStateQueue=StateDeque')
    cmd = ['java'] + opts + ['-cp', TLA_JARS, 'tlc2.TLC', '-workers', str(workers),
                             '-metadir', wd, '-noGenerateSpecTE', '-config', cfg]
    if coverage:
        cmd += ['-coverage', '1']
    if simulate is not None:
        cmd += ['-simulate', 'num=%d' % simulate]
        if depth is not None:
            cmd += ['-depth', str(depth)]
    if seed is not None:
        cmd += ['-seed', str(seed)]
    cmd += ['-deadlock'] if False else []
    cmd.append(module + '.tla')
    e = dict(os.environ)
    e.pop('JAVA_TOOL_OPTIONS', None)
    if env:
        e.update({k: str(v) for k, v in env.items()})
    t0 = time.time()
    res = TLCResult()
    res.cmd = ' '.join(cmd)
    try:
        p = subprocess.run(cmd, cwd=SPEC_DIR, env=e, capture_output=True, text=True, timeout=timeout)
    except subprocess.TimeoutExpired:
        cleanup(wd)
        raise MachineryError('TLC timed out after %ds: %s' % (timeout, res.cmd))
    finally:
        pass
    cleanup(wd)
    res.wall = time.time() - t0
    out = p.stdout
    res.stdout = out
    for m in _RE_STATES.finditer(out):
        res.states, res.distinct = int(m.group(1)), int(m.group(2))
    m = _RE_DEPTH.search(out)
    if m:
        res.depth = int(m.group(1))
    m = _RE_INV.search(out)
    if m:
        res.violated = m.group(1)
    mt = re.search(r'Temporal property (\S+) was violated', out)
    if res.violated is None and (mt or 'Temporal properties were violated' in out):
        res.violated = mt.group(1) if mt else 'temporal'
    if res.violated is None and 'is violated' in out:
        m2 = re.search(r'(\S+) is violated', out)
        res.violated = m2.group(1) if m2 else 'unknown'
    for line in out.splitlines():
        if line.startswith('Error:') or 'TLC threw an unexpected exception' in line:
            res.errors.append(line)
        if coverage:
            mc = _RE_COV.match(line)
            if mc:
                res.coverage[mc.group(1)] = (int(mc.group(3)), int(mc.group(4)))
    if want_printed:
        res.printed = _collect_printed(out)
    finished = 'Model checking completed. No error has been found.' in out or \
               ('Finished in' in out and not res.errors) or \
               (simulate is not None and 'The number of states generated' in out)
    res.ok = bool(finished and res.violated is None and not res.errors)
    if not res.ok and res.violated is None:
        tail = '\n'.join(out.splitlines()[-40:])
        raise MachineryError('TLC failed (%s):\n%s\n%s' % (res.cmd, tail, p.stderr[-2000:]))
    if cache_path:
        import pickle
        os.makedirs(os.path.dirname(cache_path), exist_ok=True)
        tmp = '%s.%d.tmp' % (cache_path, os.getpid())
        with open(tmp, 'wb') as f:
            pickle.dump(res, f)
        os.replace(tmp, cache_path)
    return res


_SPEC_DIGEST = []


def _spec_digest(key):
    if not _SPEC_DIGEST:
        h = hashlib.sha1()
        for n in sorted(os.listdir(SPEC_DIR)):
            if n.endswith('.tla') or n.endswith('.cfg'):
                with open(os.path.join(SPEC_DIR, n), 'rb') as f:
                    h.update(n.encode())
                    h.update(f.read())
        _SPEC_DIGEST.append(h.hexdigest())
    return hashlib.sha1((_SPEC_DIGEST[0] + json.dumps(key, default=str)).encode()).hexdigest()[:20]


def _collect_printed(out):
    """PrintT output: every top-level '<<"TAG", ...>>' value.  Values may span lines and, with
    several workers, interleave with other text; we match brackets starting at a line that
    begins with <<"."""
    printed = []
    lines = out.splitlines()
    i = 0
    while i < len(lines):
        ln = lines[i]
        if ln.startswith('<<"') or ln.startswith('<< "'):
            buf = ln
            depth = _depth_outside_strings(buf)
            while depth > 0 and i + 1 < len(lines):
                i += 1
                buf += '\n' + lines[i]
                depth = _depth_outside_strings(buf)
            try:
                printed.append(parse_tla_value(buf))
            except ValueError:
                pass
        i += 1
    return printed


def _depth_outside_strings(buf):
    d = 0
    ins = False
    i = 0
    while i < len(buf):
        c = buf[i]
        if ins:
            if c == '\\':
                i += 1
            elif c == '"':
                ins = False
        else:
            if c == '"':
                ins = True
            elif buf.startswith('<<', i):
                d += 1
                i += 1
            elif buf.startswith('>>', i):
                d -= 1
                i += 1
        i += 1
    return d


def sany(module):
    p = subprocess.run(['java', '-cp', TLA_JARS, 'tla2sany.SANY', module + '.tla'], cwd=SPEC_DIR,
                       capture_output=True, text=True, timeout=300)
    ok = p.returncode == 0 and 'Semantic errors' not in p.stdout and 'Parse Error' not in p.stdout \
        and 'Fatal errors' not in p.stdout and '*** Errors' not in p.stdout
    return ok, p.stdout + p.stderr


# --------------------------------------------------------------------------------------
# behaviours out of TLC, traces into TLC
# --------------------------------------------------------------------------------------

def printed_with_tag(res, tag):
    return [v[1:] for v in res.printed if isinstance(v, list) and v and v[0] == tag]


def json_of_printed(res, tag):
    """Specs emit  PrintT(<<"TAG", ToJson(x)>>)  -> list of decoded json values."""
    out = []
    for v in printed_with_tag(res, tag):
        out.append(json.loads(v[0]))
    return out


def write_ndjson(path, events):
    with open(path, 'w') as f:
        for ev in events:
            f.write(json.dumps(ev, separators=(',', ':'), sort_keys=True))
            f.write('\n')


# census of what the drivers actually executed: {trace module: {event name: count}}; written into the evidence
# (coverage.events_executed / events_never_executed) so that a spec action no driver ever runs is visible
EVENT_CENSUS = {}


def _handled_events(module):
    """event names the trace spec has a disjunct for (read from its text and from the trace module it extends)"""
    names = set()
    for mod in (module, module[3:] if module.startswith('MC_') else module):
        path = os.path.join(SPEC_DIR, mod + '.tla')
        if os.path.exists(path):
            with open(path) as f:
                names.update(re.findall(r'\.ev\s*=\s*"([A-Za-z_]+)"', f.read()))
    names.discard('End')
    return names


def _census(module, traces):
    c = EVENT_CENSUS.setdefault(module, {})
    for n in _handled_events(module):
        c.setdefault(n, 0)
    for _tid, events in traces:
        for ev in events:
            n = ev.get('ev')
            if n is not None:
                c[n] = c.get(n, 0) + 1
                for k in ('act', 'action', 'kind', 'op', 'call', 'what', 'mode', 'outcome', 'when', 'place'):
                    v = ev.get(k)
                    if v is None and isinstance(ev.get('a'), dict):
                        v = ev['a'].get(k)
                    if isinstance(v, str) and len(v) < 40:
                        c['%s:%s=%s' % (n, k, v)] = c.get('%s:%s=%s' % (n, k, v), 0) + 1


def validate_traces(module, cfg, traces, jobs=None, chunk=4000, timeout=3600, tag=None, env=None, stack=None):
    """traces: list of (tid, [event dict, ...]).  Every event gets 'tid'; an {'ev': 'End'} is appended.
    The trace spec prints <<"VERDICT", tid, verdict-string>> for each trace and the run must end
    with all lines consumed (POSTCONDITION in the cfg).  Returns ({tid: verdict}, states, transitions)."""
    if not traces:
        return {}, 0, 0
    _census(module, traces)
    jobs = jobs or min(16, os.cpu_count() or 4)
    wd = workdir(tag or (module + '_tr'))
    chunks = [traces[i:i + chunk] for i in range(0, len(traces), chunk)]
    files = []
    for ci, ch in enumerate(chunks):
        path = os.path.join(wd, 'trace_%d.ndjson' % ci)
        with open(path, 'w') as f:
            for tid, events in ch:
                for ev in events:
                    d = dict(ev)
                    d['tid'] = tid
                    f.write(json.dumps(d, separators=(',', ':'), sort_keys=True) + '\n')
                f.write(json.dumps({'tid': tid, 'ev': 'End'}, separators=(',', ':')) + '\n')
        files.append(path)
    verdicts = {}
    states = 0
    trans = 0

    def run(path):
        e = {'TRACE_FILE': path}
        if env:
            e.update(env)
        return tlc(module, cfg, workers=1, env=e, timeout=timeout, tag=(tag or module) + '_tv', stack=stack)

    try:
        with concurrent.futures.ThreadPoolExecutor(max_workers=jobs) as ex:
            for res in ex.map(run, files):
                if res.violated:
                    raise MachineryError('trace spec %s stopped: %s violated\n%s' % (
                        module, res.violated, '\n'.join(res.stdout.splitlines()[-30:])))
                states += res.distinct
                trans += res.states
                for v in printed_with_tag(res, 'VERDICT'):
                    verdicts[v[0]] = v[1]
    finally:
        cleanup(wd)
    missing = [tid for tid, _ in traces if tid not in verdicts]
    if missing:
        raise MachineryError('trace validation produced no verdict for %d traces (first: %r)' % (
            len(missing), missing[0]))
    return verdicts, states, trans


# --------------------------------------------------------------------------------------
# findings, replays, evidence
# --------------------------------------------------------------------------------------

def load_findings():
    if not os.path.exists(FINDINGS_FILE):
        return {'open': [], 'fixed': []}
    with open(FINDINGS_FILE) as f:
        return json.load(f)


class Violation(object):
    """One falsified property clause on one observed case."""

    def __init__(self, prop, clause, signature, case, detail=''):
        self.prop = prop
        self.clause = clause
        self.signature = signature    # short stable string identifying *what* fails (for known findings)
        self.case = case              # JSON-able description sufficient to re-execute
        self.detail = detail


def canonical(obj):
    return json.dumps(obj, sort_keys=True, separators=(',', ':'), default=str)


def digest(obj):
    return hashlib.sha1(canonical(obj).encode()).hexdigest()[:12]


class Report(object):
    """Collects what one check run did; writes evidence; decides the exit code."""

    def __init__(self, prop, tier, seed, level='model_checking'):
        self.prop = prop
        self.tier = tier
        self.seed = seed
        self.level = level
        self.t0 = time.time()
        self.states = 0
        self.transitions = 0
        self.traces = 0
        self.evaluations = 0
        self.distinct = set()
        self.samples = []
        self.violations = []
        self.drift = {}
        self.notes = []
        self.assumptions = []
        self.rule = ''
        self.exhaustive = None
        self.tlc_runs = []
        self.extra = {}

    # --- accounting
    def add_tlc(self, res, what):
        self.states += res.distinct
        self.transitions += res.states
        self.tlc_runs.append({'what': what, 'states_generated': res.states, 'distinct_states': res.distinct,
                              'depth': res.depth, 'wall_s': round(res.wall, 2)})

    def add_case(self, case, nontrivial=True):
        self.evaluations += 1
        if nontrivial:
            self.distinct.add(digest(case))
        if len(self.samples) < 5:
            self.samples.append(case)

    def add_drift(self, clause, case=None):
        d = self.drift.setdefault(clause, {'count': 0, 'first': None})
        d['count'] += 1
        if d['first'] is None and case is not None:
            d['first'] = case
            print('DRIFT property=%s clause=%s case=%s' % (self.prop, clause, canonical(case)[:300]))

    def violate(self, clause, signature, case, detail=''):
        self.violations.append(Violation(self.prop, clause, signature, case, detail))

    # --- finish
    def finish(self):
        findings = load_findings()
        open_f = [f for f in findings.get('open', []) if f.get('property') == self.prop]
        known_hit = {}
        unlisted = []
        for v in self.violations:
            hit = None
            for f in open_f:
                if f.get('signature') == v.signature:
                    hit = f
                    break
            if hit is not None:
                known_hit.setdefault(hit['signature'], [hit, 0])[1] += 1
            else:
                unlisted.append(v)
        for sig, (f, cnt) in known_hit.items():
            print('KNOWN-FINDING: property=%s %s (%d observed cases; signature %s)' % (
                self.prop, f.get('what', ''), cnt, sig))
        os.makedirs(REPLAY_DIR, exist_ok=True)
        shown = set()
        for v in unlisted:
            key = (v.clause, v.signature)
            if key in shown:
                continue
            shown.add(key)
            path = os.path.join(REPLAY_DIR, '%s_%s.json' % (self.prop, digest([v.clause, v.signature, v.case])))
            with open(path, 'w') as f:
                json.dump({'property': self.prop, 'clause': v.clause, 'signature': v.signature,
                           'case': v.case, 'detail': v.detail, 'seed': self.seed, 'tier': self.tier,
                           'tree': repo_path(), 'head': repo_head()}, f, indent=1, default=str)
            print('VIOLATION property=%s replay=%s' % (self.prop, path))
            print('  clause=%s signature=%s %s' % (v.clause, v.signature, v.detail[:400]))
            if len(shown) >= 10:
                break
        self.write_evidence(len(unlisted), sum(c for _, c in known_hit.values()))
        return 1 if unlisted else 0

    def write_evidence(self, n_unlisted, n_known):
        os.makedirs(EVIDENCE_DIR, exist_ok=True)
        cov = {
            'states': int(self.states),
            'transitions': int(self.transitions),
            'traces_validated_against_impl': int(self.traces),
            'samples': self.samples if self.samples else ['(no case recorded)'],
            'evaluations': int(self.evaluations),
            'distinct_nontrivial': len(self.distinct),
            'rule': self.rule,
            'tlc_runs': self.tlc_runs,
            'drift': {k: v['count'] for k, v in self.drift.items()},
            'known_finding_cases': n_known,
            'tree': repo_path(),
            'head': repo_head(),
        }
        if self.exhaustive is not None:
            cov['exhaustive'] = bool(self.exhaustive)
        cov.update(self.extra)
        cov['events_executed'] = {m: dict(sorted(c.items())) for m, c in sorted(EVENT_CENSUS.items())}
        cov['events_never_executed'] = sorted('%s.%s' % (m, n) for m, c in EVENT_CENSUS.items() for n, k in c.items() if k == 0)
        ev = {
            'property_id': self.prop,
            'tier': self.tier,
            'seed': int(self.seed),
            'level': self.level,
            'coverage': cov,
            'assumptions': self.assumptions,
            'wall_s': round(time.time() - self.t0, 2),
            'violations': int(n_unlisted),
        }
        # evidence/<id>.json describes runs against /repo itself; a run against another tree (a seeded change in a
        # scratch worktree) writes its evidence under .work/ so that the registered evidence is never overwritten
        edir = EVIDENCE_DIR if (repo_path() == '/repo' and os.environ.get('VERIF_TLC_CACHE') != '1') else os.path.join(WORK_ROOT, 'evidence_other_tree')
        os.makedirs(edir, exist_ok=True)
        path = os.path.join(edir, self.prop + '.json')
        tmp = path + '.tmp'
        with open(tmp, 'w') as f:
            json.dump(ev, f, indent=1, default=str)
        os.replace(tmp, path)


def tier_and_seed(argv_tier=None):
    tier = argv_tier or os.environ.get('VERIF_TIER') or 'quick'
    if tier not in ('quick', 'thorough'):
        tier = 'quick'
    try:
        seed = int(os.environ.get('VERIF_SEED', '20260927'))
    except ValueError:
        seed = 20260927
    return tier, seed
