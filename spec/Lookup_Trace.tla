---------------------------- MODULE Lookup_Trace ----------------------------
(* Trace validation for Lookup: executions on real Model / Country / Region / Sector    *)
(* objects recorded by harness/lookupcheck.py are folded through the actions of Lookup. *)
(* One total verdict per trace id.                                                      *)
(*                                                                                      *)
(* Every event carries what the driver saw through the public API after the call:       *)
(*   exc        "" | class of the exception ("KeyError" / "LogicError" stand for any     *)
(*              instance of these classes)                                              *)
(*   id0, id1   EconomicObject.ID before / after the call;  dc0, dc  DefaultCurrency     *)
(*   countries  Model.CountryList: [code, cur, region, id, zone (position of             *)
(*              country.CurrencyZone in Model.CurrencyZoneList, 0 = not there), ord      *)
(*              (which of the Country objects the driver created it IS, 0 = none)]       *)
(*   zones      Model.CurrencyZoneList: [cur, id, members (codes), mords (which created  *)
(*              Country objects)]                                                       *)
(*   sectors    the Sector objects the driver created successfully, in creation order:   *)
(*              [cc, code, id, full, zone]                                              *)
(*   csecs      per entry of CountryList: Country.GetSectors() as sector ordinals        *)
(*   distinct   the ids of all objects of the model are pairwise different              *)
(*   answers    (may be empty) the whole battery of queries asked in this state:         *)
(*              << k, cc, code, n, m,  r, ak, exc, flag, list >> = query + observed      *)
(*              answer; returned objects are identified by identity (ordinal, 0 = some   *)
(*              other object)                                                           *)
(*                                                                                      *)
(*   property:<clause>@<what>[#<query>]  a sentence of the extension is false on the    *)
(*                              observation (<query> names the answer, for the report)  *)
(*   drift:<clause>             the code did something the spec action does not predict *)
(* Sentences about the observed model alone (zones, full codes, regions, duplicates) are *)
(* judged on the observation; the answers are judged against Answer(predicted state)    *)
(* and therefore only while the observed model equals the predicted one.                *)
EXTENDS Lookup, Json, IOUtils

Log == ndJsonDeserialize(IOEnv.TRACE_FILE)

VARIABLES l, verdict, obs
tvars == << vars, l, verdict, obs >>

Ok == [kind |-> "ok", clause |-> ""]
Prop(c) == [kind |-> "property", clause |-> c]
Drift(c) == [kind |-> "drift", clause |-> c]
Rank(v) == CASE v.kind = "ok" -> 0 [] v.kind = "drift" -> 1 [] v.kind = "property" -> 2
Worse(a, b) == IF Rank(b) > Rank(a) THEN b ELSE a     \* keeps the first of equal rank

----------------------------------------------------------------------------
(* the observed model alone *)
ZonePartitionObs(e) ==
    /\ \A i \in DOMAIN e.countries :
          LET c == e.countries[i]
          IN /\ c.ord # 0
             /\ c.zone \in DOMAIN e.zones
             /\ e.zones[c.zone].cur = c.cur
             /\ c.ord \in SeqRange(e.zones[c.zone].mords)
             /\ \A z \in DOMAIN e.zones : z # c.zone => c.ord \notin SeqRange(e.zones[z].mords)
    /\ \A z \in DOMAIN e.zones :
          /\ Len(e.zones[z].mords) = Cardinality(SeqRange(e.zones[z].mords))
          /\ \A o \in SeqRange(e.zones[z].mords) : \E i \in DOMAIN e.countries : e.countries[i].ord = o
    /\ \A z1, z2 \in DOMAIN e.zones : z1 # z2 => e.zones[z1].cur # e.zones[z2].cur

FullRuleObs(e) ==
    \A i \in DOMAIN e.sectors :
        e.sectors[i].full = IF Len(e.countries) > 1 THEN FullOf(e.sectors[i].cc, e.sectors[i].code) ELSE e.sectors[i].code

SnapshotSame(e) == /\ e.countries = obs.countries /\ e.zones = obs.zones /\ e.sectors = obs.sectors
                   /\ e.csecs = obs.csecs /\ e.dc = obs.dc

(* observed against predicted (primed = after the call) *)
ObsCountries(e) == [i \in DOMAIN e.countries |-> [code |-> e.countries[i].code, cur |-> e.countries[i].cur,
                                                  region |-> e.countries[i].region, id |-> e.countries[i].id]]
NoIds(cs) == [i \in DOMAIN cs |-> [code |-> cs[i].code, cur |-> cs[i].cur, region |-> cs[i].region]]
ObsZones(e) == [i \in DOMAIN e.zones |-> [cur |-> e.zones[i].cur, members |-> e.zones[i].members, id |-> e.zones[i].id]]
ObsSectors(e) == [i \in DOMAIN e.sectors |-> [cc |-> e.sectors[i].cc, code |-> e.sectors[i].code, id |-> e.sectors[i].id,
                                              full |-> e.sectors[i].full]]
ZoneSet(zs) == { [cur |-> zs[i].cur, members |-> SeqRange(zs[i].members)] : i \in DOMAIN zs }
ZoneSeq(zs) == [i \in DOMAIN zs |-> [cur |-> zs[i].cur, members |-> zs[i].members]]
SecNoIdFull(ss) == [i \in DOMAIN ss |-> [cc |-> ss[i].cc, code |-> ss[i].code]]
SecNoId(ss) == [i \in DOMAIN ss |-> [cc |-> ss[i].cc, code |-> ss[i].code, full |-> ss[i].full]]
(* Country.GetSectors() of every country = the created sectors of that country in creation order *)
CsecsOK(e) == /\ Len(e.csecs) = Len(countries')
              /\ \A i \in DOMAIN e.csecs : e.csecs[i] = SectorSeqOf(St', countries'[i].code)

Conform(e) ==
    IF NoIds(ObsCountries(e)) # NoIds(countries') THEN Drift("country_list")
    ELSE IF ZoneSet(ObsZones(e)) # ZoneSet(zones') THEN Drift("zones")
    ELSE IF ZoneSeq(ObsZones(e)) # ZoneSeq(zones') THEN Drift("zone_order")
    ELSE IF SecNoIdFull(ObsSectors(e)) # SecNoIdFull(sectors') THEN Drift("sector_list")
    ELSE IF ~CsecsOK(e) THEN Drift("country_sector_lists")
    ELSE IF SecNoId(ObsSectors(e)) # SecNoId(sectors') THEN Drift("fullcode_state")
    ELSE IF \E i \in DOMAIN e.sectors : e.sectors[i].zone # ZoneOfCountry(St', e.sectors[i].cc) THEN Drift("sector_zone")
    ELSE IF e.dc # defaultCur' THEN Drift("default_currency")
    ELSE IF e.id1 # nextId' \/ ObsCountries(e) # countries' \/ ObsZones(e) # zones' \/ ObsSectors(e) # sectors'
         THEN Drift("id_counter")
    ELSE Ok

----------------------------------------------------------------------------
(* the battery of answers *)
QOf(a) == [k |-> a[1], cc |-> a[2], code |-> a[3], n |-> a[4], m |-> a[5]]
GotOf(a) == [r |-> a[6], k |-> a[7], exc |-> a[8], flag |-> a[9], list |-> a[10]]
Objects == {"sector", "country"}
LookupKinds == {"ModelGet", "CountryGet", "Lookup", "LookupId", "LookupFull", "ModelLookup", "ZoneLookup"}
BoolKinds == {"ModelHas", "CountryHas", "ModelHasObj", "CountryHasObj"}

OrderOnly(exp, got) == /\ exp.r = "list" /\ got.r = "list" /\ exp.list # got.list
                       /\ SeqRange(exp.list) = SeqRange(got.list) /\ Len(exp.list) = Len(got.list)

What(exp, got) ==
    CASE exp.r \in Objects /\ got.r = exp.r   -> "returns-another-object"
      [] exp.r \in Objects /\ got.r = "exc"   -> "raises-on-declared"
      [] exp.r = "exc" /\ got.r = "exc"       -> "wrong-error-class"
      [] exp.r = "exc"                        -> "returns-undeclared"
      [] OTHER                                -> "other"

JudgeAnswer(a) ==
    LET q == QOf(a)
        got == GotOf(a)
        exp == Answer(St', q)
        at == "#" \o q.cc \o "/" \o q.code \o "/" \o ToString(q.n) \o "/" \o ToString(q.m)     \* which query (report only)
    IN IF got = exp THEN Ok
       ELSE IF OrderOnly(exp, got) THEN Drift("zone_sector_order")
       ELSE IF exp.r = "nozone" \/ got.r = "nozone" THEN Drift("zones")
       ELSE IF q.k \in LookupKinds THEN Prop("Lookup_FindsExactlyTheDeclared@" \o q.k \o ":" \o What(exp, got) \o at)
       ELSE IF q.k \in BoolKinds THEN Prop("Lookup_FindsExactlyTheDeclared@" \o q.k \o ":wrong-answer" \o at)
       ELSE IF q.k = "Shared" THEN Prop("Zone_SharedIffSameCurrency@Shared" \o at)
       ELSE Prop("Zone_PartitionByCurrency@ZoneSectors" \o at)

JudgeBattery(e) ==
    LET js == [i \in DOMAIN e.answers |-> JudgeAnswer(e.answers[i])]
        bad == { i \in DOMAIN js : js[i].kind = "property" }
        soft == { i \in DOMAIN js : js[i].kind = "drift" }
    IN IF bad # {} THEN js[First(bad)]
       ELSE IF soft # {} THEN js[First(soft)]
       ELSE Ok

----------------------------------------------------------------------------
(* one call; dup = the spec action ended in LogicError *)
JudgeStep(e, isGen) ==
    LET dup == last'.exc = "LogicError"
        grew == Len(e.countries) = Len(obs.countries) + 1
        conf == Conform(e)
    IN IF dup /\ e.exc # "LogicError" THEN Prop("Lookup_DuplicateRejected@" \o e.ev \o ":no-LogicError")
       ELSE IF dup /\ ~SnapshotSame(e) THEN Prop("Lookup_DuplicateRejected@" \o e.ev \o ":state-changed")
       ELSE IF ~dup /\ e.exc # "" THEN Drift("action_raised")
       ELSE IF e.ev = "NewRegion" /\ e.cur = "none" /\ ~dup /\ grew /\ e.countries[Len(e.countries)].cur # e.dc0
            THEN Prop("Region_DefaultCurrency@region-currency")
       ELSE IF ~ZonePartitionObs(e) THEN Prop("Zone_PartitionByCurrency@" \o e.ev)
       ELSE IF isGen /\ ~FullRuleObs(e) THEN Prop("FullCode_Rule@GenerateFullCodes")
       ELSE IF ~e.distinct THEN Prop("Lookup_IdsUnique@" \o e.ev)
       ELSE IF e.id0 # nextId THEN Drift("id_counter")
       ELSE IF conf.kind # "ok" THEN conf
       ELSE IF verdict.kind = "drift" THEN Ok
       ELSE JudgeBattery(e)

TraceInit == Init /\ l = 1 /\ verdict = Ok /\ obs = [ev |-> "none"]

Reset ==
    /\ Becomes(InitState)
    /\ nextId' = 1 /\ modelId' = 0
    /\ hist' = << >>
    /\ last' = NoLast

TraceNext ==
    /\ l <= Len(Log)
    /\ l' = l + 1
    /\ LET e == Log[l] IN
       \/ /\ e.ev = "Begin"
          /\ nextId' = e.id1 /\ modelId' = e.mid
          /\ UNCHANGED << svars, hist, last >>
          /\ obs' = e
          /\ verdict' = IF e.countries = << >> /\ e.zones = << >> /\ e.dc = InitialDefault /\ e.exc = ""
                        THEN Worse(verdict, JudgeBattery(e)) ELSE Drift("begin_state")
       \/ /\ e.ev = "NewCountry"
          /\ NewCountryAt(e.code, e.cur, FALSE, e.id0)
          /\ obs' = e
          /\ verdict' = Worse(verdict, JudgeStep(e, FALSE))
       \/ /\ e.ev = "NewRegion"
          /\ NewCountryAt(e.code, e.cur, TRUE, e.id0)
          /\ obs' = e
          /\ verdict' = Worse(verdict, JudgeStep(e, FALSE))
       \/ /\ e.ev = "NewSector"
          /\ NewSectorAt(e.cc, e.code, e.id0)
          /\ obs' = e
          /\ verdict' = Worse(verdict, JudgeStep(e, FALSE))
       \/ /\ e.ev = "GenerateFullCodes"
          /\ GenerateFullCodes
          /\ obs' = e
          /\ verdict' = Worse(verdict, JudgeStep(e, TRUE))
       \/ /\ e.ev = "End"
          /\ PrintT(<< "VERDICT", e.tid, verdict.kind \o ":" \o verdict.clause >>)
          /\ Reset
          /\ obs' = [ev |-> "none"]
          /\ verdict' = Ok

TraceSpec == TraceInit /\ [][TraceNext]_tvars

AllConsumed == TLCGet("stats").diameter - 1 = Len(Log)
=============================================================================
