SPECIFICATION Spec
CONSTANTS
  Names <- MC_NamesWide
  Numbers <- MC_NumbersHex
  Strings <- MC_Strings1
  BinOps <- MC_OpsFew
  Maps <- MC_MapsAll
  OnePairs <- MC_PairsDeep
  Routes = {}
  MaxUnits = 3
  MinUnits = 0
  MaxDepth = 1
  MaxActs = 1
  MaxNL = 0
  MaxLines = 1
  Signs = {}
  AllowCall = TRUE
  AllowList = TRUE
  AllowGroup = FALSE
  AllowLag = TRUE
INVARIANT TypeOK
INVARIANT C13_OnlyWholeNames
INVARIANT C13_Simultaneous
INVARIANT C13_ValuePreserved
INVARIANT C13_ListIsNamesInOrder
CONSTRAINT Emit
CHECK_DEADLOCK FALSE
