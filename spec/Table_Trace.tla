---------------------------- MODULE Table_Trace ----------------------------
(* Trace validation for Table: executions of the real TimeSeriesHolder / EquationSolver, *)
(* recorded by harness/checks/c19.py, are folded through the actions of Table.  One      *)
(* total verdict per trace id.                                                           *)
(*   property:<clause>  a sentence of C19 is false on the observed table                 *)
(*   drift:<clause>     the code did something the spec action does not predict          *)
(*                                                                                       *)
(* Events (every field always present, uniformly typed):                                 *)
(*   Create name                                        (TimeSeriesHolder(name))         *)
(*   Put    name, len, kind, ok, names, lens, kinds     (observed holder after the call) *)
(*   Store  name, len, kind, ok, names, lens, kinds     (observed holder after the call) *)
(*   Delete name, ok, names, lens, kinds                (observed holder after the call) *)
(*   List   ok, list, names, lens, kinds                (holder before the call)         *)
(*   Condition name, sp                                 (an initial condition in the block) *)
(*   Block  vars                                        (ParseString of a block on the   *)
(*          solver object; vars: its variables when the driver generated it, else [] and   *)
(*          the Solve event names them in vs)                                              *)
(*   Horizon place, h                                   (the user states the horizon)   *)
(*   Trace  place ("inside" / "outside"), step          (solver.TraceStep = step)        *)
(*   Steady                                             (initial steady state requested) *)
(*   Solve  used, vs, ok, must, names, lens, kinds      (observed holder after the call; *)
(*          used: the horizon the solver ended up with - conformance only, the property  *)
(*          is judged against the STATED horizon; must: the replayed behaviour has a     *)
(*          successful solve here)                                                        *)
(*   Render fmt, ok, header, rows, cells, inexact, names, lens, kinds  (holder before)   *)
(*   End                                                                                 *)
(* The events of one trace may come in any order and number: every Render is judged      *)
(* against the holder observed at that moment.                                           *)
(* names / header / vs: lists of code-point lists; cells: list of rows of Booleans, the  *)
(* driver's predicate "cell (i, j) parses back to value i of the series named by column  *)
(* j of the observed header within the precision of the format".                         *)
(* The property is judged on the OBSERVED name set and lengths: TLC recomputes what the   *)
(* header must be from the names the driver saw in the holder.                           *)
EXTENDS Table, Json, IOUtils

Log == ndJsonDeserialize(IOEnv.TRACE_FILE)

VARIABLES l, verdict
tvars == << vars, l, verdict >>

Ok == [kind |-> "ok", clause |-> ""]
Rank(v) == CASE v.kind = "ok" -> 0 [] v.kind = "drift" -> 1 [] v.kind = "property" -> 2
Worse(a, b) == IF Rank(b) > Rank(a) THEN b ELSE a     \* keeps the first of equal rank
Prop(c) == [kind |-> "property", clause |-> c]
Drift(c) == [kind |-> "drift", clause |-> c]

(* the holder the driver observed *)
Obs(e) ==
    [n \in Range(e.names) |->
        LET i == CHOOSE i \in 1..Len(e.names) : e.names[i] = n
        IN [len |-> e.lens[i], kind |-> e.kinds[i]]]

(* cells[i][j]: the text parses back to the stored value within the precision of the format;      *)
(* inexact: the number of cells whose text is NOT that stored value rendered with the requested   *)
(* format (format % value), counted by the driver over the same grid                              *)
CellsTrue(e) ==
    /\ Len(e.cells) = e.rows
    /\ \A i \in 1..Len(e.cells) :
         /\ Len(e.cells[i]) = Len(e.header)
         /\ \A j \in 1..Len(e.cells[i]) : e.cells[i][j]
    /\ e.inexact = 0

JudgeRender(e) ==
    LET H == Obs(e) IN
    IF ~e.ok THEN Prop("C19_Header")                          \* no table at all
    ELSE IF ~HeaderOK(e.header, DOMAIN H) THEN Prop("C19_Header")
    ELSE IF ~RowsOK(e.rows, H) THEN Prop("C19_RowCount")
    ELSE IF solved.is /\ e.rows # solved.horizon + 1 THEN Prop("C19_RowCount")
    ELSE IF ~CellsTrue(e) THEN Prop("C19_CellIsFormattedValue")
    ELSE IF LensOf(H) # LensOf(holder) THEN Drift("holder_changed")
    ELSE IF e.header # table'.header \/ e.rows # table'.rows THEN Drift("render_differs_from_spec")
    ELSE Ok

(* kinds are only predicted for a holder the driver filled itself: a solver may leave int values *)
SameState(e) == IF phase = "build" THEN Obs(e) = holder' ELSE LensOf(Obs(e)) = LensOf(holder')

JudgePut(e) ==
    IF ~e.ok THEN Drift("put_raises")
    ELSE IF ~SameState(e) THEN Drift("put_state")
    ELSE Ok

JudgeStore(e) ==
    IF ~e.ok THEN Drift("store_raises")
    ELSE IF ~SameState(e) THEN Drift("store_state")
    ELSE Ok

JudgeDelete(e) ==
    IF ~e.ok THEN Drift("delete_raises")
    ELSE IF ~SameState(e) THEN Drift("delete_state")
    ELSE Ok

(* GetSeriesList() is the mechanism, not the table: a wrong list is reported as drift; the *)
(* property is judged where the statement puts it, on the text of the next Render.        *)
JudgeList(e) ==
    IF ~e.ok THEN Drift("list_raises")
    ELSE IF e.list # RequiredHeader(DOMAIN Obs(e)) THEN Drift("series_list")
    ELSE Ok

JudgeSolve(e) ==
    IF LensOf(Obs(e)) # LensOf(holder') THEN Drift("solve_state")
    ELSE IF e.used # Effective(stated) THEN Drift("solve_horizon")
    ELSE Ok

TraceInit == Init /\ l = 1 /\ verdict = Ok

TraceNext ==
    /\ l <= Len(Log)
    /\ l' = l + 1
    /\ LET e == Log[l] IN
       \/ /\ e.ev = "Put"
          /\ Put(e.name, e.len, e.kind)
          /\ verdict' = Worse(verdict, JudgePut(e))
       \/ /\ e.ev = "Store"
          /\ Store(e.name, e.len, e.kind)
          /\ verdict' = Worse(verdict, JudgeStore(e))
       \/ /\ e.ev = "Delete"
          /\ Delete(e.name)
          /\ verdict' = Worse(verdict, JudgeDelete(e))
       \/ /\ e.ev = "List"
          /\ List
          /\ verdict' = Worse(verdict, JudgeList(e))
       \/ /\ e.ev = "Condition"
          /\ Condition(e.name, e.sp)
          /\ UNCHANGED verdict
       \/ /\ e.ev = "Create"
          /\ Create(e.name)
          /\ UNCHANGED verdict
       \/ /\ e.ev = "Block"
          /\ Block(Range(e.vars))
          /\ UNCHANGED verdict
       \/ /\ e.ev = "Trace"
          /\ SetTrace(e.place)
          /\ UNCHANGED verdict
       \/ /\ e.ev = "Steady"
          /\ SetSteady
          /\ UNCHANGED verdict
       \/ /\ e.ev = "Horizon"
          /\ StateHorizon(e.place, e.h)
          /\ UNCHANGED verdict
       \/ /\ e.ev = "Solve"
          /\ e.ok
          /\ Solve(Range(e.vs))
          /\ verdict' = Worse(verdict, JudgeSolve(e))
       \/ /\ e.ev = "Solve"
          /\ ~e.ok
          /\ SolveFailed(Obs(e))
          /\ verdict' = Worse(verdict, IF e.must THEN Drift("solve_failed") ELSE Ok)
       \/ /\ e.ev = "Render"
          /\ Render(e.fmt)
          /\ verdict' = Worse(verdict, JudgeRender(e))
       \/ /\ e.ev = "End"
          /\ PrintT(<< "VERDICT", e.tid, verdict.kind \o ":" \o verdict.clause >>)
          /\ phase' = "build" /\ holder' = EmptyHolder /\ solved' = NotSolved
          /\ table' = NoTable /\ stated' = Unstated /\ conds' = {} /\ opts' = NoOpts /\ pending' = NoPending /\ axis' = NmK /\ hist' = << >>
          /\ verdict' = Ok

TraceSpec == TraceInit /\ [][TraceNext]_tvars

AllConsumed == TLCGet("stats").diameter - 1 = Len(Log)
=============================================================================
