---------------------------- MODULE Steady_Trace ----------------------------
(* Trace validation for Steady: executions of the real                                *)
(* EquationSolver.CalculateInitialSteadyState(), recorded by harness/checks/c15.py,   *)
(* are folded through the actions of Steady.  One total verdict per trace id.         *)
(*   property:<clause>  a sentence of C15 is false on the observed behaviour          *)
(*   drift:<clause>     the code did something the spec action does not predict       *)
(*                                                                                    *)
(* Events of one trace, in this order (the driver always writes all of them):         *)
(*   Begin   names [[char]], kinds [kind], tdep [tdep], steptol, horizon, option [[char]], wf     *)
(*                                          the system: its series in the solver's      *)
(*                                          order, and the exclusion option as handed   *)
(*                                          to the solver; which series the loop skips  *)
(*                                          is decided HERE (SkippedSet), not by the    *)
(*                                          driver                                      *)
(*   Copy    deep, same_*                   observed inside _GetCopy (harness wrapper) *)
(*   Freeze  frozen, hor_ok, axis_ok, same_*  observed at the first SolveStep of the copy *)
(*                                          (axis_ok: its k series is -T..0; tol_ok: its *)
(*                                          Err_Tolerance is the steady-state tolerance) *)
(*   Run     res, want, cls [class], same_* observed when the call is over            *)
(*   Judge   idx, gen, inst, steady         one per series; gen = the class the system  *)
(*                                          was generated for (= observed class for    *)
(*                                          series that are not model variables)      *)
(*   Outcome outcome, further_ok, same_*                                              *)
(* same_eq / same_exo / same_hor: deep comparison of the OUTER solver's parser lists   *)
(* and EquationString / exogenous definitions and paths / MaxTime with the snapshot    *)
(* taken before the call.  steady: see c15.py (exact rational arithmetic).            *)
EXTENDS Steady, Json, IOUtils

Log == ndJsonDeserialize(IOEnv.TRACE_FILE)

VARIABLES l, verdict, unsteady
tvars == << vars, l, verdict, unsteady >>

Ok == [kind |-> "ok", clause |-> ""]
P(c) == [kind |-> "property", clause |-> c]
D(c) == [kind |-> "drift", clause |-> c]
Rank(v) == CASE v.kind = "ok" -> 0 [] v.kind = "drift" -> 1 [] v.kind = "property" -> 2
Worse(a, b) == IF Rank(b) > Rank(a) THEN b ELSE a     \* keeps the first of equal rank
W3(a, b, c) == Worse(Worse(a, b), c)

SetOfSeq(s) == { s[i] : i \in 1..Len(s) }

Untouched(e) == IF e.same_eq /\ e.same_exo /\ e.same_hor THEN Ok ELSE P("C15_LeavesSolverUntouched")

Reset(nms, kds, tds, st, hz, opt, w) ==
    /\ horizon' = hz
    /\ phase' = "idle" /\ n' = Len(nms) /\ names' = nms /\ kinds' = kds /\ tdep' = tds /\ steptol' = st /\ option' = opt /\ wf' = w /\ sid' = 0
    /\ excluded' = SkippedSet(nms, kds, opt)
    /\ runres' = "none" /\ cls' = << >> /\ judged' = {} /\ bad' = {} /\ exc' = ""
    /\ outer' = Outer0 /\ inner' = NoCopy

ExpectedOutcome == IF phase' = "installed" THEN "returned" ELSE exc'

JudgeOutcome(e) ==
    IF Untouched(e) # Ok THEN Untouched(e)
    ELSE IF e.outcome = "returned" /\ (unsteady > 0 \/ ~e.further_ok) THEN P("C15_AcceptedIsSteady")
    ELSE IF e.outcome # "returned" /\ wf /\ e.outcome \notin {"NoEquilibriumError", "ValueError"}
         THEN P("C15_OtherwiseRaises")
    ELSE IF e.outcome # ExpectedOutcome THEN D("judge_decision")
    ELSE Ok

NoNames == << << "x" >> >>
NoKinds == << "solved" >>
NoTDep == << "none" >>
TraceInit == Setup(NoNames, NoKinds, NoTDep, "none", "many", {}, TRUE, 0) /\ l = 1 /\ verdict = Ok /\ unsteady = 0

TraceNext ==
    /\ l <= Len(Log)
    /\ l' = l + 1
    /\ LET e == Log[l] IN
       \/ /\ e.ev = "Begin"
          /\ Reset(e.names, e.kinds, e.tdep, e.steptol, e.horizon, SetOfSeq(e.option), e.wf)
          /\ verdict' = Ok /\ unsteady' = 0
       \/ /\ e.ev = "Copy"
          /\ Copy
          /\ verdict' = W3(verdict, Untouched(e), IF e.deep THEN Ok ELSE D("deep_copy"))
          /\ UNCHANGED unsteady
       \/ /\ e.ev = "Freeze"
          /\ FreezeExogenous
          /\ verdict' = W3(verdict, Untouched(e),
                           IF ~(e.frozen /\ e.hor_ok) THEN D("freeze_exogenous")
                           ELSE IF ~e.axis_ok THEN D("search_time_axis")
                           ELSE IF ~e.tol_ok THEN D("search_tolerance") ELSE Ok)
          /\ UNCHANGED unsteady
       \/ /\ e.ev = "Run"
          /\ IF e.res = "other" /\ wf
             THEN \* a well-formed system whose search fails with an exception that is no ValueError
                  /\ phase' = "ran" /\ runres' = "other" /\ cls' = << >>
                  /\ UNCHANGED << sys, judged, bad, exc, outer, inner >>
                  /\ verdict' = W3(verdict, Untouched(e), P("C15_OtherwiseRaises"))
             ELSE /\ Run(e.res, e.cls)
                  /\ verdict' = W3(verdict, Untouched(e),
                                   IF e.res = e.want THEN Ok ELSE D("run_result"))
          /\ UNCHANGED unsteady
       \/ /\ e.ev = "Judge"
          /\ IF e.idx \in excluded
             THEN UNCHANGED << vars, verdict, unsteady >>
             ELSE /\ Judge(e.idx)
                  /\ verdict' = W3(verdict,
                                   IF e.gen = cls[e.idx] THEN Ok ELSE D("class_realised"),
                                   IF ~JudgeBad(cls[e.idx]) /\ ~e.inst THEN D("install_value") ELSE Ok)
                  /\ unsteady' = unsteady + (IF e.steady THEN 0 ELSE 1)
       \/ /\ e.ev = "Outcome"
          /\ (Install \/ Reject \/ Raise)
          /\ verdict' = Worse(verdict, JudgeOutcome(e))
          /\ UNCHANGED unsteady
       \/ /\ e.ev = "End"
          /\ PrintT(<< "VERDICT", e.tid, verdict.kind \o ":" \o verdict.clause >>)
          /\ Reset(NoNames, NoKinds, NoTDep, "none", "many", {}, TRUE)
          /\ verdict' = Ok /\ unsteady' = 0

TraceSpec == TraceInit /\ [][TraceNext]_tvars

AllConsumed == TLCGet("stats").diameter - 1 = Len(Log)
=============================================================================
