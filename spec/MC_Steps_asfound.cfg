SPECIFICATION StepsSpec
CONSTANTS
  Blueprints <- StepsQuick
  AsFound_LabourDemandLate = TRUE
  AsFound_LiteralSupGood = FALSE
  AsFound_DividendsPerPayer = FALSE
  AsFound_FirstRecipient = FALSE
INVARIANT Steps_Shape
INVARIANT Steps_CommandsAreSectors
INVARIANT Steps_RefinesMain
INVARIANT C08_StepOrderIndependent
CONSTRAINT Emit
CHECK_DEADLOCK FALSE
