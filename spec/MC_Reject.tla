----------------------------- MODULE MC_Reject -----------------------------
EXTENDS Reject, Json
Terminal == phase # "declaring"
Emit == Terminal => PrintT(<< "BEH", ToJson([world |-> world, opts |-> opts, decls |-> decls, final |-> phase]) >>)
=============================================================================
