------------------------------ MODULE Horizon ------------------------------
(* Property C10: exogenous paths, initial conditions and the horizon are honoured    *)
(* verbatim.  sfc_models/equation_parser.py (classification, (0), (k-1), MaxTime,      *)
(* default t = k) and sfc_models/equation_solver.py (ParseString's MaxTime override,   *)
(* SetInitialConditions - four passes -, SolveEquation, the append logic of            *)
(* _SolveStep).                                                                        *)
(*                                                                                     *)
(* A configuration `cfg` is a small equation block as structured data together with    *)
(* everything the user supplies:                                                       *)
(*   vars    sequence, in dependency order, of                                         *)
(*           [name, cls, refs, add, src]                                               *)
(*             cls = "exo"                exogenous, path given by cfg.exo             *)
(*             cls = "lag"                name = src(k-1)                              *)
(*             cls = "sim"                name = refs[1] + ... + refs[n] + add         *)
(*                                        (refs = <<>>: a constant; a variable named   *)
(*                                        "t" is a user-defined time axis; "k" may be  *)
(*                                        referenced)                                  *)
(*           a "sim" variable nobody refers to is decorative when equation reduction   *)
(*           runs (cfg.reduce); a constant is handled by IC_Pass3 (simultaneous) or    *)
(*           IC_Pass4 (decorative)                                                     *)
(*   exo     [form, vals, v]   form = "list" | "tuple" | "strexpr" ([v]*n) |           *)
(*                             "scalar" (float v) | "intscalar" (int v) | "undef"      *)
(*           vals = the supplied values (may be longer than, or shorter than, the      *)
(*           horizon needs)                                                            *)
(*   ics     sequence of [name, val]: stated initial conditions (targets: any          *)
(*           non-exogenous variable, the time axis t - automatic or user-defined -,    *)
(*           t_minus_1 - defined or not; a name without variable is ignored);          *)
(*           icform = "float" |                                                        *)
(*           "int" | "undef" (a name that cannot be evaluated)                         *)
(*   horizon, where = "block" (MaxTime line) | "solver" (EquationSolver.MaxTime set    *)
(*           before ParseString) | "default" (neither: horizon 0) |                    *)
(*           "both": the block carries a MaxTime line with the value cfg.bmax AND the  *)
(*           solver attribute is set to cfg.horizon before ParseString (through the    *)
(*           model: model.MaxTime = bmax, model.EquationSolver.MaxTime = horizon).     *)
(*           The solver's value wins whenever it is set (not None) - 0 included, and   *)
(*           whether it is smaller or larger than the block's.                         *)
(*           "ctor": like "block", parsed by the constructor EquationSolver(<block>).  *)
(*           "kept": like "both", but the solver attribute was written during an       *)
(*           earlier round on the same solver object and is simply still there.        *)
(*           "late_ctor" / "late_parse": MaxTime line in the block, then - after       *)
(*           EquationSolver(<block>) resp. ParseString(<block>) - the attribute        *)
(*           EquationSolver.MaxTime is assigned cfg.late (larger or smaller).  That    *)
(*           assignment comes too late to have any effect: the horizon of the solve    *)
(*           stays the parsed one, and every C10_* invariant is stated against it.     *)
(*   reduce  run_equation_reduction                                                    *)
(*   solve   FALSE: the block is only parsed (the round ends there)                    *)
(*                                                                                     *)
(* A history (`plan`) is one configuration, or two that are parsed one after the other *)
(* into ONE solver object (Reparse).  The only thing a second ParseString inherits is  *)
(* the attribute EquationSolver.MaxTime (smax): None unless the USER wrote it - before *)
(* a parse, or late.  A horizon that merely stood in an earlier block's MaxTime line   *)
(* does not survive.  All C10_* invariants hold at the end of every round.             *)
(*                                                                                     *)
(* One action per critical section, each through a pure operator <Name>Op so that      *)
(* Horizon_Trace uses the same definitions:                                            *)
(*   Parse, LateAssign (solver attribute written after parsing; horizon untouched),   *)
(*   IC_Pass1 (stated initial conditions / zeros), IC_Pass2 (exogenous paths,   *)
(*   the k axis; Reject), IC_Pass3 (time-zero value of simultaneous variables whose    *)
(*   operands are known at time zero), IC_Pass4 (the same for decorative variables),   *)
(*   Step(k) for k = 1..horizon (append to every non-exogenous series), Finish.        *)
(* All values are small integers and every system is acyclic in the listed order, so   *)
(* TLC computes the series itself.                                                     *)
EXTENDS Integers, Sequences, FiniteSets, TLC

CONSTANTS Configs       \* set of configurations explored by the bounded instance

----------------------------------------------------------------------------
(* structure of a block *)
Names(vs)    == { vs[i].name : i \in 1..Len(vs) }
ExoNames(vs) == { vs[i].name : i \in { j \in 1..Len(vs) : vs[j].cls = "exo" } }
LagIdx(vs)   == { j \in 1..Len(vs) : vs[j].cls = "lag" }
SimNames(vs) == { vs[i].name : i \in { j \in 1..Len(vs) : vs[j].cls = "sim" } }
VarOf(vs, n) == vs[CHOOSE i \in 1..Len(vs) : vs[i].name = n]
IsExo(vs, n) == n \in ExoNames(vs)
IsLag(vs, n) == \E i \in LagIdx(vs) : vs[i].name = n

Referenced(vs, n) ==
    \E i \in 1..Len(vs) :
        \/ vs[i].cls = "sim" /\ \E j \in 1..Len(vs[i].refs) : vs[i].refs[j] = n
        \/ vs[i].cls = "lag" /\ vs[i].src = n

(* The time axis.  The parser supplies t = k unless the block holds an EQUATION named t or      *)
(* t_minus_1 (FoundT).  An initial condition "t(0) = .." or "t_minus_1(0) = .." is not an        *)
(* equation: it states a k = 0 value (of the automatic axis, or of nothing when no variable of   *)
(* that name exists) and must not stop the parser from supplying the axis.                        *)
FoundT(vs)   == "t" \in Names(vs) \/ "t_minus_1" \in Names(vs)
HasUserT(vs) == "t" \in Names(vs)              \* the user defines the axis itself
DefaultT == [name |-> "t", cls |-> "sim", refs |-> << "k" >>, add |-> 0, src |-> ""]
(* the parser supplies t = k when the user gives no t; it depends on k only, so it goes first *)
AllVars(c) == IF FoundT(c.vars) THEN c.vars ELSE << DefaultT >> \o c.vars

DecoSet(vs, reduce) ==
    IF reduce THEN { n \in SimNames(vs) : ~Referenced(vs, n) } ELSE {}

(* every reference points backwards (or to k): one ordered sweep is the fixed point *)
WellOrdered(vs) ==
    \A i \in 1..Len(vs) :
        /\ vs[i].cls = "sim" =>
              \A j \in 1..Len(vs[i].refs) :
                  \/ vs[i].refs[j] = "k"
                  \/ \E m \in 1..(i - 1) : vs[m].name = vs[i].refs[j]
        /\ vs[i].cls = "lag" => vs[i].src \in Names(vs)

----------------------------------------------------------------------------
(* what the user supplied *)
(* the two sources of the horizon, and which one wins *)
(* sm = the solver attribute as the previous round (if any) left it; -1: None *)
BlockMax(c)  == CASE c.where \in {"block", "ctor", "late_ctor", "late_parse"} -> c.horizon
                  [] c.where \in {"both", "kept"} -> c.bmax
                  [] OTHER -> 0                        \* no MaxTime line: the parser's default
SolverMax(c, sm) == IF c.where \in {"solver", "both"} THEN c.horizon ELSE sm
ParsedHorizon(c, sm) == IF SolverMax(c, sm) # -1 THEN SolverMax(c, sm) ELSE BlockMax(c)
(* the horizon the user asked for, which all C10_* invariants are stated against *)
HorizonOf(c) == IF c.where = "default" THEN 0 ELSE c.horizon
IsLate(c) == c.where \in {"late_ctor", "late_parse"}

SuppliedAt(c, i) == IF c.exo.form = "scalar" THEN c.exo.v ELSE c.exo.vals[i]
ExoEvaluable(c)  == c.exo.form # "undef"
ExoListLike(c)   == c.exo.form \in {"list", "tuple", "strexpr", "scalar"}
ExoLen(c, h)     == IF c.exo.form = "scalar" THEN h + 1 ELSE Len(c.exo.vals)
ExoRejected(c)   == /\ ExoNames(c.vars) # {}
                    /\ \/ ~ExoEvaluable(c)
                       \/ ~ExoListLike(c)
                       \/ ExoLen(c, HorizonOf(c)) < HorizonOf(c) + 1

ICNames(c) == { c.ics[i].name : i \in 1..Len(c.ics) }
(* an initial condition may be stated more than once for a variable: the LAST statement is in force *)
ICVal(c, n) == LET idx == { i \in 1..Len(c.ics) : c.ics[i].name = n }
               IN c.ics[CHOOSE i \in idx : \A j \in idx : j <= i].val
ICRejected(c) == Len(c.ics) > 0 /\ c.icform = "undef"

(* the input forms the statement says are rejected with an error *)
RejectedInput(c) == ICRejected(c) \/ ExoRejected(c)

----------------------------------------------------------------------------
(* the state as a record, and the operators *)
S0 == [phase |-> "setup", vars |-> << >>, deco |-> {}, horizon |-> 0,
       series |-> << >>, tz |-> {}, step |-> 0, err |-> "", smax |-> -1]

ParseOp(c, sm) ==
    LET vs == AllVars(c)
    IN [S0 EXCEPT !.phase = "parsed", !.vars = vs, !.deco = DecoSet(vs, c.reduce),
                  !.horizon = ParsedHorizon(c, sm),
                  !.smax = SolverMax(c, sm)]

(* solver.MaxTime = N after the block was parsed: only the attribute changes *)
LateAssignOp(s, c) ==
    IF s.phase = "parsed" /\ IsLate(c) THEN [s EXCEPT !.phase = "assigned", !.smax = c.late] ELSE s

RejectOp(s, why) == [s EXCEPT !.phase = "reject", !.series = << >>, !.tz = {}, !.err = why]

RECURSIVE SumRefs(_, _)
SumRefs(refs, f) == IF refs = << >> THEN 0 ELSE f[Head(refs)] + SumRefs(Tail(refs), f)

RECURSIVE Counting(_, _)
Counting(n, upto) == IF n > upto THEN << >> ELSE << n >> \o Counting(n + 1, upto)

RECURSIVE SuppliedPrefix(_, _, _)
SuppliedPrefix(c, i, n) == IF i > n THEN << >> ELSE << SuppliedAt(c, i) >> \o SuppliedPrefix(c, i + 1, n)

(* pass 1: a stated initial condition, else zero, for every variable *)
IC_Pass1Op(s, c) ==
    IF s.phase # (IF IsLate(c) THEN "assigned" ELSE "parsed") THEN s
    ELSE IF ICRejected(c) THEN RejectOp(s, "ic_unevaluable")
    ELSE [s EXCEPT !.phase = "ic1",
                   !.series = [n \in Names(s.vars) |->
                                  << IF n \in ICNames(c) THEN ICVal(c, n) ELSE 0 >>],
                   !.tz = ICNames(c) \cap Names(s.vars)]

(* pass 2: the exogenous paths (first horizon+1 values; float scalar broadcast) and k *)
IC_Pass2Op(s, c) ==
    IF s.phase # "ic1" THEN s
    ELSE IF ExoNames(s.vars) # {} /\ ~ExoEvaluable(c) THEN RejectOp(s, "exo_unevaluable")
    ELSE IF ExoNames(s.vars) # {} /\ ~ExoListLike(c) THEN RejectOp(s, "exo_not_a_list")
    ELSE IF ExoNames(s.vars) # {} /\ ExoLen(c, s.horizon) < s.horizon + 1
         THEN RejectOp(s, "exo_too_short")
    ELSE [s EXCEPT !.phase = "ic2",
                   !.series = [n \in (DOMAIN s.series) \cup {"k"} |->
                                  IF n = "k" THEN Counting(0, s.horizon)
                                  ELSE IF IsExo(s.vars, n) THEN SuppliedPrefix(c, 1, s.horizon + 1)
                                  ELSE s.series[n]],
                   !.tz = s.tz \cup ExoNames(s.vars) \cup {"k"}]

(* passes 3 and 4: time-zero value of the variables in `which` whose operands are all *)
(* known at time zero; variables carrying an initial condition are left alone         *)
RECURSIVE TZFold(_, _, _, _)
TZFold(vs, i, which, acc) ==
    IF i > Len(vs) THEN acc
    ELSE LET v == vs[i]
             can == /\ v.cls = "sim" /\ v.name \in which /\ v.name \notin acc.tz
                    /\ \A j \in 1..Len(v.refs) : v.refs[j] \in acc.tz
             val == SumRefs(v.refs, [n \in acc.tz |-> acc.series[n][1]]) + v.add
         IN TZFold(vs, i + 1, which,
                   IF can THEN [series |-> [acc.series EXCEPT ![v.name] = << val >>],
                                tz |-> acc.tz \cup {v.name}]
                   ELSE acc)

IC_Pass3Op(s, c) ==
    IF s.phase # "ic2" THEN s
    ELSE LET r == TZFold(s.vars, 1, SimNames(s.vars) \ s.deco, [series |-> s.series, tz |-> s.tz])
         IN [s EXCEPT !.phase = "ic3", !.series = r.series, !.tz = r.tz]

IC_Pass4Op(s, c) ==
    IF s.phase # "ic3" THEN s
    ELSE LET r == TZFold(s.vars, 1, s.deco, [series |-> s.series, tz |-> s.tz])
         IN [s EXCEPT !.phase = "ic4", !.series = r.series, !.tz = r.tz]

(* one period: exogenous and k read at k, lags read their source at k-1, the rest is *)
(* computed in order; one value is appended to every non-exogenous series            *)
RECURSIVE CurFold(_, _, _)
CurFold(vs, i, cur) ==
    IF i > Len(vs) THEN cur
    ELSE LET v == vs[i]
         IN CurFold(vs, i + 1,
                    IF v.cls = "sim" THEN [cur EXCEPT ![v.name] = SumRefs(v.refs, cur) + v.add]
                    ELSE cur)

Fixed(vs, n) == n = "k" \/ IsExo(vs, n)

StepOp(s, c, k) ==
    IF s.phase \notin {"ic4", "step"} \/ k # s.step + 1 \/ k > s.horizon THEN s
    ELSE LET base == [n \in DOMAIN s.series |->
                         IF Fixed(s.vars, n) THEN s.series[n][k + 1]
                         ELSE IF IsLag(s.vars, n) THEN s.series[VarOf(s.vars, n).src][k]
                         ELSE 0]
             cur == CurFold(s.vars, 1, base)
         IN [s EXCEPT !.phase = "step", !.step = k,
                      !.series = [n \in DOMAIN s.series |->
                                     IF Fixed(s.vars, n) THEN s.series[n]
                                     ELSE Append(s.series[n], cur[n])]]

FinishOp(s) ==
    IF s.phase \in {"ic4", "step"} /\ s.step = s.horizon THEN [s EXCEPT !.phase = "done"] ELSE s

RECURSIVE StepsFrom(_, _, _)
StepsFrom(s, c, k) == IF k > s.horizon \/ s.phase \notin {"ic4", "step"} THEN s
                      ELSE StepsFrom(StepOp(s, c, k), c, k + 1)

(* EquationSolver.SolveEquation() on a parsed block *)
SolveOp(s, c) ==
    FinishOp(StepsFrom(IC_Pass4Op(IC_Pass3Op(IC_Pass2Op(IC_Pass1Op(LateAssignOp(s, c), c), c), c), c), c, 1))

----------------------------------------------------------------------------
VARIABLES plan,      \* the history: sequence of 1 or 2 configurations for one solver object
          idx,       \* the round being executed
          cfg,       \* the block and the supplied data of the current round (= plan[idx])
          phase,     \* "setup" | "parsed" | "assigned" | "ic1" .. "ic4" | "step" | "done" | "reject"
          vlist,     \* variables after parsing (default t added)
          deco,      \* names classified decorative
          horizon,   \* MaxTime as the solver will use it
          series,    \* name -> sequence of values (entry i = period i-1)
          tz,        \* names whose time-zero value is known (time_zero_constants)
          step,      \* last completed period
          err,       \* reason of a Reject
          smax       \* the attribute EquationSolver.MaxTime (-1: None)

hvars == << plan, idx, cfg, phase, vlist, deco, horizon, series, tz, step, err, smax >>

S == [phase |-> phase, vars |-> vlist, deco |-> deco, horizon |-> horizon,
      series |-> series, tz |-> tz, step |-> step, err |-> err, smax |-> smax]

Become(s) == /\ phase' = s.phase /\ vlist' = s.vars /\ deco' = s.deco /\ horizon' = s.horizon
             /\ series' = s.series /\ tz' = s.tz /\ step' = s.step /\ err' = s.err
             /\ smax' = s.smax

Init == cfg \in Configs /\ plan = << cfg >> /\ idx = 1 /\ phase = S0.phase /\ vlist = S0.vars /\ deco = S0.deco
        /\ horizon = S0.horizon /\ series = S0.series /\ tz = S0.tz /\ step = S0.step
        /\ err = S0.err /\ smax = S0.smax

Same == UNCHANGED << plan, idx, cfg >>
(* a round is over: solved, rejected, or parsed only *)
RoundOver == phase \in {"done", "reject"} \/ (~cfg.solve /\ phase = "parsed")

Parse    == phase = "setup"  /\ Become(ParseOp(cfg, -1))     /\ Same
(* the next block of the history goes into the same solver: only smax is inherited *)
Reparse  == /\ RoundOver /\ idx < Len(plan)
            /\ idx' = idx + 1 /\ cfg' = plan[idx + 1] /\ UNCHANGED plan
            /\ Become(ParseOp(plan[idx + 1], smax))
LateAssign == phase = "parsed" /\ cfg.solve /\ IsLate(cfg) /\ Become(LateAssignOp(S, cfg)) /\ Same
IC_Pass1 == cfg.solve /\ phase = (IF IsLate(cfg) THEN "assigned" ELSE "parsed")
            /\ Become(IC_Pass1Op(S, cfg)) /\ Same
IC_Pass2 == phase = "ic1"    /\ Become(IC_Pass2Op(S, cfg))   /\ Same
IC_Pass3 == phase = "ic2"    /\ Become(IC_Pass3Op(S, cfg))   /\ Same
IC_Pass4 == phase = "ic3"    /\ Become(IC_Pass4Op(S, cfg))   /\ Same
Step(k)  == phase \in {"ic4", "step"} /\ k = step + 1 /\ k <= horizon
            /\ Become(StepOp(S, cfg, k)) /\ Same
Finish   == phase \in {"ic4", "step"} /\ step = horizon /\ Become(FinishOp(S)) /\ Same

Next == Parse \/ Reparse \/ LateAssign \/ IC_Pass1 \/ IC_Pass2 \/ IC_Pass3 \/ IC_Pass4
        \/ (\E k \in 1..horizon : Step(k)) \/ Finish

Spec == Init /\ [][Next]_hvars

----------------------------------------------------------------------------
(* C10, stated against the supplied data *)
Done == phase = "done"

C10_Lengths ==
    Done => /\ DOMAIN series = Names(vlist) \cup {"k"}
            /\ \A n \in DOMAIN series : Len(series[n]) = horizon + 1

C10_ExoVerbatim ==
    Done => \A n \in ExoNames(vlist) : \A i \in 1..(horizon + 1) :
                series[n][i] = SuppliedAt(cfg, i)

C10_ICVerbatim ==
    Done => \A i \in 1..Len(cfg.ics) :
                cfg.ics[i].name \in Names(vlist) => series[cfg.ics[i].name][1] = ICVal(cfg, cfg.ics[i].name)

C10_LagShift ==
    Done => \A i \in LagIdx(vlist) : \A k \in 1..horizon :
                series[vlist[i].name][k + 1] = series[vlist[i].src][k]

(* a stated initial condition on the automatic axis is its k = 0 value (C10_ICVerbatim); from *)
(* k = 1 on, and at k = 0 when nothing is stated, the axis equals k                            *)
C10_TimeAxis ==
    (Done /\ ~HasUserT(cfg.vars)) =>
        /\ "t" \in DOMAIN series
        /\ \A k \in 1..horizon : series["t"][k + 1] = k
        /\ "t" \notin ICNames(cfg) => series["t"][1] = 0

C10_Rejects ==
    /\ RejectedInput(cfg) => phase \in {"setup", "parsed", "assigned", "ic1", "reject"}
    /\ phase = "reject" => (RejectedInput(cfg) /\ series = << >> /\ step = 0)

TypeOK == /\ phase \in {"setup", "parsed", "assigned", "ic1", "ic2", "ic3", "ic4", "step", "done", "reject"}
          /\ step <= horizon
          /\ phase \in {"parsed", "assigned", "ic1"} => WellOrdered(vlist)
          /\ horizon = (IF phase = "setup" THEN 0 ELSE HorizonOf(cfg))     \* the horizon the user asked for in
                                                                           \* this round; nothing after Parse moves it
          /\ (idx >= 1 /\ idx <= Len(plan)) => cfg = plan[idx]
=============================================================================
