\* The pinned code: the 'exogenous' substring test runs on the raw line.  TLC reports a 2-state
\* counterexample (a line whose trailing comment contains the word is dropped and switches the mode).
\* C14_CommentsInert is left out only because it is violated already in the initial state (for every
\* form with cc = "exo"), which hides the more telling history; add the line to see that one.
SPECIFICATION Spec
CONSTANTS
  LineForms <- MC_FormsReduced
  FirstForms <- MC_FormsReduced
  MaxLines = 3
  MaxBlocks = 1
  AsFound_MarkerTestedOnRawLine = TRUE
INVARIANT TypeOK
INVARIANT C14_ExactlyOneClass
INVARIANT C14_MeaningUnchanged
INVARIANT C14_TimeSupplied
INVARIANT C14_MalformedReported
INVARIANT C14_BlockAlone
CHECK_DEADLOCK FALSE
