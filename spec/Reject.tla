------------------------------- MODULE Reject -------------------------------
(* C11, invalid-input clauses: a declaration sequence that contains one invalid       *)
(* declaration is rejected with an error before any numbers are produced.             *)
(*                                                                                    *)
(* Two worlds:                                                                        *)
(*   "block"  an equation block given to EquationSolver (ParseString/SolveEquation):  *)
(*            declarations are lines; invalid = a reserved / shadowing name on the    *)
(*            left-hand side of an endogenous, lagged or exogenous line, or a         *)
(*            reserved token on a right-hand side.  Detected by ValidateInputs when   *)
(*            the block is parsed (action Main).                                      *)
(*   "model"  a Model built from Country / Sector / AddVariable calls: invalid = a    *)
(*            duplicate country code, a duplicate sector code in a country, '__' in a *)
(*            local variable name (all three raise at the declaration), '__' in a     *)
(*            sector code, a market without / with two candidate suppliers, a cash    *)
(*            flow across currencies without ExternalSector (raise at the latest in   *)
(*            main()).                                                                *)
(* The concrete names (keyword.kwlist, dir(builtins), dir(math), k, self, None) are   *)
(* supplied by the replay driver; the specification generates the sequences.          *)
EXTENDS Integers, Sequences, TLC, FiniteSets

CONSTANTS MaxBefore,   \* valid declarations before the invalid one (0..MaxBefore)
          MaxAfter     \* valid declarations after it (only if it was not rejected at once)

Worlds == {"block", "model"}
ValidKinds(w) == IF w = "block" THEN {"line_endo", "line_lag", "line_exo"}
                 ELSE {"country", "sector", "variable"}
InvalidKinds(w) == IF w = "block" THEN {"reserved_lhs_endo", "reserved_lhs_lag", "reserved_lhs_exo", "reserved_rhs"}
                   ELSE {"dup_country", "dup_sector", "uu_local", "uu_sector",
                         "market_no_supplier", "market_two_suppliers", "cross_currency_flow"}
Immediate == {"dup_country", "dup_sector", "uu_local"}      \* raise in the declaring call itself

State0(w) == [world |-> w, phase |-> "declaring", err |-> FALSE, hasNumbers |-> FALSE,
              bad |-> FALSE, invalidSeen |-> FALSE]

DeclareValidOp(s) == s
DeclareInvalidOp(s, kind) ==
    IF kind \in Immediate
    THEN [s EXCEPT !.phase = "rejected", !.err = TRUE, !.invalidSeen = TRUE]
    ELSE [s EXCEPT !.bad = TRUE, !.invalidSeen = TRUE]
MainOp(s) ==
    IF s.bad THEN [s EXCEPT !.phase = "rejected", !.err = TRUE]
    ELSE [s EXCEPT !.phase = "built", !.hasNumbers = TRUE]

VARIABLES world, phase, err, hasNumbers, bad, invalidSeen,
          decls      \* history: sequence of [kind, valid]

vars == << world, phase, err, hasNumbers, bad, invalidSeen, decls >>
S == [world |-> world, phase |-> phase, err |-> err, hasNumbers |-> hasNumbers, bad |-> bad,
      invalidSeen |-> invalidSeen]
SetS(s) == /\ world' = s.world /\ phase' = s.phase /\ err' = s.err /\ hasNumbers' = s.hasNumbers
           /\ bad' = s.bad /\ invalidSeen' = s.invalidSeen

Init == /\ world \in Worlds /\ phase = "declaring" /\ err = FALSE /\ hasNumbers = FALSE
        /\ bad = FALSE /\ invalidSeen = FALSE /\ decls = << >>

AfterCount == LET bads == { i \in 1..Len(decls) : ~decls[i].valid }
              IN IF bads = {} THEN 0 ELSE Len(decls) - (CHOOSE i \in bads : TRUE)

DeclareValid(kind) ==
    /\ phase = "declaring" /\ kind \in ValidKinds(world)
    /\ IF invalidSeen THEN AfterCount < MaxAfter ELSE Len(decls) < MaxBefore
    /\ SetS(DeclareValidOp(S))
    /\ decls' = Append(decls, [kind |-> kind, valid |-> TRUE])

DeclareInvalid(kind) ==
    /\ phase = "declaring" /\ ~invalidSeen /\ kind \in InvalidKinds(world)
    /\ SetS(DeclareInvalidOp(S, kind))
    /\ decls' = Append(decls, [kind |-> kind, valid |-> FALSE])

Main == /\ phase = "declaring" /\ SetS(MainOp(S)) /\ UNCHANGED decls

Next == \/ \E kind \in ValidKinds(world) : DeclareValid(kind)
        \/ \E kind \in InvalidKinds(world) : DeclareInvalid(kind)
        \/ Main

Spec == Init /\ [][Next]_vars

TypeOK == /\ world \in Worlds /\ phase \in {"declaring", "rejected", "built"}
          /\ err \in BOOLEAN /\ hasNumbers \in BOOLEAN /\ bad \in BOOLEAN /\ invalidSeen \in BOOLEAN

C11_RejectsInvalid ==
    /\ hasNumbers => ~invalidSeen
    /\ (invalidSeen /\ phase # "declaring") => (err /\ ~hasNumbers)
=============================================================================
