------------------------------- MODULE Reject -------------------------------
(* C11, invalid-input clauses: a declaration sequence that contains one invalid       *)
(* declaration is rejected with an error before any numbers are produced.             *)
(*                                                                                    *)
(* Two worlds:                                                                        *)
(*   "block"  an equation block given to EquationSolver (ParseString/SolveEquation):  *)
(*            declarations are lines; invalid = a reserved / shadowing name on the    *)
(*            left-hand side of an endogenous, lagged or exogenous line, or a         *)
(*            reserved token on a right-hand side.  Detected by ValidateInputs when   *)
(*            the block is parsed (action Main).                                      *)
(*   "model"  a Model built from Country / Sector / AddVariable calls: invalid = a    *)
(*            duplicate country code, a duplicate sector code in a country, '__' in a *)
(*            local variable name (all three raise at the declaration), '__' in a     *)
(*            sector code, a market without / with two candidate suppliers, a cash    *)
(*            flow across currencies without ExternalSector (raise at the latest in   *)
(*            main()).                                                                *)
(* The concrete names (keyword.kwlist, dir(builtins), dir(math), k, self, None) are   *)
(* supplied by the replay driver; the specification generates the sequences.          *)
EXTENDS Integers, Sequences, TLC, FiniteSets

CONSTANTS MaxBefore,   \* valid declarations before the invalid one (0..MaxBefore)
          MaxAfter,    \* valid declarations after it (only if it was not rejected at once)
          MaxBeforeMarket   \* declarations before a configured market (it is the last declaration)

(* A configured goods market (world "model"): the country of the market has `cand` sectors that carry *)
(* the supply variable SUP_<market> (candidates for the residual supply), AddSupplier(x) without an    *)
(* equation was called `named` times (the last call names the residual supplier), and one rule-based  *)
(* supplier AddSupplier(x, eqn) may be given: a local candidate, another local sector, a sector of     *)
(* another country with the SAME short code as a local candidate, or with a different code.           *)
(* The supply is well defined iff a residual supplier was named, or the search finds exactly one      *)
(* candidate.  Rule-based suppliers never make an ambiguous or empty search well defined.             *)
Rules == {"none", "local_cand", "local_other", "foreign_same", "foreign_diff"}
MarketCfgs == { c \in [cand : 0..2, named : 0..2, rule : Rules] : c.rule = "local_cand" => c.cand >= 1 }
WellFormedMarket(c) == c.named >= 1 \/ c.cand = 1
NoCfg == [cand |-> 0, named |-> 0, rule |-> "none"]

Worlds == {"block", "model"}
(* world "block": how the solver object was configured before the block is parsed.  Whether invalid  *)
(* names are refused must not depend on it.                                                        *)
SolverOptions == {"default", "ctor_reduction_off", "attr_reduction_off", "ctor_reduction_on"}
ValidKinds(w) == IF w = "block" THEN {"line_endo", "line_lag", "line_exo"}
                 ELSE {"country", "sector", "variable"}
InvalidKinds(w) == IF w = "block" THEN {"reserved_lhs_endo", "reserved_lhs_lag", "reserved_lhs_exo", "reserved_rhs"}
                   ELSE {"dup_country", "dup_sector", "uu_local", "uu_sector",
                         "market_no_supplier", "market_two_suppliers", "cross_currency_flow"}
Immediate == {"dup_country", "dup_sector", "uu_local"}      \* raise in the declaring call itself

State0(w) == [world |-> w, phase |-> "declaring", err |-> FALSE, hasNumbers |-> FALSE,
              bad |-> FALSE, invalidSeen |-> FALSE]

DeclareValidOp(s) == s
DeclareInvalidOp(s, kind) ==
    IF kind \in Immediate
    THEN [s EXCEPT !.phase = "rejected", !.err = TRUE, !.invalidSeen = TRUE]
    ELSE [s EXCEPT !.bad = TRUE, !.invalidSeen = TRUE]
MainOp(s) ==
    IF s.bad THEN [s EXCEPT !.phase = "rejected", !.err = TRUE]
    ELSE [s EXCEPT !.phase = "built", !.hasNumbers = TRUE]

VARIABLES world, phase, err, hasNumbers, bad, invalidSeen,
          opts,      \* solver options (world "block")
          decls      \* history: sequence of [kind, valid]

vars == << world, phase, err, hasNumbers, bad, invalidSeen, opts, decls >>
S == [world |-> world, phase |-> phase, err |-> err, hasNumbers |-> hasNumbers, bad |-> bad,
      invalidSeen |-> invalidSeen]
SetS(s) == /\ world' = s.world /\ phase' = s.phase /\ err' = s.err /\ hasNumbers' = s.hasNumbers
           /\ bad' = s.bad /\ invalidSeen' = s.invalidSeen

Init == /\ world \in Worlds /\ opts \in (IF world = "block" THEN SolverOptions ELSE {"default"})
        /\ phase = "declaring" /\ err = FALSE /\ hasNumbers = FALSE
        /\ bad = FALSE /\ invalidSeen = FALSE /\ decls = << >>

marketSeen == \E i \in 1..Len(decls) : decls[i].kind = "market"
AfterCount == LET bads == { i \in 1..Len(decls) : ~decls[i].valid }
              IN IF bads = {} THEN 0 ELSE Len(decls) - (CHOOSE i \in bads : TRUE)

(* a configured market: valid or invalid according to WellFormedMarket; always the last declaration *)
DeclareMarket(c) ==
    /\ phase = "declaring" /\ world = "model" /\ ~invalidSeen /\ ~marketSeen
    /\ Len(decls) <= MaxBeforeMarket
    /\ SetS(IF WellFormedMarket(c) THEN DeclareValidOp(S) ELSE DeclareInvalidOp(S, "market"))
    /\ decls' = Append(decls, [kind |-> "market", valid |-> WellFormedMarket(c), cfg |-> c])

DeclareValid(kind) ==
    /\ phase = "declaring" /\ kind \in ValidKinds(world) /\ ~marketSeen
    /\ IF invalidSeen THEN AfterCount < MaxAfter ELSE Len(decls) < MaxBefore
    /\ SetS(DeclareValidOp(S))
    /\ decls' = Append(decls, [kind |-> kind, valid |-> TRUE, cfg |-> NoCfg])

DeclareInvalid(kind) ==
    /\ phase = "declaring" /\ ~invalidSeen /\ ~marketSeen /\ kind \in InvalidKinds(world)
    /\ SetS(DeclareInvalidOp(S, kind))
    /\ decls' = Append(decls, [kind |-> kind, valid |-> FALSE, cfg |-> NoCfg])

Main == /\ phase = "declaring" /\ SetS(MainOp(S)) /\ UNCHANGED decls

Next == \/ \E kind \in ValidKinds(world) : DeclareValid(kind)
        \/ \E kind \in InvalidKinds(world) : DeclareInvalid(kind)
        \/ \E c \in MarketCfgs : DeclareMarket(c)
        \/ Main

Spec == Init /\ [][Next /\ UNCHANGED opts]_vars

TypeOK == /\ world \in Worlds /\ phase \in {"declaring", "rejected", "built"}
          /\ err \in BOOLEAN /\ hasNumbers \in BOOLEAN /\ bad \in BOOLEAN /\ invalidSeen \in BOOLEAN

C11_RejectsInvalid ==
    /\ hasNumbers => ~invalidSeen
    /\ (invalidSeen /\ phase # "declaring") => (err /\ ~hasNumbers)
=============================================================================
