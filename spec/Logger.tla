------------------------------- MODULE Logger -------------------------------
(* EXTENSION specification (beyond the listed properties; wired into the thorough     *)
(* tier of C17): life cycle of sfc_models.utils.Logger, the process-wide log registry. *)
(*                                                                                    *)
(*   handles   Logger.log_file_handles: log name -> "none" (no key) | "registered"     *)
(*             (value = file name, file not created yet) | "open" (value = file object)*)
(*   fileOf    the file a registered log was given (file ids "<base>_<log>")            *)
(*   exists, content, text, opaque     the directory the files live in: does the file  *)
(*             exist, the message ids its text carries in order, the text itself,      *)
(*             "text is not predicted" (written by Model.main())                       *)
(*   cutoff    Logger.priority_cutoff                                                  *)
(*                                                                                    *)
(* One action per public call:                                                        *)
(*   Register(lg)          Logger.register_log(<own file of lg>, lg)                   *)
(*   RegisterStandard(b)   Logger.register_standard_logs(b)                            *)
(*   Write(lg, sh)         Logger(text, log=lg, priority=sh.prio, endline=sh.endline)  *)
(*                         text: "plain" '@m<id>@' | "fmt" '@m{0}@' with               *)
(*                         data_to_format=(id,) | "nl" '@m<id>@\n' | "empty" ''        *)
(*   SetCutoff(c)          Logger.priority_cutoff = c                                  *)
(*   Cleanup               Logger.cleanup()                                            *)
(*   Main(b, k)            a small Model is declared and main(b) is called (b = "none": *)
(*                         main()): construction and main() write to the standard logs *)
(*                         MainLogs that are registered, main() ends with cleanup().   *)
(*                         k = "fails": the model has an undefined name, main() raises *)
(*                         and still ends with cleanup() (finally); as found, LogInfo   *)
(*                         gives up when the log MainGate is not registered, so only   *)
(*                         the logs MainAlways are written to                          *)
(*                                                                                    *)
(* What the code does and the documentation fixes only loosely is modelled as found:   *)
(* Logger() fetches the handle BEFORE it looks at the priority, so a message that is    *)
(* filtered out still creates (truncates) the file of a registered log ("the file is   *)
(* only created ... when the file handle is accessed", register_log docstring).         *)
(* The operators *Op are the single source of truth; Logger_Trace uses the same actions.*)
EXTENDS Integers, Sequences, FiniteSets, TLC

CONSTANTS
    StdLogs,        \* the five standard log names
    OtherLogs,      \* further log names
    Bases,          \* base file names (register_standard_logs / main)
    RegLogs,        \* bounded instance: logs Register is tried on
    StdBases,       \* bounded instance: bases RegisterStandard is tried with
    MainBases,      \* bounded instance: arguments of Main ("none" = main())
    WriteLogs,      \* bounded instance: logs Write is addressed to
    Shapes,         \* bounded instance: set of [prio, endline, kind]
    Cutoffs,        \* bounded instance: values SetCutoff is tried with
    DefaultCutoff,  \* 10
    MainLogs,       \* the standard logs construction + main() write to
    MainGate,       \* "log": a failing main() writes its report only if this log is registered ...
    MainAlways,     \* ... otherwise only to these ({"timeseries"}, written in the finally clause)
    MainKinds,      \* bounded instance: subset of {"solves", "fails"}
    MaxHist, MaxWrites, MaxMains

AllLogs == StdLogs \cup OtherLogs
OwnBase == "own"
NoFile  == ""
FileOf(base, lg) == base \o "_" \o lg
Files == { FileOf(b, lg) : b \in Bases \cup {OwnBase}, lg \in AllLogs }

RECURSIVE Spaces(_)
Spaces(n) == IF n <= 0 THEN "" ELSE " " \o Spaces(n - 1)

Marker(id) == "@m" \o ToString(id) \o "@"
Body(kind, id) == CASE kind = "plain" -> Marker(id)
                    [] kind = "fmt"   -> Marker(id)
                    [] kind = "nl"    -> Marker(id) \o "\n"
                    [] kind = "empty" -> ""

----------------------------------------------------------------------------
(* pure operators on the state record [handles, fileOf, exists, content, text, opaque, cutoff] *)

(* Logger.get_handle(lg) for a log that has a key: a file name is replaced by open(name, 'w') *)
OpenOp(s, lg) ==
    IF s.handles[lg] = "registered"
    THEN LET f == s.fileOf[lg]
         IN [s EXCEPT !.handles[lg] = "open", !.exists[f] = TRUE, !.content[f] = << >>,
                      !.text[f] = "", !.opaque[f] = FALSE]
    ELSE s

RegisterOp(s, lg, f) ==
    IF s.handles[lg] # "none"
    THEN [st |-> s, exc |-> "ValueError"]
    ELSE [st |-> [s EXCEPT !.handles[lg] = "registered", !.fileOf[lg] = f], exc |-> ""]

(* the five standard logs; "already registered" is eaten, the earlier registration stays *)
RegisterStandardOp(s, b) ==
    LET new(lg) == lg \in StdLogs /\ s.handles[lg] = "none"
    IN [s EXCEPT !.handles = [lg \in AllLogs |-> IF new(lg) THEN "registered" ELSE s.handles[lg]],
                 !.fileOf  = [lg \in AllLogs |-> IF new(lg) THEN FileOf(b, lg) ELSE s.fileOf[lg]]]

Accepted(s, lg, sh) == s.handles[lg] # "none" /\ sh.prio <= s.cutoff

WriteOp(s, id, lg, sh) ==
    IF s.handles[lg] = "none" THEN s                       \* KeyError in get_handle: the message is eaten
    ELSE LET s1 == OpenOp(s, lg)
             f == s1.fileOf[lg]
             p == IF sh.prio < 1 THEN 1 ELSE sh.prio
             isEmpty == sh.kind = "empty" /\ p = 1        \* indentation makes any other text non-empty
             t2 == IF isEmpty THEN " " ELSE Spaces(p - 1) \o Body(sh.kind, id)
             t3 == IF sh.endline /\ sh.kind # "nl" THEN t2 \o "\n" ELSE t2
         IN IF sh.prio > s1.cutoff THEN s1                 \* filtered: nothing written (the handle was fetched)
            ELSE IF isEmpty /\ ~sh.endline THEN s1
            ELSE [s1 EXCEPT !.text[f] = @ \o t3,
                            !.content[f] = IF sh.kind = "empty" THEN @ ELSE Append(@, id)]

CleanupOp(s) == [s EXCEPT !.handles = [lg \in AllLogs |-> "none"], !.fileOf = [lg \in AllLogs |-> NoFile]]

(* declaring a small model and running main(b): every registered log of MainLogs is written to *)
(* (text not predicted; it carries no message id), then cleanup()                              *)
MainWrites(s0, k) == IF k = "fails" /\ s0.handles[MainGate] = "none" THEN MainAlways ELSE MainLogs
MainOp(s, b, k) ==
    LET s0 == IF b = "none" THEN s ELSE RegisterStandardOp(s, b)
        used == { lg \in MainWrites(s0, k) : s0.handles[lg] # "none" }
        touched == { s0.fileOf[lg] : lg \in used }
        fresh == { s0.fileOf[lg] : lg \in { l \in used : s0.handles[l] = "registered" } }
        s1 == [s0 EXCEPT !.exists  = [f \in Files |-> IF f \in touched THEN TRUE ELSE s0.exists[f]],
                         !.content = [f \in Files |-> IF f \in fresh THEN << >> ELSE s0.content[f]],
                         !.text    = [f \in Files |-> IF f \in fresh THEN "" ELSE s0.text[f]],
                         !.opaque  = [f \in Files |-> IF f \in touched THEN TRUE ELSE s0.opaque[f]]]
    IN CleanupOp(s1)

(* files a Logger() call reaches through a registered log (they get created if they were not open) *)
WriteReaches(s, lg) == IF s.handles[lg] = "none" THEN {} ELSE {s.fileOf[lg]}
MainReaches(s, b, k) == LET s0 == IF b = "none" THEN s ELSE RegisterStandardOp(s, b)
                        IN { s0.fileOf[lg] : lg \in { l \in MainWrites(s0, k) : s0.handles[l] # "none" } }

----------------------------------------------------------------------------
VARIABLES handles, fileOf, exists, content, text, opaque, cutoff,
          hist,
          want,       \* ghost: per file, the ids of the non-empty messages accepted (registered log, priority <= cutoff)
                      \*        since the file was last created, in call order
          reached,    \* ghost: files a Logger() call was addressed to through a registered log
          last        \* ghost: the last call, its outcome and the state it started from

svars == << handles, fileOf, exists, content, text, opaque, cutoff >>
vars  == << svars, hist, want, reached, last >>

St == [handles |-> handles, fileOf |-> fileOf, exists |-> exists, content |-> content, text |-> text,
       opaque |-> opaque, cutoff |-> cutoff]

Becomes(s) == /\ handles' = s.handles /\ fileOf' = s.fileOf /\ exists' = s.exists /\ content' = s.content
              /\ text' = s.text /\ opaque' = s.opaque /\ cutoff' = s.cutoff

InitState == [handles |-> [lg \in AllLogs |-> "none"], fileOf |-> [lg \in AllLogs |-> NoFile],
              exists |-> [f \in Files |-> FALSE], content |-> [f \in Files |-> << >>],
              text |-> [f \in Files |-> ""], opaque |-> [f \in Files |-> FALSE], cutoff |-> DefaultCutoff]

NoLast == [a |-> "none", lg |-> "", exc |-> "", pre |-> InitState]

Init == /\ handles = InitState.handles /\ fileOf = InitState.fileOf /\ exists = InitState.exists
        /\ content = InitState.content /\ text = InitState.text /\ opaque = InitState.opaque
        /\ cutoff = InitState.cutoff
        /\ hist = << >>
        /\ want = [f \in Files |-> << >>]
        /\ reached = {}
        /\ last = NoLast

Count(a) == Cardinality({ i \in DOMAIN hist : hist[i].a = a })
NextId == Count("Write") + 1                \* every Logger() call of a behaviour carries its own message id

Note(a, lg, b, sh, c) ==
    /\ Len(hist) < MaxHist
    /\ hist' = Append(hist, [a |-> a, lg |-> lg, b |-> b, prio |-> sh.prio, endline |-> sh.endline,
                             kind |-> sh.kind, c |-> c])
NoShape == [prio |-> 0, endline |-> FALSE, kind |-> ""]

Register(lg) ==
    LET r == RegisterOp(St, lg, FileOf(OwnBase, lg))
    IN /\ Becomes(r.st)
       /\ last' = [a |-> "Register", lg |-> lg, exc |-> r.exc, pre |-> St]
       /\ Note("Register", lg, "", NoShape, 0)
       /\ UNCHANGED << want, reached >>

RegisterStandard(b) ==
    /\ Becomes(RegisterStandardOp(St, b))
    /\ last' = [a |-> "RegisterStandard", lg |-> "", exc |-> "", pre |-> St]
    /\ Note("RegisterStandard", "", b, NoShape, 0)
    /\ UNCHANGED << want, reached >>

Write(lg, sh) ==
    LET id == NextId
        f == fileOf[lg]
        base == IF handles[lg] = "registered" THEN << >> ELSE want[f]     \* a file that is created starts empty
    IN /\ Count("Write") < MaxWrites
       /\ Becomes(WriteOp(St, id, lg, sh))
       /\ want' = IF handles[lg] = "none" THEN want
                  ELSE [want EXCEPT ![f] = IF Accepted(St, lg, sh) /\ sh.kind # "empty" THEN Append(base, id) ELSE base]
       /\ reached' = reached \cup WriteReaches(St, lg)
       /\ last' = [a |-> "Write", lg |-> lg, exc |-> "", pre |-> St]
       /\ Note("Write", lg, "", sh, 0)

SetCutoff(c) ==
    /\ cutoff' = c
    /\ last' = [a |-> "SetCutoff", lg |-> "", exc |-> "", pre |-> St]
    /\ Note("SetCutoff", "", "", NoShape, c)
    /\ UNCHANGED << handles, fileOf, exists, content, text, opaque, want, reached >>

Cleanup ==
    /\ Becomes(CleanupOp(St))
    /\ last' = [a |-> "Cleanup", lg |-> "", exc |-> "", pre |-> St]
    /\ Note("Cleanup", "", "", NoShape, 0)
    /\ UNCHANGED << want, reached >>

Main(b, k) ==
    LET s0 == IF b = "none" THEN St ELSE RegisterStandardOp(St, b)
        fresh == { s0.fileOf[lg] : lg \in { l \in MainWrites(s0, k) : s0.handles[l] = "registered" } }
    IN /\ Count("Main") < MaxMains
       /\ Becomes(MainOp(St, b, k))
       /\ want' = [f \in Files |-> IF f \in fresh THEN << >> ELSE want[f]]
       /\ reached' = reached \cup MainReaches(St, b, k)
       /\ last' = [a |-> "Main", lg |-> "", exc |-> IF k = "fails" THEN "raises" ELSE "", pre |-> St]
       /\ Note("Main", "", b, [NoShape EXCEPT !.kind = k], 0)

Next ==
    \/ \E lg \in RegLogs : Register(lg)
    \/ \E b \in StdBases : RegisterStandard(b)
    \/ \E lg \in WriteLogs, sh \in Shapes : Write(lg, sh)
    \/ \E c \in Cutoffs : c # cutoff /\ SetCutoff(c)
    \/ ({lg \in AllLogs : handles[lg] # "none"} # {}) /\ Cleanup
    \/ \E b \in MainBases, k \in MainKinds : Main(b, k)

Spec == Init /\ [][Next]_vars

----------------------------------------------------------------------------
(* the extension's properties *)

(* the file of a log contains exactly the accepted messages, in call order *)
Log_OrderPreserved == \A f \in Files : content[f] = want[f]

(* Logger() to a log that is not registered does nothing at all *)
Log_UnregisteredEaten ==
    (last.a = "Write" /\ last.pre.handles[last.lg] = "none") => (last.exc = "" /\ St = last.pre)

(* registering creates no file: a file exists only if a Logger() call was addressed to a log registered on it *)
Log_FileCreatedLazily ==
    /\ \A f \in Files : exists[f] <=> f \in reached
    /\ last.a \in {"Register", "RegisterStandard"} =>
          (exists = last.pre.exists /\ content = last.pre.content /\ text = last.pre.text)

(* cleanup() (also the one main() ends with) forgets every registration, files keep what was written *)
Log_CleanupForgets ==
    /\ last.a \in {"Cleanup", "Main"} => \A lg \in AllLogs : handles[lg] = "none" /\ fileOf[lg] = NoFile
    /\ last.a = "Cleanup" => (exists = last.pre.exists /\ content = last.pre.content /\ text = last.pre.text)

(* a registered log cannot be registered again: ValueError, nothing changes; register_standard_logs skips it *)
Log_ReRegisterRejected ==
    /\ last.a = "Register" =>
          IF last.pre.handles[last.lg] # "none" THEN last.exc = "ValueError" /\ St = last.pre
          ELSE last.exc = "" /\ handles[last.lg] = "registered"
    /\ last.a = "RegisterStandard" =>
          \A lg \in AllLogs : last.pre.handles[lg] # "none" =>
                (handles[lg] = last.pre.handles[lg] /\ fileOf[lg] = last.pre.fileOf[lg])

TypeOK ==
    /\ \A lg \in AllLogs : /\ handles[lg] \in {"none", "registered", "open"}
                           /\ (handles[lg] = "none") <=> (fileOf[lg] = NoFile)
                           /\ fileOf[lg] \in Files \cup {NoFile}
    /\ \A f \in Files : exists[f] \in BOOLEAN /\ (~exists[f] => content[f] = << >> /\ text[f] = "")
    /\ \A l1, l2 \in AllLogs : (l1 # l2 /\ handles[l1] # "none" /\ handles[l2] # "none") => fileOf[l1] # fileOf[l2]
    /\ Len(hist) <= MaxHist
=============================================================================
