------------------------------- MODULE Table -------------------------------
(* sfc_models/utils.py TimeSeriesHolder (GetSeriesList, AppendValue, GenerateCSVtext) and  *)
(* the table EquationSolver.GenerateCSVtext() / Model.main() produce from it.             *)
(*                                                                                        *)
(* Names are sequences of code points, so that "ascending by code point" (what Python's   *)
(* list.sort() does on str) is definable: Less(a, b) is the lexicographic order.          *)
(*                                                                                        *)
(* One action per public call; they interleave freely: a holder is mutated, asked for its  *)
(* column list, rendered, mutated again, rendered again ... and every table is judged      *)
(* against what the holder stores AT THAT MOMENT:                                          *)
(*   Create(a)           TimeSeriesHolder(a): the constructor argument names the holder's   *)
(*                       time axis ('k' for results, 'iteration' for the solver's step      *)
(*                       trace).  It is state and changes NOTHING about the table: the       *)
(*                       priority order is the documented literal one, whatever the axis is  *)
(*                       called (a step trace stores a k column too).  A solve hands over    *)
(*                       the solver's own holder, whose axis is 'k'.                         *)
(*   Put(n, len, kind)   AppendValue path: create the series n with len values (an empty   *)
(*                       one by holder[n] = []), or extend it to len values; kind "int":   *)
(*                       every value is a Python int, "num": ints and floats               *)
(*   Store(n, len, kind) item assignment holder[n] = [v1 .. vlen]: creates the series or   *)
(*                       REPLACES it (this is how the solver itself, the tests and users   *)
(*                       fill a holder; it does not go through AppendValue)                *)
(*   Delete(n)           del holder[n]                                                     *)
(*   List                GetSeriesList()  (a query: no table, nothing stored changes)      *)
(*   Condition(n, sp)    the equation block carries an initial condition "n(0) = v" (sp:   *)
(*                       spelled "n (0) = v", which the parser files under the key "n ").  *)
(*                       n may be a variable of the block or a name that has no equation   *)
(*                       (a condition left behind when the equation was deleted): the      *)
(*                       library tolerates that, and such a condition stores NO series -   *)
(*                       the stored series are the model's variables, each horizon+1 long. *)
(*   Block(V)            solver.ParseString(<a block over the variables V>) on the solver   *)
(*                       object - the first block, or ANOTHER block on a solver that has    *)
(*                       already solved one.  The next Solve is over V: its results REPLACE  *)
(*                       what the holder held (no series of the earlier block survives);    *)
(*                       the MaxTime line belongs to the text, so a new block un-states the  *)
(*                       block horizon, while what was set on the solver object (MaxTime,    *)
(*                       TraceStep, steady state) stays.  Without a Block the Solve is over  *)
(*                       the names stored so far (each with its initial value).              *)
(*   SetTrace(w)         solver.TraceStep = a period inside (1..horizon) / outside the     *)
(*                       horizon, set before the solve (convergence tracing of that step)  *)
(*   SetSteady           solver.ParameterSolveInitialSteadyState = True before the solve    *)
(*                       Options change how the solver works, never what the results are   *)
(*                       made of: whatever options are on, a successful solve leaves       *)
(*                       exactly the model's variables plus k and t, each horizon+1 long.  *)
(*   StateHorizon(place, h)  the user states the horizon h: place "block" = a MaxTime line  *)
(*                       in the equation text, "model" = Model.MaxTime (which Model.main()   *)
(*                       writes as the MaxTime line of the block it generates), "solver" =   *)
(*                       EquationSolver.MaxTime set on the solver object before the text is  *)
(*                       parsed.  The horizon of the solve is the one stated on the solver   *)
(*                       if any (0 IS a horizon: the initial period only), else the one of   *)
(*                       the block, else 0 (Effective).                                      *)
(*   Solve(vars)         EquationSolver.SolveEquation() succeeded over the stored names and  *)
(*                       vars: every series, and the time axes k and t the solver always     *)
(*                       adds, then have h+1 values, h the STATED horizon - not whatever     *)
(*                       horizon the solver ended up using                                   *)
(*   SolveFailed(obs)    SolveEquation() raised; the series are left as observed           *)
(*   Render(fmt)         GenerateCSVtext(<format string of class fmt>)                     *)
(* A mutation invalidates the last table (table = NoTable: it described the holder as it   *)
(* was) and ends the "after a successful solve" regime: once the user has changed the      *)
(* solver's holder, only "rows = shortest series" is demanded, not horizon+1.              *)
(*                                                                                        *)
(* PutOp / SolveOp / RenderOp are the single source of truth: the actions below and the   *)
(* trace specification Table_Trace use them.  RenderOp *computes* the table; the property *)
(* C19 is stated *declaratively* (HeaderOK, RowsOK, CellsFromSeries) and TLC checks that   *)
(* the computed table satisfies it in every reachable state of the bounded instance.      *)
(* Numeric fidelity of a cell ("parses back within the precision of the format") is not   *)
(* expressible here: the driver computes it per cell and logs a Boolean (Table_Trace).    *)
EXTENDS Integers, Sequences, FiniteSets, TLC

CONSTANTS
    Names,          \* names usable in Put (each a sequence of code points)
    MaxLen,         \* Put lengths are 0..MaxLen
    MaxNames,       \* bound on the number of stored series
    Horizons,       \* horizons usable in StateHorizon
    FormatSeq,      \* sequence of format classes usable in Render
    MaxOps          \* bound on the length of a history (Next only)

Kinds == {"int", "num"}            \* what a stored series is: int-only, or ints and floats
(* what a Put / Store may bring: "twin" = values that are EQUAL but differ in type or in the sign of  *)
(* zero (0.0 next to -0.0; 1 next to 1.0 and True; 2 next to 2.0): each cell is its own stored value  *)
(* in the requested format, never the text of an equal one.  Stored, such a series is "num".          *)
PutKinds == {"int", "num", "twin"}
StoredKind(kind) == IF kind = "twin" THEN "num" ELSE kind
IntOnlyFormats == {"d"}         \* '%d' is only meaningful on int-only series

----------------------------------------------------------------------------
(* names *)
Iteration          == << 105, 116, 101, 114, 97, 116, 105, 111, 110 >>
IterationError     == Iteration \o << 95, 101, 114, 114, 111, 114 >>
IterationAbsChange == Iteration \o << 95, 97, 98, 115, 95, 99, 104, 97, 110, 103, 101 >>
NmK == << 107 >>
NmT == << 116 >>

(* the documented priority order: TimeSeriesHolder.SortPriority *)
Priority == << Iteration, IterationError, IterationAbsChange, NmK, NmT >>
PrioritySet == { Priority[i] : i \in 1..Len(Priority) }
PriIdx(n) == CHOOSE i \in 1..Len(Priority) : Priority[i] = n

(* strict lexicographic order on sequences of code points *)
Less(a, b) ==
    \E i \in 1..Len(b) :
        /\ \A j \in 1..(i - 1) : j <= Len(a) /\ a[j] = b[j]
        /\ (i > Len(a) \/ a[i] < b[i])

Range(s) == { s[i] : i \in 1..Len(s) }

----------------------------------------------------------------------------
(* the property, on a header h / row count r / cell-source grid for a holder H *)
HeaderOK(h, S) ==
    /\ Len(h) = Cardinality(S)
    /\ Range(h) = S                                     \* with the line above: each stored name exactly once
    /\ LET np == Cardinality(S \cap PrioritySet) IN
       /\ \A i \in 1..np : h[i] \in PrioritySet          \* priority names first ...
       /\ \A i \in 1..np : \A j \in 1..np : i < j => PriIdx(h[i]) < PriIdx(h[j])    \* ... in priority order
       /\ \A i \in (np + 1)..(Len(h) - 1) : Less(h[i], h[i + 1])                   \* the rest ascending

RowsOK(r, H) ==
    IF DOMAIN H = {} THEN r = 0
    ELSE /\ \A n \in DOMAIN H : H[n].len >= r
         /\ \E n \in DOMAIN H : H[n].len = r            \* = length of the shortest series

CellsFromSeries(tb, H) ==
    /\ Len(tb.src) = tb.rows
    /\ \A i \in 1..tb.rows :
         /\ Len(tb.src[i]) = Len(tb.header)
         /\ \A j \in 1..Len(tb.header) :
              /\ tb.src[i][j] = [series |-> tb.header[j], index |-> i]
              /\ i <= H[tb.header[j]].len

----------------------------------------------------------------------------
(* what the code computes *)
RECURSIVE SortedSeq(_)
SortedSeq(S) ==
    IF S = {} THEN << >>
    ELSE LET m == CHOOSE x \in S : \A y \in S : ~Less(y, x)
         IN << m >> \o SortedSeq(S \ {m})

RequiredHeader(S) ==
    SelectSeq(Priority, LAMBDA p : p \in S) \o SortedSeq(S \ PrioritySet)

MinLen(H) ==
    IF DOMAIN H = {} THEN 0
    ELSE LET L == { H[n].len : n \in DOMAIN H }
         IN CHOOSE m \in L : \A x \in L : m <= x

NoTable == [done |-> FALSE, fmt |-> "", header |-> << >>, rows |-> 0, src |-> << >>]

RenderOp(H, fmt) ==
    LET hd == RequiredHeader(DOMAIN H)
        r  == MinLen(H)
    IN [done |-> TRUE, fmt |-> fmt, header |-> hd, rows |-> r,
        src |-> [i \in 1..r |-> [j \in 1..Len(hd) |-> [series |-> hd[j], index |-> i]]]]

JoinKind(a, b) == IF a = "int" /\ b = "int" THEN "int" ELSE "num"

PutOp(H, n, len, kind) ==
    [m \in DOMAIN H \cup {n} |->
        IF m # n THEN H[m]
        ELSE IF n \in DOMAIN H THEN [len |-> len, kind |-> JoinKind(H[n].kind, StoredKind(kind))]
        ELSE [len |-> len, kind |-> IF len = 0 THEN "int" ELSE StoredKind(kind)]]     \* no value: vacuously int-only

StoreOp(H, n, len, kind) ==
    [m \in DOMAIN H \cup {n} |->
        IF m # n THEN H[m] ELSE [len |-> len, kind |-> IF len = 0 THEN "int" ELSE StoredKind(kind)]]

DeleteOp(H, n) == [m \in DOMAIN H \ {n} |-> H[m]]

SolveOp(H, vs, h) ==
    [m \in DOMAIN H \cup vs \cup {NmK, NmT} |-> [len |-> h + 1, kind |-> "num"]]

LensOf(H) == [n \in DOMAIN H |-> H[n].len]
AllInt(H) == \A n \in DOMAIN H : H[n].kind = "int"

----------------------------------------------------------------------------
VARIABLES phase,     \* "build" | "run" (the holder is a solver's, after a solve)
          holder,    \* [stored name -> [len, kind]]
          solved,    \* [is, horizon]: SolveEquation() succeeded with this horizon and the holder is untouched since
          table,     \* the table of the last Render, NoTable once the holder has been changed
          stated,    \* [block, solver]: where a horizon has been stated, each [is, h]
          conds,     \* initial conditions written into the equation block: set of [name, sp]
          opts,      \* solver options set before the solve: [trace, steady]
          pending,   \* [is, vars]: a block over vars has been parsed and not yet solved
          axis,      \* the constructor argument of the holder (name of its time axis)
          hist       \* history of calls (see Op)

vars == << phase, holder, solved, table, stated, conds, opts, pending, axis, hist >>

NoPending == [is |-> FALSE, vars |-> {}]

NoOpts == [trace |-> "none", steady |-> FALSE]
TraceWheres == {"inside", "outside"}

Op(op, n, len, kind, fmt, h) ==
    [op |-> op, name |-> n, len |-> len, kind |-> kind, fmt |-> fmt, h |-> h, place |-> "", sp |-> FALSE, vars |-> << >>]
Places == {"block", "model", "solver"}
NoHorizon == [is |-> FALSE, h |-> 0]
Unstated == [block |-> NoHorizon, solver |-> NoHorizon]
Effective(st) == IF st.solver.is THEN st.solver.h ELSE IF st.block.is THEN st.block.h ELSE 0
MutOps == {"put", "store", "del", "solve", "solvefail"}
ObsOps == {"list", "render"}

NotSolved == [is |-> FALSE, horizon |-> 0]
EmptyHolder == [n \in {} |-> [len |-> 0, kind |-> "int"]]

Init == /\ phase = "build" /\ holder = EmptyHolder /\ solved = NotSolved
        /\ table = NoTable /\ stated = Unstated /\ conds = {} /\ opts = NoOpts /\ pending = NoPending /\ axis = NmK /\ hist = << >>

Create(a) ==
    /\ hist = << >>
    /\ axis' = a
    /\ hist' = Append(hist, Op("create", a, 0, "int", "", 0))
    /\ UNCHANGED << phase, holder, solved, table, stated, conds, opts, pending >>

Put(n, len, kind) ==
    /\ n \in DOMAIN holder => len > holder[n].len
    /\ Cardinality(DOMAIN holder \cup {n}) <= MaxNames
    /\ holder' = PutOp(holder, n, len, kind)
    /\ table' = NoTable /\ solved' = NotSolved
    /\ hist' = Append(hist, Op("put", n, len, kind, "", 0))
    /\ UNCHANGED << phase, stated, conds, opts, pending >>
    /\ UNCHANGED axis

Store(n, len, kind) ==
    /\ Cardinality(DOMAIN holder \cup {n}) <= MaxNames
    /\ holder' = StoreOp(holder, n, len, kind)
    /\ table' = NoTable /\ solved' = NotSolved
    /\ hist' = Append(hist, Op("store", n, len, kind, "", 0))
    /\ UNCHANGED << phase, stated, conds, opts, pending >>
    /\ UNCHANGED axis

Delete(n) ==
    /\ n \in DOMAIN holder
    /\ holder' = DeleteOp(holder, n)
    /\ table' = NoTable /\ solved' = NotSolved
    /\ hist' = Append(hist, Op("del", n, 0, "int", "", 0))
    /\ UNCHANGED << phase, stated, conds, opts, pending >>
    /\ UNCHANGED axis

List ==
    /\ hist' = Append(hist, Op("list", << >>, 0, "int", "", 0))
    /\ UNCHANGED << phase, holder, solved, table, stated, conds, opts, pending >>
    /\ UNCHANGED axis

Condition(n, sp) ==
    /\ phase = "build"
    /\ conds' = conds \cup {[name |-> n, sp |-> sp]}
    /\ hist' = Append(hist, [Op("cond", n, 0, "num", "", 0) EXCEPT !.sp = sp])
    /\ UNCHANGED << phase, holder, solved, table, stated, opts, pending >>
    /\ UNCHANGED axis

SetTrace(w) ==
    /\ phase = "build"
    /\ w = "inside" => Effective(stated) >= 1
    /\ opts' = [opts EXCEPT !.trace = w]
    /\ hist' = Append(hist, [Op("trace", << >>, 0, "int", "", 0) EXCEPT !.place = w])
    /\ UNCHANGED << phase, holder, solved, table, stated, conds, pending >>
    /\ UNCHANGED axis

SetSteady ==
    /\ phase = "build"
    /\ opts' = [opts EXCEPT !.steady = TRUE]
    /\ hist' = Append(hist, Op("steady", << >>, 0, "int", "", 0))
    /\ UNCHANGED << phase, holder, solved, table, stated, conds, pending >>
    /\ UNCHANGED axis

StateHorizon(place, h) ==
    /\ phase = "build"
    /\ stated' = IF place = "solver" THEN [stated EXCEPT !.solver = [is |-> TRUE, h |-> h]]
                                     ELSE [stated EXCEPT !.block = [is |-> TRUE, h |-> h]]
    /\ hist' = Append(hist, [Op("horizon", << >>, 0, "int", "", h) EXCEPT !.place = place])
    /\ UNCHANGED << phase, holder, solved, table, conds, opts, pending >>
    /\ UNCHANGED axis

Block(V) ==
    /\ pending' = [is |-> TRUE, vars |-> V]
    /\ phase' = "build"
    /\ conds' = {}
    /\ stated' = [stated EXCEPT !.block = NoHorizon]
    /\ hist' = Append(hist, [Op("block", << >>, 0, "num", "", 0) EXCEPT !.vars = SortedSeq(V)])
    /\ UNCHANGED << holder, solved, table, opts >>
    /\ UNCHANGED axis

(* SetInitialConditions builds a NEW holder: every variable gets one value, each step appends one *)
Solve(vs) ==
    /\ phase = "build"
    /\ ~pending.is => \A n \in DOMAIN holder : holder[n].len = 1
    /\ holder' = IF pending.is THEN SolveOp(EmptyHolder, pending.vars \cup vs, Effective(stated))
                               ELSE SolveOp(holder, vs, Effective(stated))
    /\ solved' = [is |-> TRUE, horizon |-> Effective(stated)]
    /\ phase' = "run"
    /\ table' = NoTable
    /\ pending' = NoPending
    /\ hist' = Append(hist, Op("solve", << >>, 0, "num", "", Effective(stated)))
    /\ UNCHANGED << stated, conds, opts >>
    /\ axis' = NmK

SolveFailed(obs) ==
    /\ phase = "build"
    /\ holder' = obs
    /\ solved' = NotSolved
    /\ phase' = "run"
    /\ table' = NoTable
    /\ pending' = NoPending
    /\ hist' = Append(hist, Op("solvefail", << >>, 0, "num", "", 0))
    /\ UNCHANGED << stated, conds, opts >>
    /\ axis' = NmK

Render(fmt) ==
    /\ fmt \in IntOnlyFormats => AllInt(holder)
    /\ table' = RenderOp(holder, fmt)
    /\ hist' = Append(hist, Op("render", << >>, 0, "int", fmt, 0))
    /\ UNCHANGED << phase, holder, solved, stated, conds, opts, pending >>
    /\ UNCHANGED axis

Next == /\ Len(hist) < MaxOps
        /\ \/ \E n \in Names, len \in 0..MaxLen, kind \in PutKinds : Put(n, len, kind) \/ Store(n, len, kind)
           \/ \E n \in Names : Delete(n)
           \/ List
           \/ \E n \in Names, sp \in BOOLEAN : Condition(n, sp)
           \/ \E h \in Horizons, pl \in Places : StateHorizon(pl, h)
           \/ \E a \in Names : Create(a)
           \/ \E V \in SUBSET Names : Block(V)
           \/ \E w \in TraceWheres : SetTrace(w)
           \/ SetSteady
           \/ Solve({})
           \/ \E i \in 1..Len(FormatSeq) : Render(FormatSeq[i])

Spec == Init /\ [][Next]_vars

----------------------------------------------------------------------------
(* C19 *)
C19_Header == table.done => HeaderOK(table.header, DOMAIN holder)

C19_RowCount ==
    table.done => /\ RowsOK(table.rows, holder)
                  /\ solved.is => table.rows = solved.horizon + 1

C19_CellIsFormattedValue == table.done => CellsFromSeries(table, holder)

(* what C19_RowCount rests on after a solve: a condition never adds a series, every series is complete *)
SolvedHolderComplete == solved.is => \A n \in DOMAIN holder : holder[n].len = solved.horizon + 1

TypeOK == /\ phase \in {"build", "run"}
          /\ \A n \in DOMAIN holder : holder[n].len \in Nat /\ holder[n].kind \in Kinds
          /\ Cardinality(DOMAIN holder) <= MaxNames + 2
          /\ Len(hist) <= MaxOps
          /\ (solved.is /\ ~pending.is /\ phase = "run") => solved.horizon = Effective(stated)
          /\ table.done => hist # << >> /\ hist[Len(hist)].op \in ObsOps \cup {"horizon", "cond", "trace", "steady", "block"}
          /\ phase = "run" => axis = NmK
=============================================================================
