-------------------------- MODULE MC_Horizon_Trace --------------------------
(* Instance for batched trace validation: the configurations come from the log. *)
EXTENDS Horizon_Trace
NoConfigs == {}
=============================================================================
