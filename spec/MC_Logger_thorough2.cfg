SPECIFICATION Spec
CONSTANTS
  StdLogs <- MC_StdLogs
  OtherLogs <- MC_OtherLogs
  Bases <- MC_Bases
  RegLogs <- MC_RegOne
  StdBases <- MC_B1
  MainBases <- MC_None
  WriteLogs <- MC_RegOne
  Shapes <- MC_ShapesAll
  Cutoffs <- MC_CutAll
  DefaultCutoff = 10
  MainLogs <- MC_MainLogs
  MainGate = "log"
  MainAlways <- MC_MainAlways
  MainKinds <- MC_KindsBoth
  MaxHist = 4
  MaxWrites = 3
  MaxMains = 0
INVARIANT TypeOK
INVARIANT Log_OrderPreserved
INVARIANT Log_UnregisteredEaten
INVARIANT Log_FileCreatedLazily
INVARIANT Log_CleanupForgets
INVARIANT Log_ReRegisterRejected
CONSTRAINT StartsRegistered
CONSTRAINT Emit
CHECK_DEADLOCK FALSE
