------------------------- MODULE MC_Reduction_Trace -------------------------
EXTENDS Reduction_Trace
MC_NoVars == << >>
MC_NoSets == << >>
MC_NoPaths == [x \in {} |-> << >>]
MC_LineAny(i, d, ic, a, c) == TRUE
MC_SolveAny(ss, st) == TRUE
MC_EditAny(ed, st) == TRUE
=============================================================================
