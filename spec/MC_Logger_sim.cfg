SPECIFICATION Spec
CONSTANTS
  StdLogs <- MC_StdLogs
  OtherLogs <- MC_OtherLogs
  Bases <- MC_Bases
  RegLogs <- MC_RegSim
  StdBases <- MC_Bases
  MainBases <- MC_MainAll
  WriteLogs <- MC_WriteSim
  Shapes <- MC_ShapesAll
  Cutoffs <- MC_CutAll
  DefaultCutoff = 10
  MainLogs <- MC_MainLogs
  MainGate = "log"
  MainAlways <- MC_MainAlways
  MainKinds <- MC_KindsBoth
  MaxHist = 10
  MaxWrites = 10
  MaxMains = 2
INVARIANT TypeOK
INVARIANT Log_OrderPreserved
INVARIANT Log_UnregisteredEaten
INVARIANT Log_FileCreatedLazily
INVARIANT Log_CleanupForgets
INVARIANT Log_ReRegisterRejected
CONSTRAINT Emit
CHECK_DEADLOCK FALSE
