SPECIFICATION TraceSpec
CONSTANTS
  Cap = 0
  Horizon = 0
  AsFound_NaNExitsLoop = FALSE
  AsFound_DecorativeAfterAppend = FALSE
  AsFound_NoSweepAtBigTolerance = FALSE
  MaxRetries = 9
  CapBoost = 0
  SweepAlphabet = {}
  DecoAlphabet = {}
  BigChoices = {}
  ZeroChoices = {}
  ZeroToleranceFallsBack = FALSE
  LaggedRecordedAtSetup = FALSE
  Hyp_NoCap = FALSE
POSTCONDITION AllConsumed
CHECK_DEADLOCK FALSE
