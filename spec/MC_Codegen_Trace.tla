------------------------- MODULE MC_Codegen_Trace -------------------------
(* Trace-validation instance of Codegen_Trace (constants in MC_Codegen_Trace.cfg). *)
EXTENDS Codegen_Trace
=============================================================================
