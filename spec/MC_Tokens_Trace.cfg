SPECIFICATION TraceSpec
CONSTANTS
  Names <- MC_NamesAll
  Numbers <- MC_NumbersAll
  Strings <- MC_Strings2
  BinOps <- MC_OpsAll
  Maps = {}
  OnePairs = {}
  Routes = {"equation", "block", "shared_block", "shared_each", "cancel_first", "cancel_mid"}
  MaxUnits = 1000
  MinUnits = 0
  MaxDepth = 8
  MaxActs = 1000
  MaxNL = 1000
  MaxLines = 1000
  Signs = {"-", "+"}
  AllowCall = TRUE
  AllowList = TRUE
  AllowGroup = TRUE
  AllowLag = TRUE
POSTCONDITION AllConsumed
CHECK_DEADLOCK FALSE
