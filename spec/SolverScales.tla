----------------------------- MODULE SolverScales -----------------------------
(* C02, the magnitude of the values: a model in very small (or very large) units, or   *)
(* quantities that decay geometrically towards zero, and an equation in which such a   *)
(* value is NOT negligible: the ratio of two quantities of the same scale, a large      *)
(* coefficient, a reciprocal, a growth rate x / x(k-1).                                *)
(*                                                                                    *)
(* A value is m * 10^e (mantissa class m, decimal exponent e) or exactly zero.  After a *)
(* period is solved its values are recorded in the time series; recording must be the  *)
(* identity: what is reported is what was solved (C02_ReportedAsSolved), whatever the  *)
(* scale.  FlushTiny = TRUE models "values below 1e-12 are floating point dust and are *)
(* reported as exact zero": the reported quantities then no longer satisfy the         *)
(* equations in which they are amplified (a/b is reported for the true a while a is    *)
(* reported as 0) - TLC finds the counterexample.                                      *)
(* The replay driver realises every declaration as a real equation block.              *)
EXTENDS Integers, Sequences, TLC, FiniteSets

CONSTANTS Exponents,     \* decimal exponents of the quantity a (b = 30 * a / m)
          FlushTiny      \* FALSE = what the code does

Uses == {"ratio", "bigcoef", "recip", "growth", "sum"}
Paths == {"level", "decay"}           \* constant small units / halving in every period
Places == {"deco", "sim"}             \* the using equation is derived-only / simultaneous
Zero == [m |-> 0, e |-> 0]
Val(m, e) == [m |-> m, e |-> e]
Mag(v) == v.e + (IF v.m >= 10 THEN 1 ELSE 0)          \* floor(log10 |v|)

RecordOp(v) == IF FlushTiny /\ v.m # 0 /\ Mag(v) < -12 THEN Zero ELSE v

(* value of the using expression, as a symbolic quotient / product (exact, no rounding) *)
UseValue(u, a, b, prev) ==
    CASE u = "ratio"   -> IF b.m = 0 THEN << "undefined" >> ELSE << "q", a.m, b.m, a.e - b.e >>
      [] u = "bigcoef" -> << "p", a.m, a.e >>
      [] u = "recip"   -> IF a.m = 0 THEN << "undefined" >> ELSE << "r", a.m, a.e >>
      [] u = "growth"  -> IF prev.m = 0 THEN << "undefined" >> ELSE << "q", a.m, prev.m, a.e - prev.e >>
      [] u = "sum"     -> << "s", a.m, a.e, b.m, b.e >>

NoDecl == [e |-> 0, use |-> "sum", path |-> "level", place |-> "deco", red |-> FALSE]

VARIABLES phase,       \* "init" | "declared" | "solved" | "recorded"
          decl, a, b, prev,        \* solved values of this period (prev: a of the period before)
          repA, repB, repPrev      \* reported values

vars == << phase, decl, a, b, prev, repA, repB, repPrev >>

Init == /\ phase = "init" /\ decl = NoDecl /\ a = Zero /\ b = Zero /\ prev = Zero
        /\ repA = Zero /\ repB = Zero /\ repPrev = Zero

Declare(e, u, p, pl, r) ==
    /\ phase = "init" /\ phase' = "declared"
    /\ decl' = [e |-> e, use |-> u, path |-> p, place |-> pl, red |-> r]
    /\ UNCHANGED << a, b, prev, repA, repB, repPrev >>

Solve == /\ phase = "declared" /\ phase' = "solved"
         /\ a' = Val(1, decl.e) /\ b' = Val(30, decl.e)
         /\ prev' = IF decl.path = "decay" THEN Val(2, decl.e) ELSE Val(1, decl.e)
         /\ UNCHANGED << decl, repA, repB, repPrev >>

Record == /\ phase = "solved" /\ phase' = "recorded"
          /\ repA' = RecordOp(a) /\ repB' = RecordOp(b) /\ repPrev' = RecordOp(prev)
          /\ UNCHANGED << decl, a, b, prev >>

Next == \/ \E e \in Exponents, u \in Uses, p \in Paths, pl \in Places, r \in BOOLEAN : Declare(e, u, p, pl, r)
        \/ Solve \/ Record

Spec == Init /\ [][Next]_vars

TypeOK == phase \in {"init", "declared", "solved", "recorded"} /\ decl.use \in Uses

C02_ReportedAsSolved ==
    phase = "recorded" =>
        /\ repA = a /\ repB = b /\ repPrev = prev
        /\ UseValue(decl.use, repA, repB, repPrev) = UseValue(decl.use, a, b, prev)
=============================================================================
