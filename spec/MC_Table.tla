------------------------------ MODULE MC_Table ------------------------------
(* Bounded instances of Table and behaviour emission.  MCNext is a restriction of         *)
(* Table!Next built from the same actions (every MCNext step is a Next step; the base    *)
(* specification stays unrestricted).  Two ways of cutting the space, chosen by Mode:    *)
(*                                                                                       *)
(* Mode = "grid": many names and lengths, one render block at the end.                   *)
(*   - series are created in the order of PoolOrder, which is deliberately neither the   *)
(*     code-point order nor the priority order (so the insertion order of the real dict  *)
(*     differs from every order the header could legitimately have);                     *)
(*   - only the series put last may be extended, at most MaxExtends times per history    *)
(*     and only in "num" histories;                                                      *)
(*   - all Puts of one history have the same kind; "twin" histories (equal values that    *)
(*     differ in type / sign of zero) have up to MaxRaggedInt series and are rendered     *)
(*     under TwinFormatSeq (%r, %+.3f, %s, %.5g), and are not solved;                     *)
(*   - ragged lengths 0..MaxLen are explored for up to MaxRagged series (MaxRaggedInt    *)
(*     when the values are ints); larger name sets (every subset of the pool) are        *)
(*     explored with one value per series, which is also the state Solve starts from;    *)
(*   - holders constructed with another axis name (Axes: 'iteration' as the solver's step  *)
(*     trace, 't') are explored over every subset of the pool with one "num" value each;  *)
(*   - Solve only on "num" series created without extension; the renders of a history    *)
(*     are the applicable format classes in the order of FormatSeq.                      *)
(*                                                                                       *)
(* Mode = "edit": few names, every interleaving.  All histories of at most MaxMut        *)
(* mutations (Put by AppendValue, Store by item assignment - creating or replacing, by a *)
(* longer or a shorter list -, Delete, Solve - with the horizon stated nowhere / in the   *)
(* block / on the solver / in both, 0 included -) and exactly MaxObs observations (List = *)
(* GetSeriesList(), Render), in any order, the last observation being a Render; names in *)
(* any order; one kind per history; the format class of the j-th render is fixed         *)
(* (FormatSeq cyclically, "d" replaced when a series is not int-only) so that formats do *)
(* not multiply the histories.                                                           *)
EXTENDS Table, Json

CONSTANTS Mode, MaxRagged, MaxRaggedInt, MaxExtends, PoolOrder, MaxMut, MaxObs, MaxConds, UseOpts, UseBlocks, Axes, FirstKinds, TwinFormatSeq

N_A    == << 65 >>
N_a    == << 97 >>
N_B    == << 66 >>
N_ux   == << 95, 120 >>            \* _x
N_Z1   == << 90, 95, 49 >>         \* Z_1
N_T    == << 84 >>
N_Z    == << 90 >>                 \* prefix of Z_1
N_K    == << 75 >>                 \* upper-case K is not a priority name
N_ab   == << 97, 95, 98 >>         \* a_b

(* 't','Z_1','a','iteration','A','_x','k','B','T' *)
MC_Pool9 == << NmT, N_Z1, N_a, Iteration, N_A, N_ux, NmK, N_B, N_T >>
(* thorough: adds a prefix pair (Z, Z_1), two more priority names and 'K' (not a priority name) *)
MC_Pool9b == << NmT, N_Z1, IterationAbsChange, N_a, Iteration, N_A, IterationError, NmK, N_ux >>
MC_Pool12 == << NmT, N_Z1, N_a, IterationAbsChange, Iteration, N_A, N_ux, NmK, N_B, N_Z, IterationError, N_T >>
MC_Pool12b == << N_K, N_T, IterationError, N_B, NmK, N_ux, N_A, Iteration, N_ab, N_a, N_Z1, NmT >>

(* edit pools: a priority name, names sorting before / after each other, two cases *)
MC_Edit3 == << N_B, NmK, N_a >>
MC_Edit4 == << N_B, NmK, N_a, N_A >>

MC_Names == Range(PoolOrder)
MC_Formats == << "g5", "g12", "f", "e", "d" >>
MC_EditFormats == << "g12", "d", "f", "g5", "e" >>
MC_Horizon1 == {1}
MC_KindsAll == {"int", "num", "twin"}
MC_KindsPlain == {"int", "num"}
MC_TwinFormats == << "r", "pf3", "s", "g5" >>
MC_AxisK == {NmK}
MC_Axes == {NmK, Iteration, NmT}
MC_Horizons_edit == {0, 2}
MC_Horizons_quick == {0, 2}
MC_Horizons_thorough == {0, 1, 3}

PoolIdx(n) == CHOOSE i \in 1..Len(PoolOrder) : PoolOrder[i] = n

OpsOf(S) == SelectSeq(hist, LAMBDA o : o.op \in S)
puts == OpsOf({"put"})
NumRenders == Len(OpsOf({"render"}))
NumObs == Len(OpsOf(ObsOps))
NumMut == Len(OpsOf(MutOps))
NumExtends(ps) == Len(ps) - Cardinality({ ps[i].name : i \in 1..Len(ps) })

----------------------------------------------------------------------------
(* Mode = "grid" *)
(* a "twin" history is rendered under the formats that show the difference between equal values *)
HistTwin == puts # << >> /\ puts[1].kind = "twin"
RequiredRenders == IF HistTwin THEN TwinFormatSeq
                   ELSE SelectSeq(FormatSeq, LAMBDA f : f \notin IntOnlyFormats \/ AllInt(holder))

LastPut == puts[Len(puts)]
PutNames ==
    IF puts = << >> THEN Names
    ELSE { n \in Names : PoolIdx(n) > PoolIdx(LastPut.name) }
         \cup (IF NumExtends(puts) < MaxExtends /\ LastPut.kind = "num" THEN {LastPut.name} ELSE {})
GridKinds == IF axis # NmK THEN {"num"} ELSE IF puts = << >> THEN FirstKinds ELSE {LastPut.kind}
PutLens(n, kind) ==
    IF axis # NmK THEN {1} ELSE
    IF kind = "twin" /\ Cardinality(DOMAIN holder \cup {n}) > MaxRaggedInt THEN {} ELSE
    IF Cardinality(DOMAIN holder \cup {n}) <= (IF kind = "int" THEN MaxRaggedInt ELSE MaxRagged) THEN 0..MaxLen
    ELSE IF \A m \in DOMAIN holder : holder[m].len = 1 THEN {1} ELSE {}

(* holders constructed with another axis name than 'k' (as the solver's step trace is): every *)
(* subset of the pool with one "num" value per series, no solve                                *)
OtherAxis == axis # NmK

GridNext ==
    \/ /\ hist = << >> /\ \E a \in Axes \ {NmK} : Create(a)
    \/ /\ phase = "build" /\ NumRenders = 0 /\ stated = Unstated /\ conds = {}
       /\ \E n \in PutNames : \E kind \in GridKinds : \E len \in PutLens(n, kind) : Put(n, len, kind)
    \/ /\ phase = "build" /\ NumRenders = 0
       /\ axis = NmK /\ ~HistTwin
       /\ \A n \in DOMAIN holder : holder[n].kind = "num"
       /\ NumExtends(puts) = 0
       /\ \A n \in DOMAIN holder : holder[n].len = 1
       /\ \/ /\ stated = Unstated /\ conds = {} /\ puts # << >>            \* the block gives the last variable its initial value
             /\ Condition(LastPut.name, FALSE)
          \/ /\ stated = Unstated /\ ~(conds = {} /\ puts # << >>)
             /\ \E h \in Horizons : StateHorizon("block", h)              \* the block states the horizon
          \/ stated # Unstated /\ Solve({})
    \/ /\ NumRenders < Len(RequiredRenders)
       /\ ~(phase = "build" /\ (stated # Unstated \/ conds # {}))   \* a block being written is followed by the Solve
       /\ Render(RequiredRenders[NumRenders + 1])

GridTerminal == NumRenders > 0 /\ NumRenders = Len(RequiredRenders)

----------------------------------------------------------------------------
(* Mode = "edit" *)
Stores == OpsOf({"put", "store"})
HistKinds == IF Stores = << >> THEN FirstKinds ELSE {Stores[1].kind}
RenderFmt(j) ==
    LET f == FormatSeq[((j - 1) % Len(FormatSeq)) + 1]
    IN IF f \in IntOnlyFormats /\ ~AllInt(holder) THEN FormatSeq[1] ELSE f

(* A solve is prepared by writing the block: at most MaxConds initial conditions - on a     *)
(* stored name (plain or with the space), or on a name of the pool that has no equation -,   *)
(* then the horizon stated nowhere, in the block, on the solver, or in both (block first;    *)
(* with a condition: in the block), then - horizon in the block only, no condition - the   *)
(* solver options TraceStep (inside / outside the horizon) and initial steady state.  Once  *)
(* the preparation has begun the next steps are the   *)
(* rest of it and the Solve, so that it does not interleave with the other calls.            *)
(* a history that parses blocks on the solver object has at most two mutations (the two solves, *)
(* or one solve and one edit of its results)                                                    *)
MutBudget == IF OpsOf({"block"}) # << >> /\ MaxMut > 2 THEN 2 ELSE MaxMut
CanSolve == /\ phase = "build" /\ NumMut < MutBudget /\ NumObs < MaxObs
            /\ \A n \in DOMAIN holder : holder[n].kind = "num" /\ holder[n].len = 1
Configuring == phase = "build" /\ (stated # Unstated \/ conds # {} \/ pending.is)
(* blocks parsed on the solver object itself: the first one on an untouched holder, a second one *)
(* after a solve (whose preparation had no condition and no option); its horizon is stated in    *)
(* the block.  Over every subset of the pool of at most two variables.                            *)
BlockSets == { V \in SUBSET Names : Cardinality(V) <= 2 }
(* options: after the horizon has been stated in the block and nowhere else, without conditions: *)
(* trace (inside / outside), then steady; each at most once                                      *)
OptsAllowed == UseOpts /\ conds = {} /\ stated.block.is /\ ~stated.solver.is
CondChoices == { c \in [name : Names, sp : BOOLEAN] : c.sp => c.name \in DOMAIN holder } \ conds

EditNext ==
    \/ /\ Configuring /\ pending.is
       /\ \/ ~stated.block.is /\ \E h \in Horizons : StateHorizon("block", h)
          \/ stated.block.is /\ Solve({})
    \/ /\ ~Configuring /\ UseBlocks /\ NumMut < 2 /\ NumMut < MaxMut /\ NumObs < MaxObs
       /\ conds = {} /\ opts = NoOpts
       /\ (phase = "run" \/ hist = << >>)
       /\ \E V \in BlockSets : Block(V)
    \/ /\ Configuring /\ ~pending.is
       /\ \/ /\ stated = Unstated /\ Cardinality(conds) < MaxConds
             /\ \E c \in CondChoices : Condition(c.name, c.sp)
          \/ stated = Unstated /\ \E h \in Horizons : StateHorizon("block", h)
          \/ conds = {} /\ opts = NoOpts /\ ~stated.solver.is /\ \E h \in Horizons : StateHorizon("solver", h)
          \/ OptsAllowed /\ opts = NoOpts /\ \E w \in TraceWheres : SetTrace(w)
          \/ OptsAllowed /\ ~opts.steady /\ SetSteady
          \/ ~(conds # {} /\ stated = Unstated) /\ Solve({})
    \/ /\ ~Configuring /\ CanSolve
       /\ \/ MaxConds > 0 /\ \E c \in CondChoices : Condition(c.name, c.sp)
          \/ \E h \in Horizons : StateHorizon("block", h) \/ StateHorizon("solver", h)
          \/ Solve({})
    \/ /\ ~Configuring /\ NumMut < MutBudget /\ NumObs < MaxObs    \* a mutation nobody looks at afterwards is not explored
       /\ \/ \E n \in Names : \E kind \in HistKinds : \E len \in 0..MaxLen :
                Put(n, len, kind) \/ Store(n, len, kind)
          \/ \E n \in DOMAIN holder : Delete(n)
    \/ /\ ~Configuring /\ NumObs < MaxObs - 1 /\ List             \* the last observation is a Render
    \/ /\ ~Configuring /\ NumObs < MaxObs /\ Render(RenderFmt(NumRenders + 1))

EditTerminal == NumObs = MaxObs

----------------------------------------------------------------------------
MCNext == IF Mode = "grid" THEN GridNext ELSE EditNext
MCSpec == Init /\ [][MCNext]_vars

(* every maximal behaviour is printed once, as JSON, for the replay driver *)
Terminal == IF Mode = "grid" THEN GridTerminal ELSE EditTerminal
Emit == Terminal => PrintT(<< "BEH", ToJson([hist |-> hist]) >>)
=============================================================================
