------------------------------ MODULE MC_Table ------------------------------
(* Bounded instances of Table and behaviour emission.                                    *)
(*                                                                                       *)
(* The histories are canonicalised by MCNext, a restriction of Table!Next built from the *)
(* same actions (every MCNext step is a Next step; the base specification stays          *)
(* unrestricted):                                                                        *)
(*   - series are created in the order of PoolOrder, which is deliberately neither the   *)
(*     code-point order nor the priority order (so the insertion order of the real dict  *)
(*     differs from every order the header could legitimately have);                     *)
(*   - only the series put last may be extended, at most MaxExtends times per history    *)
(*     and only in "num" histories;                                                      *)
(*   - all Puts of one history have the same kind;                                       *)
(*   - ragged lengths 0..MaxLen are explored for up to MaxRagged series (MaxRaggedInt    *)
(*     when the values are ints); larger name sets (every subset of the pool) are        *)
(*     explored with one value per series, which is also the state Solve starts from;    *)
(*   - Solve only on "num" series created without extension; the renders of a history    *)
(*     are the applicable format classes in the order of FormatSeq.                      *)
EXTENDS Table, Json

CONSTANTS MaxRagged, MaxRaggedInt, MaxExtends, PoolOrder

N_A    == << 65 >>
N_a    == << 97 >>
N_B    == << 66 >>
N_ux   == << 95, 120 >>            \* _x
N_Z1   == << 90, 95, 49 >>         \* Z_1
N_T    == << 84 >>
N_Z    == << 90 >>                 \* prefix of Z_1
N_K    == << 75 >>                 \* upper-case K is not a priority name
N_ab   == << 97, 95, 98 >>         \* a_b

(* 't','Z_1','a','iteration','A','_x','k','B','T' *)
MC_Pool9 == << NmT, N_Z1, N_a, Iteration, N_A, N_ux, NmK, N_B, N_T >>
(* thorough: adds a prefix pair (Z, Z_1), two more priority names and 'K' (not a priority name) *)
MC_Pool9b == << NmT, N_Z1, IterationAbsChange, N_a, Iteration, N_A, IterationError, NmK, N_ux >>
MC_Pool12 == << NmT, N_Z1, N_a, IterationAbsChange, Iteration, N_A, N_ux, NmK, N_B, N_Z, IterationError, N_T >>
MC_Pool12b == << N_K, N_T, IterationError, N_B, NmK, N_ux, N_A, Iteration, N_ab, N_a, N_Z1, NmT >>

MC_Names == Range(PoolOrder)
MC_Formats == << "g5", "g12", "f", "e", "d" >>
MC_Horizons_quick == {0, 2}
MC_Horizons_thorough == {0, 1, 3}

PoolIdx(n) == CHOOSE i \in 1..Len(PoolOrder) : PoolOrder[i] = n
NumExtends(ps) == Len(ps) - Cardinality({ ps[i].name : i \in 1..Len(ps) })

RequiredRenders == SelectSeq(FormatSeq, LAMBDA f : f \notin IntOnlyFormats \/ AllInt(holder))

LastPut == puts[Len(puts)]
PutNames ==
    IF puts = << >> THEN Names
    ELSE { n \in Names : PoolIdx(n) > PoolIdx(LastPut.name) }
         \cup (IF NumExtends(puts) < MaxExtends /\ LastPut.kind = "num" THEN {LastPut.name} ELSE {})
PutKinds == IF puts = << >> THEN Kinds ELSE {LastPut.kind}
PutLens(n, kind) ==
    IF Cardinality(DOMAIN holder \cup {n}) <= (IF kind = "int" THEN MaxRaggedInt ELSE MaxRagged) THEN 0..MaxLen
    ELSE IF \A m \in DOMAIN holder : holder[m].len = 1 THEN {1} ELSE {}

MCNext ==
    \/ /\ phase = "build"
       /\ \E n \in PutNames : \E kind \in PutKinds : \E len \in PutLens(n, kind) : Put(n, len, kind)
    \/ /\ phase = "build"
       /\ \A n \in DOMAIN holder : holder[n].kind = "num"
       /\ NumExtends(puts) = 0
       /\ \E h \in Horizons : Solve({}, h)
    \/ /\ Len(renders) < Len(RequiredRenders)
       /\ Render(RequiredRenders[Len(renders) + 1])

MCSpec == Init /\ [][MCNext]_vars

(* every maximal behaviour is printed once, as JSON, for the replay driver *)
Terminal == phase = "render" /\ renders = RequiredRenders
Emit == Terminal =>
          PrintT(<< "BEH", ToJson([puts |-> puts, solve |-> solved, renders |-> renders]) >>)
=============================================================================
