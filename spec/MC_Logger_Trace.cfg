SPECIFICATION TraceSpec
CONSTANTS
  StdLogs <- MC_StdLogs
  OtherLogs <- MC_OtherLogs
  Bases <- MC_Bases
  RegLogs <- MC_None
  StdBases <- MC_None
  MainBases <- MC_None
  WriteLogs <- MC_None
  Shapes <- MC_None
  Cutoffs <- MC_None
  DefaultCutoff = 10
  MainLogs <- MC_MainLogs
  MainGate = "log"
  MainAlways <- MC_MainAlways
  MainKinds <- MC_None
  MaxHist = 1000
  MaxWrites = 1000
  MaxMains = 1000
POSTCONDITION AllConsumed
CHECK_DEADLOCK FALSE
