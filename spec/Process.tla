------------------------------ MODULE Process ------------------------------
(* Process-level state of sfc_models: what one Python process accumulates while       *)
(* several models and several equation solvers are built, solved, traced, logged and  *)
(* re-used (property C17).                                                            *)
(*                                                                                    *)
(*   nextId        EconomicObject.ID, the class-level counter (models.py)             *)
(*   logs          Logger.log_file_handles (utils.py): per standard log name          *)
(*                 "none" (not registered) | "reg" (file name) | "open" (file object) *)
(*   mstate, decl, result      per model: life cycle, the ids its sectors received    *)
(*                 and the placeholder names `_<ID>__<var>` handed out before main(); *)
(*                 result = abstract value of what main() computed                    *)
(*   block, varList, series, solved, traceStep, func, reg, rhsFrom, nK, parses        *)
(*                 per EquationSolver: parsed block, cached VariableList, abstract    *)
(*                 TimeSeries, TraceStep, the function table the solver evaluates     *)
(*                 with (func) and what the solver itself registered (reg; the table  *)
(*                 is the solver's OWN state: func = reg), the block whose right-hand *)
(*                 sides the solver iterates for its variables (rhsFrom), number of   *)
(*                 ('k', ..) entries SetInitialConditions appended to Parser.Exogenous*)
(*                                                                                    *)
(* One action per public call:                                                        *)
(*   NewModel(m)      Model() / builder constructor                                   *)
(*   DeclareHead(m)   first part of the declarations (country, first sector(s))        *)
(*   DeclareRest(m)   remaining sectors + the calls that refer to sectors by their id: *)
(*                    GetVariableName before main (placeholder), Sector.AddInitial-    *)
(*                    Condition (Country.LookupSector(int) = FIRST sector with the id),*)
(*                    income exclusions (matched by id).  Other models may be created  *)
(*                    between the two parts.                                           *)
(*   Main(m, lg)      Model.main(base_file_name if lg else None)                      *)
(*   RegisterLogs     Logger.register_standard_logs(base)                             *)
(*   Cleanup          Logger.cleanup()                                                *)
(*   AddFunction(s,f) EquationSolver.AddFunction('f', <body f>): the same NAME with    *)
(*                    different bodies on different solvers                            *)
(*   SetSteady(s, on) <solver>.ParameterSolveInitialSteadyState = on (with a short      *)
(*                    ParameterInitialSteadyStateMaxTime): part of the solver's own     *)
(*                    configuration; every SolveEquation() with it on runs the search   *)
(*   Reparse(s, b)    EquationSolver.ParseString(block b)                              *)
(*   Solve(s)         first SolveEquation() after a parse                             *)
(*   SolveAgain(s)    SolveEquation() again on the same solver                        *)
(*   SetTrace(x, k)   <solver of x>.TraceStep = k   (0 = None)                        *)
(*                                                                                    *)
(* The operators *Op are the single source of truth; the trace specification          *)
(* Process_Trace uses the same actions.                                               *)
EXTENDS Integers, Sequences, FiniteSets, TLC

CONSTANTS
    Models,         \* model names
    Solvers,        \* stand-alone solver names
    Blocks,         \* equation block names
    Shape,          \* Models -> [newIds, headPre, headSectors, sectors, asks, byId, own, horizon]
    BlockInfo,      \* Blocks -> [vars, early, func, horizon, tol, mtLine, tolLine]: a block is a body of equations
                    \* plus OPTIONAL settings lines (MaxTime = .., Err_Tolerance = ..); without a line the
                    \* parser default holds (horizon 0, tolerance "default")
    LogNames,       \* the standard log names
    TraceSteps,     \* values TraceStep may take (0 = None)
    FuncBodies,     \* bodies a user function of the one name the blocks call may have
    MaxHist,        \* bound on the history length
    AsFound_VarListCached,          \* TRUE: VariableList only extracted when empty (pinned code)
    AsFound_TraceBreaksFunctions,   \* TRUE: a traced step of a solver with a user function raises
    Hyp_IdResetPerModel,            \* TRUE: hypothetical design "every Model() restarts the id counter" (never the code;
                                    \* MC_Process_hyp_idreset.cfg shows that it breaks C17_HistoryIndependent)
    Hyp_SharedFunctions,            \* TRUE: hypothetical "one function table for all solvers" (MC_Process_hyp_sharedfunc.cfg)
    Hyp_RhsCachedByName,            \* TRUE: hypothetical "right-hand sides cached per variable name across ParseString"
                                    \* (MC_Process_hyp_rhscache.cfg: breaks C17_ReparseClean)
    Hyp_SteadyOneShot,              \* TRUE: hypothetical "the steady-state option is consumed by the first solve"
                                    \* (MC_Process_hyp_steady.cfg: breaks C17_HistoryIndependent / C17_ResolveIdempotent)
    Hyp_SettingsSurviveReparse,     \* TRUE: hypothetical "MaxTime / Err_Tolerance of the previous block stand unless the new
                                    \* block has a line for them" (MC_Process_hyp_settings.cfg: breaks C17_ReparseClean)
    Hyp_TraceNeedsStepLog           \* TRUE: hypothetical "the step trace is only collected while a 'step' log is registered"
                                    \* (MC_Process_hyp_steplog.cfg: breaks C17_HistoryIndependent)

Holders == Solvers \cup Models      \* everything that owns an EquationSolver

NoBlock  == "none"
NoDecl   == [sectorIds |-> << >>, ph |-> {}, refs |-> {}]
NoResult == [names |-> {}, leaked |-> {}, booked |-> {}]
NoFunc   == "none"
NoSeries == [keys |-> {}, full |-> TRUE, ok |-> TRUE, body |-> NoFunc, own |-> NoFunc, eqs |-> NoBlock,
             ss |-> FALSE, want |-> FALSE, tol |-> "default", hz |-> 0]
NoSettings == [tol |-> "default", hz |-> 0]          \* what a new parser holds
NoStepInfo == [traced |-> FALSE, fresh |-> FALSE]

(* The series GROUPS a solver reports besides the main one: the step trace (TimeSeriesStepTrace, the sweeps of  *)
(* the traced period) and the initial steady-state run.  traced: the last solve iterated its traced period;      *)
(* fresh: the step group then holds the trace of THAT solve.  Whether a 'step' log is registered in the          *)
(* process-wide Logger must not matter.                                                                          *)
StepInfoOp(traced, stepLogRegistered) ==
    [traced |-> traced, fresh |-> traced /\ (~Hyp_TraceNeedsStepLog \/ stepLogRegistered)]

----------------------------------------------------------------------------
(* Logger *)
Touch(lg, n) == IF lg[n] # "none" THEN [lg EXCEPT ![n] = "open"] ELSE lg     \* a write opens a registered file
RegisterLogsOp(lg) == [n \in DOMAIN lg |-> IF lg[n] = "none" THEN "reg" ELSE lg[n]]   \* "already registered" is eaten
CleanupOp(lg) == [n \in DOMAIN lg |-> "none"]

----------------------------------------------------------------------------
(* Models.  Shape[m].sectors: sector codes in declaration order, the first .headSectors  *)
(* of them are created by DeclareHead (after .headPre other objects: country, zone);      *)
(* .asks: set of <<sector index, variable>> whose full name is requested before main()   *)
(* (the sector has no full code yet, so a placeholder that contains its id is handed     *)
(* out); .byId: set of <<sector index, variable>> booked through the sector's id         *)
(* (initial conditions, income exclusions); .own: the variable names the model's own     *)
(* declarations define.                                                                  *)
HeadIds(m) == Shape[m].headPre + Shape[m].headSectors
RestIds(m) == Len(Shape[m].sectors) - Shape[m].headSectors
NewBase(m, cur) == IF Hyp_IdResetPerModel THEN 0 ELSE cur

DeclareHeadOp(m, base) ==
    [sectorIds |-> [i \in 1..Shape[m].headSectors |-> base + Shape[m].headPre + i - 1], ph |-> {}, refs |-> {}]

DeclareRestOp(m, d, base) ==
    LET ids == d.sectorIds \o [i \in 1..RestIds(m) |-> base + i - 1]
    IN [sectorIds |-> ids,
        ph   |-> { << ids[a[1]], a[2] >> : a \in Shape[m].asks },
        refs |-> { << ids[a[1]], a[2] >> : a \in Shape[m].byId }]

PlaceholderText(p) == "_" \o ToString(p[1]) \o "__" \o p[2]
Resolvable(d, p) == \E i \in DOMAIN d.sectorIds : d.sectorIds[i] = p[1]
(* an id is looked up by scanning the sector list: the FIRST sector that carries it answers *)
FirstWith(d, id) == CHOOSE j \in DOMAIN d.sectorIds :
                        /\ d.sectorIds[j] = id
                        /\ \A i \in DOMAIN d.sectorIds : d.sectorIds[i] = id => j <= i
Resolve(m, d, p) == Shape[m].sectors[FirstWith(d, p[1])] \o "__" \o p[2]

(* main(): full codes are generated, every registered placeholder is replaced by the   *)
(* full name of the variable it stands for (Model._FixAliases), what was booked by id   *)
(* lands on the sector the lookup finds, the system is solved.                          *)
MainOp(m, d) ==
    [names  |-> Shape[m].own \cup { IF Resolvable(d, p) THEN Resolve(m, d, p) ELSE PlaceholderText(p) : p \in d.ph },
     leaked |-> { p[1] : p \in { q \in d.ph : ~Resolvable(d, q) } },
     booked |-> { Resolve(m, d, r) : r \in d.refs }]

Expected(m) ==      \* a function of m's own declarations only
    [names |-> Shape[m].own, leaked |-> {},
     booked |-> { Shape[m].sectors[a[1]] \o "__" \o a[2] : a \in Shape[m].byId }]

----------------------------------------------------------------------------
(* Solvers.  BlockInfo[b].vars: the variables of b (without the time axis "k"; blocks   *)
(* may share variable names and give them different right-hand sides);                 *)
(* .early: those that get a full series during SetInitialConditions (exogenous);        *)
(* .func: b calls the user function; .horizon / .tol: the horizon and tolerance b is     *)
(* solved with when it is parsed by a new solver; .mtLine / .tolLine: b states them.    *)
SeriesKeys(b) == BlockInfo[b].vars \cup {"k"}

(* the settings the solver's parser holds after ParseString(b): every parse starts from *)
(* the defaults; only a line of the block changes them                                  *)
SettingsOp(old, b) ==
    LET base == IF Hyp_SettingsSurviveReparse THEN old ELSE NoSettings
    IN [tol |-> IF BlockInfo[b].tolLine THEN BlockInfo[b].tol ELSE base.tol,
        hz  |-> IF BlockInfo[b].mtLine THEN BlockInfo[b].horizon ELSE base.hz]

ParseOp(vl) == IF AsFound_VarListCached THEN vl ELSE {}

(* fn: the function body the solver evaluates with, own: the body the solver itself     *)
(* registered, rf: the block whose right-hand sides it holds from earlier evaluations,  *)
(* ss: the initial steady-state search runs, want: the option as the user set it,       *)
(* sg: the settings (tolerance class, horizon) the parser holds                         *)
SolveOp(b, vl, tr, fn, own, rf, ss, want, sg) ==
    LET used       == IF vl = {} THEN BlockInfo[b].vars ELSE vl      \* ExtractVariableList only when empty
        keys       == used \cup BlockInfo[b].early \cup {"k"}
        complete   == BlockInfo[b].vars \subseteq keys               \* else KeyError in the first step
        evaluates  == sg.hz >= 1 \/ ss                               \* some period is iterated (horizon 0: none)
        noFunction == BlockInfo[b].func /\ fn = NoFunc               \* NameError in the first step
        firstFails == evaluates /\ (~complete \/ noFunction)
        traceFails == ~firstFails /\ AsFound_TraceBreaksFunctions /\ fn # NoFunc /\ tr \in 1..sg.hz
        good       == ~firstFails /\ ~traceFails
    IN [varList |-> used,
        started |-> IF firstFails THEN (IF ss THEN 0 ELSE 1)           \* periods begun: the first one already fails
                                                                       \* (inside the steady-state search if that runs),
                    ELSE IF traceFails THEN tr                         \* the traced one fails,
                    ELSE sg.hz,                                        \* all
        series  |-> [keys |-> keys,
                     full |-> good /\ keys = SeriesKeys(b) /\ sg.hz = BlockInfo[b].horizon,
                     ok   |-> good,
                     body |-> IF BlockInfo[b].func THEN fn ELSE NoFunc,
                     own  |-> IF BlockInfo[b].func THEN own ELSE NoFunc,
                     eqs  |-> IF rf = NoBlock THEN b ELSE rf,
                     ss   |-> ss,
                     want |-> want,
                     tol  |-> sg.tol,
                     hz   |-> sg.hz]]

----------------------------------------------------------------------------
VARIABLES nextId, logs,
          mstate, decl, result,
          block, varList, series, solved, func, reg, rhsFrom, steady, wantSteady, setg, nK, parses,
          traceStep, stepInfo,
          hist

mvars == << mstate, decl, result >>
svars == << block, varList, series, solved, func, reg, rhsFrom, steady, wantSteady, setg, nK, parses >>
vars  == << nextId, logs, mvars, svars, traceStep, stepInfo, hist >>

Init ==
    /\ nextId = 0
    /\ logs = [n \in LogNames |-> "none"]
    /\ mstate = [m \in Models |-> "absent"]
    /\ decl = [m \in Models |-> NoDecl]
    /\ result = [m \in Models |-> NoResult]
    /\ block = [s \in Solvers |-> NoBlock]
    /\ varList = [s \in Solvers |-> {}]
    /\ series = [s \in Solvers |-> NoSeries]
    /\ solved = [s \in Solvers |-> FALSE]
    /\ func = [s \in Solvers |-> NoFunc]
    /\ reg = [s \in Solvers |-> NoFunc]
    /\ rhsFrom = [s \in Solvers |-> NoBlock]
    /\ steady = [s \in Solvers |-> FALSE]
    /\ wantSteady = [s \in Solvers |-> FALSE]
    /\ setg = [s \in Solvers |-> NoSettings]
    /\ nK = [s \in Solvers |-> 0]
    /\ parses = [s \in Solvers |-> 0]
    /\ traceStep = [x \in Holders |-> 0]
    /\ stepInfo = [x \in Holders |-> NoStepInfo]
    /\ hist = << >>

Note(a, x, b, k) == /\ Len(hist) < MaxHist
                    /\ hist' = Append(hist, [a |-> a, x |-> x, b |-> b, k |-> k])

NewModel(m) ==
    /\ mstate[m] = "absent"
    /\ mstate' = [mstate EXCEPT ![m] = "new"]
    /\ nextId' = NewBase(m, nextId) + Shape[m].newIds
    /\ logs' = Touch(logs, "log")                 \* 'EconomicObject Created'
    /\ Note("NewModel", m, "", 0)
    /\ UNCHANGED << decl, result, svars, traceStep, stepInfo >>

DeclareHead(m) ==
    /\ mstate[m] = "new"
    /\ mstate' = [mstate EXCEPT ![m] = "head"]
    /\ decl' = [decl EXCEPT ![m] = DeclareHeadOp(m, nextId)]
    /\ nextId' = nextId + HeadIds(m)
    /\ logs' = Touch(logs, "log")
    /\ Note("DeclareHead", m, "", 0)
    /\ UNCHANGED << result, svars, traceStep, stepInfo >>

DeclareRest(m) ==
    /\ mstate[m] = "head"
    /\ mstate' = [mstate EXCEPT ![m] = "declared"]
    /\ decl' = [decl EXCEPT ![m] = DeclareRestOp(m, decl[m], nextId)]
    /\ nextId' = nextId + RestIds(m)
    /\ logs' = Touch(logs, "log")
    /\ Note("DeclareRest", m, "", 0)
    /\ UNCHANGED << result, svars, traceStep, stepInfo >>

Main(m, lg) ==
    /\ mstate[m] = "declared"
    /\ mstate' = [mstate EXCEPT ![m] = "built"]
    /\ result' = [result EXCEPT ![m] = MainOp(m, decl[m])]
    /\ logs' = CleanupOp(logs)                    \* main() always ends with Logger.cleanup()
    /\ Note("Main", m, "", IF lg THEN 1 ELSE 0)
    /\ stepInfo' = [stepInfo EXCEPT ![m] = StepInfoOp(traceStep[m] \in 1..Shape[m].horizon, lg \/ logs["step"] # "none")]
    /\ UNCHANGED << nextId, decl, svars, traceStep >>

RegisterLogs ==
    /\ logs' = RegisterLogsOp(logs)
    /\ Note("RegisterLogs", "", "", 0)
    /\ UNCHANGED << nextId, mvars, svars, traceStep, stepInfo >>

Cleanup ==
    /\ logs' = CleanupOp(logs)
    /\ Note("Cleanup", "", "", 0)
    /\ UNCHANGED << nextId, mvars, svars, traceStep, stepInfo >>

Reparse(s, b) ==
    /\ b # block[s]
    /\ block' = [block EXCEPT ![s] = b]
    /\ varList' = [varList EXCEPT ![s] = ParseOp(@)]
    /\ solved' = [solved EXCEPT ![s] = FALSE]
    /\ rhsFrom' = [rhsFrom EXCEPT ![s] = IF Hyp_RhsCachedByName THEN @ ELSE NoBlock]   \* a new block brings its own equations
    /\ setg' = [setg EXCEPT ![s] = SettingsOp(@, b)]                                   \* ... and its own settings
    /\ nK' = [nK EXCEPT ![s] = 0]                                   \* new parser object
    /\ parses' = [parses EXCEPT ![s] = @ + 1]
    /\ Note("Reparse", s, b, 0)
    /\ UNCHANGED << nextId, logs, mvars, series, func, reg, steady, wantSteady, traceStep, stepInfo >>   \* Functions and options survive a re-parse

AddFunction(s, f) ==
    /\ f # reg[s]
    /\ reg' = [reg EXCEPT ![s] = f]
    /\ func' = IF Hyp_SharedFunctions THEN [t \in Solvers |-> f] ELSE [func EXCEPT ![s] = f]
    /\ Note("AddFunction", s, f, 0)
    /\ UNCHANGED << nextId, logs, mvars, block, varList, series, solved, rhsFrom, steady, wantSteady, setg, nK, parses, traceStep, stepInfo >>

SetSteady(s, on) ==
    /\ on # wantSteady[s]
    /\ wantSteady' = [wantSteady EXCEPT ![s] = on]
    /\ steady' = [steady EXCEPT ![s] = on]
    /\ Note("SetSteady", s, "", IF on THEN 1 ELSE 0)
    /\ UNCHANGED << nextId, logs, mvars, block, varList, series, solved, func, reg, rhsFrom, setg, nK, parses, traceStep, stepInfo >>

DoSolve(s, name) ==
    LET r == SolveOp(block[s], varList[s], traceStep[s], func[s], reg[s], rhsFrom[s], steady[s], wantSteady[s], setg[s])
    IN /\ varList' = [varList EXCEPT ![s] = r.varList]
       /\ series' = [series EXCEPT ![s] = r.series]
       /\ solved' = [solved EXCEPT ![s] = TRUE]
       /\ nK' = [nK EXCEPT ![s] = @ + 1]        \* SetInitialConditions appends ('k', ..) every time
       /\ steady' = [steady EXCEPT ![s] = IF Hyp_SteadyOneShot THEN FALSE ELSE @]
       /\ logs' = LET l0 == Touch(logs, "log")
                      l1 == IF steady[s] THEN Touch(l0, "steadystate_0") ELSE l0    \* the search dumps its series
                  IN IF traceStep[s] \in 1..r.started THEN Touch(l1, "step") ELSE l1     \* the traced period was begun
       /\ Note(name, s, block[s], 0)
       /\ rhsFrom' = [rhsFrom EXCEPT ![s] = r.series.eqs]
       /\ stepInfo' = [stepInfo EXCEPT ![s] = StepInfoOp(r.series.ok /\ traceStep[s] \in 1..setg[s].hz, logs["step"] # "none")]
       /\ UNCHANGED << nextId, mvars, block, func, reg, wantSteady, setg, parses, traceStep >>

Solve(s)      == block[s] # NoBlock /\ ~solved[s] /\ DoSolve(s, "Solve")
SolveAgain(s) == block[s] # NoBlock /\ solved[s] /\ DoSolve(s, "SolveAgain")

SetTrace(x, k) ==
    /\ k # traceStep[x]
    /\ x \in Models => mstate[x] \in {"new", "head", "declared"}
    /\ traceStep' = [traceStep EXCEPT ![x] = k]
    /\ Note("SetTrace", x, "", k)
    /\ UNCHANGED << nextId, logs, mvars, svars, stepInfo >>

Next ==
    \/ \E m \in Models : NewModel(m) \/ DeclareHead(m) \/ DeclareRest(m) \/ Main(m, TRUE) \/ Main(m, FALSE)
    \/ ({n \in LogNames : logs[n] = "none"} # {}) /\ RegisterLogs
    \/ ({n \in LogNames : logs[n] # "none"} # {}) /\ Cleanup
    \/ \E s \in Solvers : Solve(s) \/ SolveAgain(s) \/ (\E b \in Blocks : Reparse(s, b)) \/ (\E f \in FuncBodies : AddFunction(s, f))
                           \/ (\E on \in BOOLEAN : SetSteady(s, on))
    \/ \E x \in Holders, k \in TraceSteps : SetTrace(x, k)

Spec == Init /\ [][Next]_vars

----------------------------------------------------------------------------
(* C17 *)
C17_HistoryIndependent ==
    /\ \A m \in Models : mstate[m] = "built" => result[m] = Expected(m)
    /\ \A x \in Holders : stepInfo[x].traced => stepInfo[x].fresh      \* the step group is the trace of the traced solve
    /\ \A s \in Solvers : (/\ solved[s] /\ series[s].keys = SeriesKeys(block[s])
                            /\ series[s].hz = BlockInfo[block[s]].horizon /\ series[s].tol = BlockInfo[block[s]].tol) =>
          /\ series[s].body = series[s].own            \* evaluated with what this solver registered itself
          /\ series[s].ss = series[s].want             \* the steady-state search ran iff this solver is configured so
          /\ series[s].ok = ~(/\ BlockInfo[block[s]].func /\ series[s].own = NoFunc     \* fails iff its function is missing
                              /\ (series[s].hz >= 1 \/ series[s].ss))                   \* and something is iterated
          /\ series[s].full = series[s].ok

C17_ReparseClean ==
    \A s \in Solvers : solved[s] => /\ series[s].keys = SeriesKeys(block[s])
                                    /\ series[s].eqs = block[s]        \* no right-hand side of the previous block
                                    /\ series[s].hz = BlockInfo[block[s]].horizon   \* nor its horizon
                                    /\ series[s].tol = BlockInfo[block[s]].tol      \* nor its tolerance

(* action property: solving again (whatever the trace setting is now) leaves the series as they were, *)
(* unless the solver itself was given another function or another option in between                    *)
C17_ResolveIdempotent ==
    [][\A s \in Solvers : (solved[s] /\ solved'[s] /\ block'[s] = block[s] /\ series'[s].own = series[s].own
                             /\ series'[s].want = series[s].want)
                            => series'[s] = series[s]]_vars

TypeOK ==
    /\ nextId \in Nat
    /\ \A n \in LogNames : logs[n] \in {"none", "reg", "open"}
    /\ \A m \in Models : mstate[m] \in {"absent", "new", "head", "declared", "built"}
    /\ \A s \in Solvers : block[s] \in Blocks \cup {NoBlock}
    /\ \A x \in Holders : traceStep[x] \in TraceSteps
    /\ Len(hist) <= MaxHist
=============================================================================
