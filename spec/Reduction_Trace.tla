--------------------------- MODULE Reduction_Trace ---------------------------
(* Trace validation for Reduction.  harness/checks/c03.py records, for one system:     *)
(*   Parse    the declared lines + the lists / tokens ParseString produced              *)
(*   Find     the lists after one real FindExactMatches() call                          *)
(*   Move     the lists and the count after one real MoveDecorative() call              *)
(*   Solve    two real EquationSolver runs (reduction on / off): key sets, the full      *)
(*            series as small integers (or, where not integral, Booleans computed by    *)
(*            the driver), and the partition of the reducing solver's own parser        *)
(*   Numeric  (seeded cyclic contractive systems) the same relation, with the numeric   *)
(*            predicates computed by the driver                                         *)
(* and the events are folded through the operators of Reduction.  One total verdict     *)
(* per trace id:                                                                        *)
(*   property:<clause>  a sentence of C03 is false on the OBSERVED pair of runs         *)
(*   drift:<clause>     the code did something the spec does not predict                *)
EXTENDS Reduction, Json, IOUtils

Log == ndJsonDeserialize(IOEnv.TRACE_FILE)

VARIABLES l, verdict
tvars == << vars, l, verdict >>

Ok == [kind |-> "ok", clause |-> ""]
Prop(c) == [kind |-> "property", clause |-> c]
Drift(c) == [kind |-> "drift", clause |-> c]
Rank(v) == CASE v.kind = "ok" -> 0 [] v.kind = "drift" -> 1 [] v.kind = "property" -> 2
Worse(a, b) == IF Rank(b) > Rank(a) THEN b ELSE a     \* keeps the first of equal rank

ToSet(s) == { s[i] : i \in 1..Len(s) }

(* observed token lists agree with the predicted token sets *)
ToksAgree(obs, st) ==
    \A i \in 1..Len(obs) : obs[i].var \in DOMAIN st.toks /\ ToSet(obs[i].names) = st.toks[obs[i].var]

JudgeParse(e, s) ==
    IF e.endo # s.endo \/ e.lagged # s.lagged \/ e.exo # s.exo \/ ~ToksAgree(e.toks, s)
    THEN Drift("parse") ELSE Ok

JudgeFind(e, before, s) ==
    IF before.phase # "find" THEN Drift("loop")
    ELSE IF e.raised # (s.phase = "error") THEN Drift("find")
    ELSE IF e.raised THEN Ok
    ELSE IF e.endo # s.endo \/ ~ToksAgree(e.toks, s) THEN Drift("find")
    ELSE Ok

JudgeMove(e, before, s) ==
    IF before.phase # "move" THEN Drift("loop")
    ELSE IF e.n # s.moved \/ e.endo # s.endo \/ e.deco # s.deco THEN Drift("move")
    ELSE Ok

(* ---- the observed pair of runs ---- *)
ObsPartitionOK(e, st) ==
    LET en == { e.part.endo[i].var : i \in 1..Len(e.part.endo) }
        dn == { e.part.deco[i].var : i \in 1..Len(e.part.deco) }
        ln == { e.part.lagged[i].var : i \in 1..Len(e.part.lagged) }
        gn == { e.part.exo[i].var : i \in 1..Len(e.part.exo) }
    IN /\ en \cap dn = {} /\ en \cap ln = {} /\ en \cap gn = {} /\ dn \cap ln = {} /\ dn \cap gn = {} /\ ln \cap gn = {}
       /\ Cardinality(en) = Len(e.part.endo) /\ Cardinality(dn) = Len(e.part.deco)
       /\ Cardinality(ln) = Len(e.part.lagged) /\ Cardinality(gn) = Len(e.part.exo)
       /\ en \cup dn \cup ln \cup gn = SysVars(st.orig)

RowEqual(r) == IF r.integral THEN r.on = r.off ELSE \A i \in 1..Len(r.eq) : r.eq[i]

(* observed series = the series the stated semantics gives (binds Sol to the real solver) *)
HasQuo(st) == \E x \in DOMAIN st.orig.endo : st.orig.endo[x].def.kind = "quo"
SolAgrees(e, st) ==
    HasQuo(st) \/
    LET so == SolOptWith(st.orig, e.ss, MaxK, e.T)
        sr == SolOptWith(SysOf(st), e.ss, MaxK, e.T)
    IN Len(so) = MaxK + 1 /\ Len(sr) = MaxK + 1 /\ \A i \in 1..Len(e.rows) :
         LET r == e.rows[i] IN
           r.var \in SysVars(st.orig) =>
             /\ r.integral
             /\ Len(r.on) = MaxK + 1 /\ Len(r.off) = MaxK + 1
             /\ \A k \in 0..MaxK : r.off[k + 1] = so[k + 1][r.var] /\ r.on[k + 1] = sr[k + 1][r.var]

(* the spec predicts whether the two runs return: always without the steady-state option; with it, *)
(* exactly when the system settles - otherwise both raise NoEquilibriumError                       *)
Settles(e, st) == ~e.ss \/ HasQuo(st) \/ SteadyWith(st.orig, e.T).ok

JudgeSolve(e, st) ==
    IF e.ss /\ e.T < Len(st.orig.lagged) + 2 THEN Drift("option")       \* too short for the lags to settle
    ELSE IF ~e.on_ok /\ ~e.off_ok
         THEN IF ~Settles(e, st) /\ e.on_noeq /\ e.off_noeq THEN Ok ELSE Drift("returns")
    \* a simplification that makes a solvable system unsolvable has lost its variables
    ELSE IF e.off_ok /\ ~e.on_ok THEN (IF Settles(e, st) THEN Prop("C03_ReducedRunReturns") ELSE Drift("returns"))
    ELSE IF ~(e.on_ok /\ e.off_ok) THEN Drift("returns")  \* unreduced raises alone: not a statement of C03
    ELSE IF ToSet(e.on_keys) # ToSet(e.off_keys) THEN Prop("C03_SameKeys")
    ELSE IF ~ObsPartitionOK(e, st) THEN Prop("C03_Partition")
    ELSE IF \E i \in 1..Len(e.rows) : ~RowEqual(e.rows[i]) THEN Prop("C03_SameSolution")
    ELSE IF st.phase # "done" THEN Drift("loop")
    ELSE IF ~Settles(e, st) THEN Drift("returns")
    ELSE IF e.part.endo # st.endo \/ e.part.deco # st.deco \/ e.part.lagged # st.lagged \/ e.part.exo # st.exo
         THEN Drift("partition")
    ELSE IF ~SolAgrees(e, st) THEN Drift("sol")
    ELSE Ok

JudgeNumeric(e) ==
    IF e.off_ok /\ ~e.on_ok /\ ~e.on_conv THEN Prop("C03_ReducedRunReturns")   \* raised, and not for lack of sweeps
    ELSE IF ~(e.on_ok /\ e.off_ok) THEN Ok                \* not asserted (convergence is C02/C11's business)
    ELSE IF ~e.keys_equal THEN Prop("C03_SameKeys")
    ELSE IF ~e.part_ok THEN Prop("C03_Partition")
    ELSE IF ~e.k0_equal THEN Prop("C03_SameSolution")
    ELSE IF ~e.within THEN Prop("C03_SameSolution")
    ELSE Ok

TraceInit == Init /\ l = 1 /\ verdict = Ok

TraceNext ==
    /\ l <= Len(Log)
    /\ l' = l + 1
    /\ LET e == Log[l] IN
       \/ /\ e.ev = "Parse"
          \* the first Parse of a trace is the first block, a later one a second block on the same objects;
          \* either way ParseString starts from nothing (ReparseOp = this + the history fields)
          /\ LET s == [ParseAllOp(InitSt, e.decl, 1) EXCEPT !.blk = IF phase = "parse" THEN 1 ELSE 2] IN
                Set(s) /\ verdict' = Worse(verdict, JudgeParse(e, s))
       \/ /\ e.ev = "Find"
          /\ LET s == FindAllOp([St EXCEPT !.phase = IF @ = "error" THEN @ ELSE "find"]) IN
                Set(s) /\ verdict' = Worse(verdict, JudgeFind(e, St, s))
       \/ /\ e.ev = "Move"
          /\ LET s == LoopExitOp(MoveOp(St)) IN
                Set(s) /\ verdict' = Worse(verdict, JudgeMove(e, St, s))
       \/ /\ e.ev = "Solve"
          /\ Set(SolveOp(St, e.ss))
          /\ verdict' = Worse(verdict, JudgeSolve(e, St))
       \/ /\ e.ev = "Numeric"
          /\ UNCHANGED vars
          /\ verdict' = Worse(verdict, JudgeNumeric(e))
       \/ /\ e.ev = "End"
          /\ PrintT(<< "VERDICT", e.tid, verdict.kind \o ":" \o verdict.clause >>)
          /\ Set(InitSt)
          /\ verdict' = Ok

TraceSpec == TraceInit /\ [][TraceNext]_tvars

AllConsumed == TLCGet("stats").diameter - 1 = Len(Log)
=============================================================================
