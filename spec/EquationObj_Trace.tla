------------------------- MODULE EquationObj_Trace -------------------------
EXTENDS EquationObj, Json, IOUtils
Log == ndJsonDeserialize(IOEnv.TRACE_FILE)
VARIABLES l, verdict
tvars == << ovars, l, verdict >>
Ok == [kind |-> "ok", clause |-> ""]
Rank(v) == CASE v.kind = "ok" -> 0 [] v.kind = "drift" -> 1 [] v.kind = "property" -> 2
Worse(a, b) == IF Rank(b) > Rank(a) THEN b ELSE a

Judge(e) ==
    IF ~e.ok THEN [kind |-> "property", clause |-> "C12_RendersValid"]
    \* observed values are twice the value (Equation.tla), the module's coefficients are in half units
    ELSE IF << 2 * e.vals1[1], 2 * e.vals1[2] >> # << OSumAdded(added', Vals[1]), OSumAdded(added', Vals[2]) >>
           \/ << 2 * e.vals2[1], 2 * e.vals2[2] >> # << OSumAdded(added2', Vals[1]), OSumAdded(added2', Vals[2]) >>
         THEN [kind |-> "property", clause |-> "C12_ValuePreserved"]
    ELSE IF e.text1 # ORenderText(terms') \/ e.text2 # ORenderText(terms2')
         THEN [kind |-> "drift", clause |-> "render_text"]
    ELSE Ok

TraceInit == OInit /\ l = 1 /\ verdict = Ok
TraceNext ==
    /\ l <= Len(Log)
    /\ l' = l + 1
    /\ LET e == Log[l] IN
       \/ /\ e.ev = "ObjOp"
          /\ ObjOp(e.op)
          /\ verdict' = Worse(verdict, Judge(e))
       \/ /\ e.ev = "End"
          /\ PrintT(<< "VERDICT", e.tid, verdict.kind \o ":" \o verdict.clause >>)
          /\ terms' = << >> /\ added' = << >> /\ terms2' = << >> /\ added2' = << >> /\ objs' = << >> /\ ops' = << >>
          /\ UNCHANGED << mode, start, lead, jn >>
          /\ verdict' = Ok
TraceSpec == TraceInit /\ [][TraceNext]_tvars
AllConsumed == TLCGet("stats").diameter - 1 = Len(Log)
=============================================================================
