------------------------- MODULE EquationObj_Trace -------------------------
EXTENDS EquationObj, Json, IOUtils
Log == ndJsonDeserialize(IOEnv.TRACE_FILE)
VARIABLES l, verdict
tvars == << ovars, l, verdict >>
Ok == [kind |-> "ok", clause |-> ""]
Rank(v) == CASE v.kind = "ok" -> 0 [] v.kind = "drift" -> 1 [] v.kind = "property" -> 2
Worse(a, b) == IF Rank(b) > Rank(a) THEN b ELSE a

Judge(e) ==
    IF ~e.ok THEN [kind |-> "property", clause |-> "C12_RendersValid"]
    ELSE IF e.vals1 # << SumAdded(added', Vals[1]), SumAdded(added', Vals[2]) >>
           \/ e.vals2 # << SumAdded(added2', Vals[1]), SumAdded(added2', Vals[2]) >>
         THEN [kind |-> "property", clause |-> "C12_ValuePreserved"]
    ELSE IF e.text1 # RenderText(terms') \/ e.text2 # RenderText(terms2')
         THEN [kind |-> "drift", clause |-> "render_text"]
    ELSE Ok

TraceInit == OInit /\ l = 1 /\ verdict = Ok
TraceNext ==
    /\ l <= Len(Log)
    /\ l' = l + 1
    /\ LET e == Log[l] IN
       \/ /\ e.ev = "ObjOp"
          /\ ObjOp(e.op)
          /\ verdict' = Worse(verdict, Judge(e))
       \/ /\ e.ev = "End"
          /\ PrintT(<< "VERDICT", e.tid, verdict.kind \o ":" \o verdict.clause >>)
          /\ terms' = << >> /\ added' = << >> /\ terms2' = << >> /\ added2' = << >> /\ objs' = << >> /\ ops' = << >>
          /\ UNCHANGED << mode, start, lead, jn >>
          /\ verdict' = Ok
TraceSpec == TraceInit /\ [][TraceNext]_tvars
AllConsumed == TLCGet("stats").diameter - 1 = Len(Log)
=============================================================================
