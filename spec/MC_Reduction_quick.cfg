SPECIFICATION Spec
CONSTANTS
  Vars <- MC_Vars3
  KindsAt <- MC_KindsAll3
  ICsAt <- MC_ICsAll3
  LineOK <- MC_LineQuick
  ExoPaths <- MC_ExoPaths
  ConstVal = 5
  MinVars = 1
  MaxK = 2
  SteadyT = 5
  SolveOK <- MC_SolveQuick
  EditOK <- MC_EditQuick
  AsFound_SubstitutesVarWithIC = FALSE
INVARIANT TypeOK
INVARIANT C03_SameSolution
INVARIANT C03_Partition
INVARIANT NoSpuriousLoop
INVARIANT OrigSolvable
CONSTRAINT Emit
CHECK_DEADLOCK FALSE
