SPECIFICATION MCSpec
CONSTANTS
  Names <- MC_Names
  PoolOrder <- MC_Pool12
  MaxLen = 3
  MaxNames = 12
  Mode = "grid"
  MaxOps = 30
  MaxMut = 0
  MaxConds = 0
  UseOpts = FALSE
  UseBlocks = FALSE
  Axes <- MC_Axes
  FirstKinds <- MC_KindsAll
  TwinFormatSeq <- MC_TwinFormats
  MaxObs = 0
  MaxRagged = 3
  MaxRaggedInt = 3
  MaxExtends = 1
  Horizons <- MC_Horizons_thorough
  FormatSeq <- MC_Formats
INVARIANT TypeOK
INVARIANT C19_Header
INVARIANT C19_RowCount
INVARIANT C19_CellIsFormattedValue
INVARIANT SolvedHolderComplete
CONSTRAINT Emit
CHECK_DEADLOCK FALSE
