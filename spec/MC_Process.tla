---------------------------- MODULE MC_Process ----------------------------
(* Bounded instances of Process and behaviour emission.                     *)
EXTENDS Process, ProcessConsts, Json

(* every maximal behaviour that computes at least one result is printed once *)
Produces(h) == \E i \in 1..Len(h) : h[i].a \in {"Main", "Solve", "SolveAgain"}
Terminal == Len(hist) = MaxHist
Emit == (Terminal /\ Produces(hist)) => PrintT(<< "BEH", ToJson([hist |-> hist]) >>)
=============================================================================
