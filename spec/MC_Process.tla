---------------------------- MODULE MC_Process ----------------------------
(* Bounded instances of Process and behaviour emission.                     *)
EXTENDS Process, ProcessConsts, Json

(* every maximal behaviour that computes at least one result is printed once *)
Produces(h) == \E i \in 1..Len(h) : h[i].a \in {"Main", "Solve", "SolveAgain"}
Terminal == Len(hist) = MaxHist
Emit == (Terminal /\ Produces(hist)) => PrintT(<< "BEH", ToJson([hist |-> hist]) >>)

(* instances that mix models and solvers: only the histories in which both a model and a solver compute *)
(* a result (the others are maximal behaviours of the solver-only / model-only instances)               *)
Cross(h) == /\ \E i \in 1..Len(h) : h[i].a = "Main"
            /\ \E i \in 1..Len(h) : h[i].a \in {"Solve", "SolveAgain"}
EmitCross == (Terminal /\ Cross(hist)) => PrintT(<< "BEH", ToJson([hist |-> hist]) >>)
=============================================================================
