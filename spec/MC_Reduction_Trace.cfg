SPECIFICATION TraceSpec
CONSTANTS
  Vars <- MC_NoVars
  KindsAt <- MC_NoSets
  ICsAt <- MC_NoSets
  LineOK <- MC_LineAny
  ExoPaths <- MC_NoPaths
  ConstVal = 0
  MinVars = 0
  MaxK = 3
  SteadyT = 6
  SolveOK <- MC_SolveAny
  EditOK <- MC_EditAny
  AsFound_SubstitutesVarWithIC = FALSE
POSTCONDITION AllConsumed
CHECK_DEADLOCK FALSE
