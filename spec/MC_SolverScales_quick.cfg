SPECIFICATION Spec
CONSTANTS
  Exponents <- MC_Exponents
  FlushTiny = FALSE
INVARIANT TypeOK
INVARIANT C02_ReportedAsSolved
CONSTRAINT Emit
CHECK_DEADLOCK FALSE
