SPECIFICATION TraceSpec
CONSTANTS
  InitStore <- MC_InitStore
  Asks = {}
  RGroups = {}
  VarLists <- MC_VarListsOne
  BaseStore <- MC_BaseStore
  CutArgs = {}
  Fmts = {}
  MaxHist = 1000
  ExtNames <- MC_ExtNone
  MaxTimes <- MC_MaxTimesNone
  NGroups <- MC_NGroupsNone
  MutOps <- MC_MutOpsTwo
  Renames <- MC_RenamesNone
  Reinserts <- MC_ReinsertsNone
  AsFound_AliasWhenNoCutoff = FALSE
  AsFound_PopOnStore = FALSE
  AsFound_BaseCsvDropsT = FALSE
POSTCONDITION AllConsumed
CHECK_DEADLOCK FALSE
