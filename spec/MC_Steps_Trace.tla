---------------------------- MODULE MC_Steps_Trace ----------------------------
EXTENDS Steps_Trace
TraceBlueprints == AllBlueprints
=============================================================================
