---------------------------- MODULE MC_Codegen ----------------------------
(* Bounded instances of Codegen: equation blocks built from a small grammar, and        *)
(* behaviour emission.                                                                   *)
(*                                                                                       *)
(* A block is  v = A v + (lag) + (exogenous) + constant (+ time trend)  over 1-3         *)
(* simultaneous variables x, y, z.  Coefficients are integers in QUARTERS; every row of  *)
(* A has absolute sum <= 2 quarters, i.e. the Jacobi iteration of the generated module   *)
(* contracts with factor <= 0.5 in the max norm.                                         *)
(*   A      n x n, zero diagonal, A[i][j] quarters of variable j in the equation of i    *)
(*   lag    0 none | 1:  + 0.5*LAG_<last>  in equation 1, LAG_<last> = <last>(k-1)       *)
(*                 | 2:  + LAG_<last>      in equation 1, LAG_<last> = <last>(t-1)       *)
(*   ic     <last>(0) = 10.0                                                             *)
(*   exo    0 none | 1:  + G  in equation 1, G a literal list of exactly MaxTime+1       *)
(*                 | 2:  + G, G a list expression of MaxTime+3 values (gets chopped)     *)
(*   cst    constant of equation 1:  0: 2.0 | 1: sqrt(4.0) | 2: c0 with the line c0 = 2.0 *)
(*   userT  "none": the parser injects t = k                                             *)
(*          "endo": t = t_minus_1 + 1.0 and t_minus_1 = t(k-1)                           *)
(*          "exo" : t = [0.0, 1.0, ...] in the exogenous section                         *)
(*   useT   + 0.25*t in the last equation                                                *)
(*   tol    0: no Err_Tolerance line (parser default 1e-8) | 4: Err_Tolerance = 1e-4     *)
(* The replay driver renders the text from these fields (harness/checks/c20.py).         *)
EXTENDS Codegen, Json

CONSTANT Tier      \* "quick" | "thorough" | "tiny": which block set MC_Blocks is (one definition, so
                   \* that TLC does not build the large sets of the other tiers at start-up)

VarNames == << "x", "y", "z" >>
MC_MathNames == {"sqrt", "exp", "log", "floor", "pi"}

Opt(c, s) == IF c THEN s ELSE << >>

(* names read by equation i: the other simultaneous variables with a non-zero coefficient ... *)
OffDiag(A, i) ==
    LET n   == Len(A)
        idx == SelectSeq([ j \in 1..n |-> j ], LAMBDA j : j # i /\ A[i][j] # 0)
    IN [ q \in 1..Len(idx) |-> VarNames[idx[q]] ]

Last(o) == VarNames[o.n]
LagName(o) == "LAG_" \o Last(o)

EqReads(o, i) ==
    OffDiag(o.A, i)
    \o Opt(i = 1 /\ o.lag > 0, << LagName(o) >>)
    \o Opt(i = 1 /\ o.exo > 0, << "G" >>)
    \o Opt(i = 1 /\ o.cst = 1, << "sqrt" >>)
    \o Opt(i = 1 /\ o.cst = 2, << "c0" >>)
    \o Opt(i = o.n /\ o.useT, << "t" >>)

MkBlock(o) ==
    o @@
    [ endo   |-> [ i \in 1..o.n |-> [name |-> VarNames[i], reads |-> EqReads(o, i)] ]
                 \o Opt(o.cst = 2, << [name |-> "c0", reads |-> << >>] >>)
                 \o Opt(o.userT = "endo", << [name |-> "t", reads |-> << "t_minus_1" >>] >>),
      lagged |-> Opt(o.lag > 0, << [name |-> LagName(o), of |-> Last(o)] >>)
                 \o Opt(o.userT = "endo", << [name |-> "t_minus_1", of |-> "t"] >>),
      exos   |-> Opt(o.exo > 0, << [name |-> "G", len |-> IF o.exo = 1 THEN o.maxTime + 1 ELSE o.maxTime + 3] >>)
                 \o Opt(o.userT = "exo", << [name |-> "t", len |-> o.maxTime + 1] >>),
      ics    |-> Opt(o.ic, << Last(o) >>),
      foundT |-> o.userT # "none" ]

----------------------------------------------------------------------------
(* coefficient matrices, in quarters *)
Grid == {-2, -1, 0, 1, 2}
Abs(v) == IF v < 0 THEN 0 - v ELSE v

Mats1 == { << << 0 >> >> }
Mats2 == { << << 0, a >>, << b, 0 >> >> : a, b \in Grid }
RowPairs == { p \in Grid \X Grid : Abs(p[1]) + Abs(p[2]) <= 2 }
(* designed 3x3 matrices: cyclic, triangular, full, with negative entries, decoupled *)
Mats3Few == { << << 0, 1, 1 >>,  << 1, 0, 1 >>,   << 1, 1, 0 >> >>,
              << << 0, 2, 0 >>,  << 0, 0, 2 >>,   << 2, 0, 0 >> >>,
              << << 0, 0, 0 >>,  << 2, 0, 0 >>,   << 1, 1, 0 >> >>,
              << << 0, -1, 1 >>, << 1, 0, -1 >>,  << -1, 1, 0 >> >>,
              << << 0, 0, -2 >>, << 0, 0, 0 >>,   << 1, -1, 0 >> >>,
              << << 0, 1, 0 >>,  << -2, 0, 0 >>,  << 0, 0, 0 >> >>,
              << << 0, 0, 0 >>,  << 0, 0, 0 >>,   << 0, 0, 0 >> >>,
              << << 0, -1, -1 >>, << -1, 0, -1 >>, << -1, -1, 0 >> >> }
(* a mid-sized family: rows from {0, +-1/4} pairs plus single halves, first row fixed *)
Mats3Mid == { << << 0, 1, 1 >>, << r2[1], 0, r2[2] >>, << r3[1], r3[2], 0 >> >> :
              r2, r3 \in { p \in RowPairs : p[1] # -2 /\ p[2] # -2 /\ p[1] + p[2] # 0 } }

BaseMats == { << << 0, 1 >>, << 2, 0 >> >>,
              << << 0, 1, 1 >>, << 1, 0, 1 >>, << 1, 1, 0 >> >> }

OptsOver(M, MT, Tols) ==
    { [n |-> Len(A), A |-> A, lag |-> l, ic |-> c, exo |-> e, cst |-> s, userT |-> u, useT |-> w,
       tol |-> tl, maxTime |-> mt] :
      A \in M, l \in 0..2, c \in BOOLEAN, e \in 0..2, s \in 0..2, u \in {"none", "endo", "exo"},
      w \in BOOLEAN, tl \in Tols, mt \in MT }

(* four option profiles under which every matrix is tried *)
Profiles ==
    { [lag |-> 1, ic |-> TRUE,  exo |-> 2, cst |-> 1, userT |-> "endo", useT |-> TRUE,  tol |-> 0],
      [lag |-> 2, ic |-> FALSE, exo |-> 1, cst |-> 2, userT |-> "none", useT |-> TRUE,  tol |-> 4],
      [lag |-> 0, ic |-> TRUE,  exo |-> 0, cst |-> 0, userT |-> "exo",  useT |-> FALSE, tol |-> 0],
      [lag |-> 2, ic |-> TRUE,  exo |-> 2, cst |-> 2, userT |-> "none", useT |-> FALSE, tol |-> 0] }
ProfilesOver(M, MT) ==
    { [n |-> Len(A), A |-> A, maxTime |-> mt] @@ pr : A \in M, pr \in Profiles, mt \in MT }

(* quick: every option combination on two base matrices and on the one-variable block with the *)
(* default tolerance; every 1x1 / 2x2 / designed 3x3 matrix under the four profiles            *)
BlocksQuick(mt) ==
    { MkBlock(o) : o \in OptsOver(BaseMats, {mt}, {0, 4}) }
    \cup { MkBlock(o) : o \in OptsOver(Mats1, {mt}, {0}) }
    \cup { MkBlock(o) : o \in ProfilesOver(Mats1 \cup Mats2 \cup Mats3Few, {mt}) }

(* thorough: every option combination on every 1x1 / 2x2 / designed 3x3 matrix; the mid-sized *)
(* 3x3 family under the profiles; a longer horizon on the base matrices                       *)
BlocksThorough(mt) ==
    { MkBlock(o) : o \in OptsOver(Mats1 \cup Mats2 \cup Mats3Few, {mt}, {0, 4}) }
    \cup { MkBlock(o) : o \in OptsOver(BaseMats, {1, 6}, {0, 4}) }
    \cup { MkBlock(o) : o \in ProfilesOver(Mats3Mid, {4}) }

(* a handful of blocks for the as-found counterexample *)
BlocksTiny(mt) ==
    { MkBlock(o) : o \in ProfilesOver(BaseMats, {mt}) }

MC_Blocks == CASE Tier = "quick"    -> BlocksQuick(3)
               [] Tier = "thorough" -> BlocksThorough(3)
               [] Tier = "tiny"     -> BlocksTiny(2)

----------------------------------------------------------------------------
(* every maximal behaviour (= one block carried MaxGenerations times through generation, import and *)
(* run on one generator object) is printed once                                                    *)
Terminal == phase = "done" /\ ngen = MaxGenerations
Emit == Terminal => PrintT(<< "BEH", ToJson([block |-> blk, steps |-> mod.STEP, status |-> mod.status, generations |-> ngen]) >>)
=============================================================================
