---------------------------- MODULE MC_Codegen ----------------------------
(* Bounded instances of Codegen: equation blocks built from a small grammar, and        *)
(* behaviour emission.                                                                   *)
(*                                                                                       *)
(* A block is  v = A v + (lag) + (exogenous) + constant (+ time trend)  over 1-3         *)
(* simultaneous variables x, y, z.  Coefficients are integers in QUARTERS; every row of  *)
(* A has absolute sum <= 2 quarters, i.e. the Jacobi iteration of the generated module   *)
(* contracts with factor <= 0.5 in the max norm.                                         *)
(*   A      n x n, zero diagonal, A[i][j] quarters of variable j in the equation of i    *)
(*   lag    0 none | 1:  + 0.5*LAG_<last>  in equation 1, LAG_<last> = <last>(k-1)       *)
(*                 | 2:  + LAG_<last>      in equation 1, LAG_<last> = <last>(t-1)       *)
(*                 | 3:  + 0.5*LAG2_<last> in equation 1, LAG_<last> = <last>(k-1),      *)
(*                       LAG2_<last> = LAG_<last>(k-1)   (a lag of a lagged variable)    *)
(*                 | 4, 5, 6:  + 0.5*LAG2_<last> + 0.25*LAGB_<last> in equation 1, where *)
(*                       LAG2_<last> and LAGB_<last> BOTH lag the lagged variable        *)
(*                       LAG_<last>; the three lag lines in the order                    *)
(*                       4: LAG, LAG2, LAGB | 5: LAG2, LAGB, LAG | 6: LAG2, LAG, LAGB    *)
(*   ic     <last>(0) = 10.0                                                             *)
(*   exo    0 none | 1:  + G  in equation 1, G a literal list of exactly MaxTime+1       *)
(*                 | 2:  + G, G a list expression of MaxTime+3 values (gets chopped)     *)
(*                 | 3:  + G, G a list expression that uses math names and builtins       *)
(*                 | 4:  G = 2*[20.0, ] + N*[25.0, ]   (repeat count first)               *)
(*                 | 5:  G = (20.0, 21.5, ...)          (a tuple of exactly MaxTime+1)     *)
(*                 | 6:  G = ([20.0, ] * 2 + [25.0, ] * N)   (parenthesised)               *)
(*   cst    constant of equation 1:  0: 2.0 | 1: a closed expression over math names /     *)
(*          builtins chosen by fn (sqrt(4.0), tanh(0.5) + 1.5, e, max(2.0, 1.0), ...)     *)
(*          | 2: c0 with the line c0 = 2.0 | 3: 1000000.0 | 4: 2000.0 (large values)      *)
(*   tw     spelling of the time trend: 0.25*t or wrapped in max / hypot / abs / copysign *)
(*   userT  "none": the parser injects t = k                                             *)
(*          "endo": t = t_minus_1 + 1.0 and t_minus_1 = t(k-1)                           *)
(*          "exo" : t = [0.0, 1.0, ...] in the exogenous section                         *)
(*          "endok": t = 0.25*k + 2000.0  (a user time axis written with the step index) *)
(*          "const": t = 1.0 (with n = 0 the block has this ONE variable)                 *)
(*   n = 0  no simultaneous variable at all (A = << >>): the block is its time axis only  *)
(*   cm     comments: 0 none | 1 a plain trailing comment | 2 a comment line with a       *)
(*          Windows-style path (C:\Users\...) | 3 a comment line with \N and \x           *)
(*   uk     + 0.25*k in the last equation (an ordinary equation reads the step index k)  *)
(*   useT   + 0.25*t in the last equation                                                *)
(*   tol    0: no Err_Tolerance line (parser default 1e-8) | 4: Err_Tolerance = 1e-4     *)
(*          | 6: Err_Tolerance = 1e-6                                                    *)
(*          | 100: Err_Tolerance = 1.0 | 200: Err_Tolerance = 2.0  (used with cst = 3)    *)
(*   ps     spelling of a WHOLE right-hand side without any name - the parameter line    *)
(*          (cst = 2) and every equation i > 1 whose row of A is zero: 0: the plain       *)
(*          literal (2.0 / 1.0) | 1..12: arithmetic on literals only (4/2, 0.5*4, (2.0),  *)
(*          - 2.0, 2*0.3, 3/5, 0.04/4, 1e3/500, 2.0 ** 1, -(-2.0), 0x2, 5 - 3); the driver *)
(*          holds the texts (PARAM_SPELLINGS) and computes the values                     *)
(*   red    constructor option run_equation_reduction of the generator                   *)
(*   al     an alias line  INC = <last>  that nothing reads (decorative under reduction) *)
(*   nm     names of the variables: 0: x, y, z and the parameter c0 = 2.0                *)
(*          1: err, new_vector, in_vec and the parameter cnt = 500.0 - locals of the     *)
(*             generated RunOneStep / Iterator (err and cnt are the loop state; err is   *)
(*             0 at k = 0 unless it is the last variable with an initial condition, cnt  *)
(*             is above MaxIterations = 400)                                             *)
(*          2: STEP, main, orig_vector and the parameter MaxIterations = 2.0 -           *)
(*             attributes / methods / the unpack local of the generated class            *)
(*          3: x, NEW_x, z and c0 - NEW_x is the Iterator's local for the new value of x *)
(*          4: ITERATOR, y, z and c0 - ITERATOR is a placeholder GenerateFile replaces    *)
(*             after the variable names have been written into the text                  *)
(* The replay driver renders the text from these fields (harness/checks/c20.py).         *)
EXTENDS Codegen, Json

CONSTANT Tier      \* "quick" | "thorough" | "tiny": which block set MC_Blocks is (one definition, so
                   \* that TLC does not build the large sets of the other tiers at start-up)

NameSets == << << "x", "y", "z", "c0" >>,
               << "err", "new_vector", "in_vec", "cnt" >>,
               << "STEP", "main", "orig_vector", "MaxIterations" >>,
               << "x", "NEW_x", "z", "c0" >>,
               << "ITERATOR", "y", "z", "c0" >> >>
VarName(o, i) == NameSets[o.nm + 1][i]
ParamName(o) == NameSets[o.nm + 1][4]
MC_MathNames == {"sqrt", "exp", "log", "floor", "pi", "tanh", "sinh", "cosh", "atan2", "log1p", "expm1", "log2", "hypot", "e", "tau", "erf", "copysign", "degrees", "gamma", "trunc", "fabs"}

(* spellings of the constant of equation 1 (cst = 1), chosen by fn: closed expressions over names of the *)
(* math module and the builtins the parser admits; the driver holds the texts (CONST_SPELLINGS) and      *)
(* cross-checks the names.  The value of each is a float the driver computes, the block stays affine.    *)
ConstSpellingReads ==
    << << "sqrt" >>, << "tanh" >>, << "sinh" >>, << "cosh" >>, << "atan2" >>, << "log1p" >>, << "expm1" >>,
       << "log2" >>, << "hypot" >>, << "e" >>, << "tau", "pi" >>, << "erf" >>, << "copysign" >>,
       << "degrees", "pi" >>, << "gamma" >>, << "trunc" >>, << "max" >>, << "min" >>, << "abs" >>, << "pow" >>,
       << "round" >>, << "float" >>, << "sum" >>, << "exp", "log" >>, << "floor" >>, << "fabs" >> >>
NumSpellings == Len(ConstSpellingReads)
(* spellings of the time trend (useT), chosen by tw: 0.25*t | 0.25*max(t, 0.0) | 0.25*hypot(t, 0.0) |   *)
(* 0.25*abs(t) | 0.25*copysign(t, 1.0)  (t >= 0, so each equals 0.25*t exactly)                          *)
TimeWrapReads == << << >>, << "max" >>, << "hypot" >>, << "abs" >>, << "copysign" >> >>
(* exo = 3: G = [hypot(12.0, 16.0), ] * 2 + [max(25.0, e) + log1p(0.0), ] * (MaxTime+1)                  *)
ExoExprReads == << "hypot", "max", "e", "log1p" >>

Opt(c, s) == IF c THEN s ELSE << >>

(* names read by equation i: the other simultaneous variables with a non-zero coefficient ... *)
OffDiag(o, i) ==
    LET A   == o.A
        n   == Len(A)
        idx == SelectSeq([ j \in 1..n |-> j ], LAMBDA j : j # i /\ A[i][j] # 0)
    IN [ q \in 1..Len(idx) |-> VarName(o, idx[q]) ]

Last(o) == IF o.n = 0 THEN "none" ELSE VarName(o, o.n)
TolText(o) == CASE o.tol = 0 -> "1e-8" [] o.tol = 4 -> "1e-4" [] o.tol = 6 -> "1e-6" [] o.tol = 100 -> "1.0" [] o.tol = 200 -> "2.0"
LagName(o) == "LAG_" \o Last(o)
Lag2Name(o) == "LAG2_" \o Last(o)
LagBName(o) == "LAGB_" \o Last(o)

EqReads(o, i) ==
    OffDiag(o, i)
    \o Opt(i = 1 /\ o.lag \in {1, 2}, << LagName(o) >>)
    \o Opt(i = 1 /\ o.lag >= 3, << Lag2Name(o) >>)
    \o Opt(i = 1 /\ o.lag >= 4, << LagBName(o) >>)
    \o Opt(i = 1 /\ o.exo > 0, << "G" >>)
    \o (IF i = 1 /\ o.cst = 1 THEN ConstSpellingReads[o.fn] ELSE << >>)
    \o Opt(i = 1 /\ o.cst = 2, << ParamName(o) >>)
    \o Opt(i = o.n /\ o.useT, << "t" >> \o TimeWrapReads[o.tw + 1])
    \o Opt(i = o.n /\ o.uk, << "k" >>)

MkBlock(o) ==
    o @@
    [ endo   |-> [ i \in 1..o.n |-> [name |-> VarName(o, i), reads |-> EqReads(o, i)] ]
                 \o Opt(o.al, << [name |-> "INC", reads |-> << Last(o) >>] >>)
                 \o Opt(o.cst = 2, << [name |-> ParamName(o), reads |-> << >>] >>)
                 \o Opt(o.userT = "endo", << [name |-> "t", reads |-> << "t_minus_1" >>] >>)
                 \o Opt(o.userT = "endok", << [name |-> "t", reads |-> << "k" >>] >>)
                 \o Opt(o.userT = "const", << [name |-> "t", reads |-> << >>] >>),
      lagged |-> LET l1 == [name |-> LagName(o), of |-> Last(o)]
                     l2 == [name |-> Lag2Name(o), of |-> LagName(o)]
                     lb == [name |-> LagBName(o), of |-> LagName(o)]
                 IN (CASE o.lag = 0 -> << >>
                       [] o.lag \in {1, 2} -> << l1 >>
                       [] o.lag = 3 -> << l1, l2 >>
                       [] o.lag = 4 -> << l1, l2, lb >>
                       [] o.lag = 5 -> << l2, lb, l1 >>
                       [] o.lag = 6 -> << l2, l1, lb >>)
                 \o Opt(o.userT = "endo", << [name |-> "t_minus_1", of |-> "t"] >>),
      exos   |-> Opt(o.exo > 0, << [name |-> "G", len |-> IF o.exo \in {1, 5} THEN o.maxTime + 1 ELSE o.maxTime + 3,
                                     reads |-> IF o.exo = 3 THEN ExoExprReads ELSE << >>] >>)
                 \o Opt(o.userT = "exo", << [name |-> "t", len |-> o.maxTime + 1, reads |-> << >>] >>),
      ics    |-> Opt(o.ic, << Last(o) >>),
      foundT |-> o.userT # "none",
      reduce |-> o.red,
      tolText |-> TolText(o) ]

----------------------------------------------------------------------------
(* coefficient matrices, in quarters *)
Grid == {-2, -1, 0, 1, 2}
Abs(v) == IF v < 0 THEN 0 - v ELSE v

Mats1 == { << << 0 >> >> }
Mats2 == { << << 0, a >>, << b, 0 >> >> : a, b \in Grid }
RowPairs == { p \in Grid \X Grid : Abs(p[1]) + Abs(p[2]) <= 2 }
(* designed 3x3 matrices: cyclic, triangular, full, with negative entries, decoupled *)
Mats3Few == { << << 0, 1, 1 >>,  << 1, 0, 1 >>,   << 1, 1, 0 >> >>,
              << << 0, 2, 0 >>,  << 0, 0, 2 >>,   << 2, 0, 0 >> >>,
              << << 0, 0, 0 >>,  << 2, 0, 0 >>,   << 1, 1, 0 >> >>,
              << << 0, -1, 1 >>, << 1, 0, -1 >>,  << -1, 1, 0 >> >>,
              << << 0, 0, -2 >>, << 0, 0, 0 >>,   << 1, -1, 0 >> >>,
              << << 0, 1, 0 >>,  << -2, 0, 0 >>,  << 0, 0, 0 >> >>,
              << << 0, 0, 0 >>,  << 0, 0, 0 >>,   << 0, 0, 0 >> >>,
              << << 0, -1, -1 >>, << -1, 0, -1 >>, << -1, -1, 0 >> >> }
(* a mid-sized family: rows from {0, +-1/4} pairs plus single halves, first row fixed *)
Mats3Mid == { << << 0, 1, 1 >>, << r2[1], 0, r2[2] >>, << r3[1], r3[2], 0 >> >> :
              r2, r3 \in { p \in RowPairs : p[1] # -2 /\ p[2] # -2 /\ p[1] + p[2] # 0 } }

BaseMats == { << << 0, 1 >>, << 2, 0 >> >>,
              << << 0, 1, 1 >>, << 1, 0, 1 >>, << 1, 1, 0 >> >> }

OptsOverN(M, MT, Tols, Lags, Nms) ==
    { [n |-> Len(A), A |-> A, lag |-> l, ic |-> c, exo |-> e, cst |-> s, userT |-> u, useT |-> w,
       tol |-> tl, maxTime |-> mt, nm |-> nm, fn |-> IF s = 1 THEN 1 ELSE 0, tw |-> 0, red |-> FALSE,
       al |-> FALSE, ps |-> 0, uk |-> FALSE, cm |-> 0] :
      A \in M, l \in Lags, c \in BOOLEAN, e \in 0..2, s \in 0..2, u \in {"none", "endo", "exo"},
      w \in BOOLEAN, tl \in Tols, mt \in MT, nm \in Nms }
OptsOver(M, MT, Tols) == OptsOverN(M, MT, Tols, 0..2, {0})

(* option profiles under which every matrix is tried *)
Profiles ==
    { [lag |-> 1, ic |-> TRUE,  exo |-> 2, cst |-> 1, userT |-> "endo", useT |-> TRUE,  tol |-> 0, nm |-> 0],
      [lag |-> 2, ic |-> FALSE, exo |-> 1, cst |-> 2, userT |-> "none", useT |-> TRUE,  tol |-> 4, nm |-> 0],
      [lag |-> 0, ic |-> TRUE,  exo |-> 0, cst |-> 0, userT |-> "exo",  useT |-> FALSE, tol |-> 0, nm |-> 0],
      [lag |-> 2, ic |-> TRUE,  exo |-> 2, cst |-> 2, userT |-> "none", useT |-> FALSE, tol |-> 0, nm |-> 0],
      [lag |-> 3, ic |-> TRUE,  exo |-> 1, cst |-> 2, userT |-> "none", useT |-> TRUE,  tol |-> 0, nm |-> 0],
      [lag |-> 3, ic |-> FALSE, exo |-> 0, cst |-> 0, userT |-> "endo", useT |-> FALSE, tol |-> 4, nm |-> 1],
      [lag |-> 1, ic |-> FALSE, exo |-> 2, cst |-> 2, userT |-> "none", useT |-> TRUE,  tol |-> 0, nm |-> 1],
      [lag |-> 0, ic |-> TRUE,  exo |-> 1, cst |-> 2, userT |-> "exo",  useT |-> FALSE, tol |-> 0, nm |-> 1],
      [lag |-> 4, ic |-> TRUE,  exo |-> 1, cst |-> 0, userT |-> "none", useT |-> TRUE,  tol |-> 0, nm |-> 0],
      [lag |-> 5, ic |-> FALSE, exo |-> 2, cst |-> 2, userT |-> "endo", useT |-> FALSE, tol |-> 4, nm |-> 0],
      [lag |-> 6, ic |-> TRUE,  exo |-> 0, cst |-> 1, userT |-> "exo",  useT |-> TRUE,  tol |-> 0, nm |-> 1] }
(* blocks whose variables capture names of the generated class: the generator must refuse them *)
OwnNameProfiles ==
    { [lag |-> 1, ic |-> TRUE,  exo |-> 1, cst |-> 2, userT |-> "none", useT |-> TRUE,  tol |-> 0, nm |-> 2],
      [lag |-> 0, ic |-> FALSE, exo |-> 0, cst |-> 0, userT |-> "endo", useT |-> FALSE, tol |-> 0, nm |-> 2],
      [lag |-> 1, ic |-> TRUE,  exo |-> 1, cst |-> 2, userT |-> "none", useT |-> TRUE,  tol |-> 0, nm |-> 3],
      [lag |-> 0, ic |-> FALSE, exo |-> 0, cst |-> 0, userT |-> "endo", useT |-> FALSE, tol |-> 0, nm |-> 3] }
ProfilesOf(P, M, MT) ==
    { [n |-> Len(A), A |-> A, maxTime |-> mt] @@ pr
      @@ [fn |-> IF pr.cst = 1 THEN 1 ELSE 0, tw |-> 0, red |-> FALSE, al |-> FALSE, ps |-> 0, uk |-> FALSE, cm |-> 0] :
      A \in M, pr \in P, mt \in MT }
(* math functions and constants, builtins: every constant spelling with / without the exogenous list *)
(* expression that uses math names, injected and user-defined time axis; every time-trend wrapper     *)
MathProfiles ==
    { [lag |-> 1, ic |-> TRUE, exo |-> x, cst |-> 1, userT |-> u, useT |-> TRUE, tol |-> 0, nm |-> 0,
       fn |-> f, tw |-> 0] : f \in 1..NumSpellings, x \in {0, 3}, u \in {"none", "endo"} }
    \cup
    { [lag |-> 0, ic |-> FALSE, exo |-> 3, cst |-> c, userT |-> u, useT |-> TRUE, tol |-> 0, nm |-> 0,
       fn |-> IF c = 1 THEN 10 ELSE 0, tw |-> w] : w \in 1..4, c \in {0, 1}, u \in {"none", "exo"} }
ProfilesOver(M, MT) == ProfilesOf(Profiles, M, MT)
(* equation reduction: option on with / without the unread alias, with the time axis read / unread  *)
(* (the injected t = k is decorative when unread), lags (a lagged variable is read), a parameter;   *)
(* the alias with the option off                                                                    *)
RedProfiles ==
    { [lag |-> l, ic |-> TRUE, exo |-> 1, cst |-> s, userT |-> u, useT |-> w, tol |-> 0, nm |-> 0,
       red |-> TRUE, al |-> a] : l \in {0, 1, 3}, s \in {0, 2}, u \in {"none", "endo"}, w \in BOOLEAN, a \in BOOLEAN }
    \cup
    { [lag |-> l, ic |-> TRUE, exo |-> 1, cst |-> s, userT |-> u, useT |-> TRUE, tol |-> 0, nm |-> 0,
       red |-> FALSE, al |-> TRUE] : l \in {0, 1}, s \in {0, 2}, u \in {"none", "endo"} }
(* matrices with leaves (a variable no other equation reads), cycles, decoupled variables *)
RedMats == Mats1 \cup { << << 0, 1 >>, << 2, 0 >> >>, << << 0, 0 >>, << 2, 0 >> >>,
                         << << 0, 0, 0 >>,  << 2, 0, 0 >>,   << 1, 1, 0 >> >>,
                         << << 0, 2, 0 >>,  << 0, 0, 2 >>,   << 2, 0, 0 >> >>,
                         << << 0, 0, 0 >>,  << 0, 0, 0 >>,   << 0, 0, 0 >> >> }
(* tolerances >= 1 with large values (the stopping rule must still let the iteration run) *)
TolProfiles ==
    { [lag |-> l, ic |-> FALSE, exo |-> x, cst |-> 3, userT |-> u, useT |-> w, tol |-> tl, nm |-> 0] :
      l \in {0, 1}, x \in {0, 1}, u \in {"none", "endo"}, w \in BOOLEAN, tl \in {100, 200} }
(* right-hand sides without a name, in every spelling, read by other equations: the parameter of *)
(* equation 1 and (second matrix of ParamMats) a variable with a zero row that two others read    *)
NumParamSpellings == 12
ParamProfiles ==
    { [lag |-> l, ic |-> c, exo |-> 1, cst |-> 2, userT |-> u, useT |-> TRUE, tol |-> 0, nm |-> 0,
       red |-> r, ps |-> q] :
      l \in {0, 1}, c \in BOOLEAN, u \in {"none", "endo"}, r \in BOOLEAN, q \in 1..NumParamSpellings }
ParamMats == { << << 0, 1 >>, << 2, 0 >> >>, << << 0, 1, 1 >>, << 0, 0, 0 >>, << 1, 1, 0 >> >> }
(* the step index k read by ordinary equations and by a user-defined time equation, under every *)
(* kind of time axis (the module must bind k whenever some equation reads it)                    *)
KProfiles ==
    { [lag |-> l, ic |-> FALSE, exo |-> x, cst |-> 0, userT |-> u, useT |-> w, tol |-> 0, nm |-> 0,
       red |-> r, uk |-> q] :
      l \in {0, 1}, x \in {0, 1}, w \in BOOLEAN, r \in BOOLEAN,
      u \in {"none", "endo", "exo", "endok"}, q \in BOOLEAN } \ { pr \in
    { [lag |-> l, ic |-> FALSE, exo |-> x, cst |-> 0, userT |-> u, useT |-> w, tol |-> 0, nm |-> 0,
       red |-> r, uk |-> FALSE] :
      l \in {0, 1}, x \in {0, 1}, w \in BOOLEAN, r \in BOOLEAN, u \in {"none", "endo", "exo"} } : TRUE }
(* blocks without any simultaneous variable: the time axis alone (one variable when it is a constant *)
(* or an exogenous list; two with t_minus_1 or the step index)                                        *)
Mats0 == { << >> }
AxisProfiles ==
    { [lag |-> 0, ic |-> FALSE, exo |-> 0, cst |-> 0, userT |-> u, useT |-> FALSE, tol |-> tl, nm |-> 0, red |-> r] :
      u \in {"const", "exo", "endo", "endok", "none"}, tl \in {0, 4}, r \in BOOLEAN }
(* comments in the block text (all of them inert for the parser) *)
CommentProfiles ==
    { [lag |-> 1, ic |-> TRUE, exo |-> x, cst |-> 2, userT |-> u, useT |-> TRUE, tol |-> 0, nm |-> 0, cm |-> c] :
      x \in {0, 2}, u \in {"none", "endo"}, c \in 1..3 }
(* a variable named like a placeholder of the template: must be refused *)
PlaceholderProfiles ==
    { [lag |-> l, ic |-> FALSE, exo |-> 1, cst |-> 2, userT |-> u, useT |-> TRUE, tol |-> 0, nm |-> 4] :
      l \in {0, 1}, u \in {"none", "endo"} }
(* first blocks of a two-block history on one generator object: every per-block attribute differs from *)
(* what the second blocks have (tolerance 1.0 / 1e-4, horizon 5 / 2, chained lags, k, a parameter,     *)
(* exogenous lists, an alias, reduction)                                                               *)
FirstProfiles ==
    { [lag |-> 4, ic |-> TRUE, exo |-> 2, cst |-> 2, userT |-> "none", useT |-> TRUE, tol |-> 100, nm |-> 0,
       red |-> TRUE, al |-> TRUE, uk |-> TRUE, maxTime |-> 5],
      [lag |-> 1, ic |-> TRUE, exo |-> 3, cst |-> 1, userT |-> "endo", useT |-> TRUE, tol |-> 4, nm |-> 0,
       fn |-> 10, maxTime |-> 2] }
FirstBlocksAll == { MkBlock([n |-> 2, A |-> << << 0, 1 >>, << 2, 0 >> >>] @@ pr
                            @@ [fn |-> 0, tw |-> 0, red |-> FALSE, al |-> FALSE, ps |-> 0, uk |-> FALSE, cm |-> 0]) :
                    pr \in FirstProfiles }
(* large magnitudes crossed with the tolerances: the stated tolerance is absolute, the equation error *)
(* of the module must not grow with the size of the values                                            *)
ScaleProfiles ==
    { [lag |-> l, ic |-> FALSE, exo |-> x, cst |-> s, userT |-> u, useT |-> w, tol |-> tl, nm |-> 0] :
      l \in {0, 1}, x \in {0, 1}, s \in {3, 4}, u \in {"none", "endo"}, w \in BOOLEAN, tl \in {0, 4, 6} }
ScaleMats == { << << 0, 1 >>, << 2, 0 >> >>, << << 0, 1, 1 >>, << 1, 0, 1 >>, << 1, 1, 0 >> >> }
(* spellings of the exogenous path that do not start with a bracket *)
ExoProfiles ==
    { [lag |-> l, ic |-> TRUE, exo |-> x, cst |-> s, userT |-> u, useT |-> TRUE, tol |-> 0, nm |-> 0, red |-> r] :
      l \in {0, 1}, x \in 4..6, s \in {0, 2}, u \in {"none", "endo"}, r \in BOOLEAN }
Base2 == { << << 0, 1 >>, << 2, 0 >> >> }
OwnNameMats == Mats1 \cup Base2 \cup { << << 0, 1, 1 >>, << 1, 0, 1 >>, << 1, 1, 0 >> >> }

(* quick: every option combination (lags 0-2, names x y z) on the 2x2 base matrix, and with the     *)
(* default tolerance on the 3x3 base matrix; on the one-variable block every combination incl. the  *)
(* chained lag, and the colliding local names without a lag / with the chained lag; the chained lag *)
(* and the colliding local names with every other option on the 2x2 base matrix; every 1x1 / 2x2 /  *)
(* designed 3x3 matrix under the profiles; the own-name blocks                                      *)
BlocksQuick(mt) ==
    { MkBlock(o) : o \in OptsOver(Base2, {mt}, {0, 4}) }
    \cup { MkBlock(o) : o \in OptsOver(BaseMats \ Base2, {mt}, {0}) }
    \cup { MkBlock(o) : o \in OptsOverN(Mats1, {mt}, {0}, 0..3, {0}) }
    \cup { MkBlock(o) : o \in OptsOverN(Mats1, {mt}, {0}, {0, 3}, {1}) }
    \cup { MkBlock(o) : o \in OptsOverN(Base2, {mt}, {0}, {3}, {0}) }
    \cup { MkBlock(o) : o \in OptsOverN(Base2, {mt}, {0}, {1}, {1}) }
    \cup { MkBlock(o) : o \in OptsOverN(Mats1, {mt}, {0}, 4..6, {0}) }
    \cup { MkBlock(o) : o \in OptsOverN(Base2, {mt}, {0}, {5}, {0}) }
    \cup { MkBlock(o) : o \in ProfilesOver(Mats1 \cup Mats2 \cup Mats3Few, {mt}) }
    \cup { MkBlock(o) : o \in ProfilesOf(OwnNameProfiles, OwnNameMats, {mt}) }
    \cup { MkBlock(o) : o \in ProfilesOf(MathProfiles, Mats1 \cup Base2, {mt}) }
    \cup { MkBlock(o) : o \in ProfilesOf(RedProfiles, RedMats, {mt}) }
    \cup { MkBlock(o) : o \in ProfilesOf(TolProfiles, Mats1 \cup Base2, {mt}) }
    \cup { MkBlock(o) : o \in ProfilesOf(ParamProfiles, ParamMats, {mt}) }
    \cup { MkBlock(o) : o \in ProfilesOf(KProfiles, Mats1 \cup Base2, {mt}) }
    \cup { MkBlock(o) : o \in ProfilesOf(AxisProfiles, Mats0, {mt}) }
    \cup { MkBlock(o) : o \in ProfilesOf(ScaleProfiles, ScaleMats, {mt}) }
    \cup { MkBlock(o) : o \in ProfilesOf(ExoProfiles, Mats1 \cup Base2, {mt}) }
    \cup { MkBlock(o) : o \in ProfilesOf(CommentProfiles, Mats1 \cup Base2, {mt}) }
    \cup { MkBlock(o) : o \in ProfilesOf(PlaceholderProfiles, Mats1 \cup Base2, {mt}) }

(* thorough: every option combination (lags 0-2) on every 1x1 / 2x2 / designed 3x3 matrix (the      *)
(* non-default tolerance on the 1x1, base and designed 3x3 matrices only), and the                  *)
(* chained lag with the default tolerance; the colliding local names with every option on the 1x1   *)
(* and base matrices; a longer and a one-period horizon on the base matrices; the mid-sized 3x3     *)
(* family under the profiles; the own-name blocks                                                   *)
BlocksThorough(mt) ==
    { MkBlock(o) : o \in OptsOverN(Mats1 \cup Mats2 \cup Mats3Few, {mt}, {0}, 0..2, {0}) }
    \cup { MkBlock(o) : o \in OptsOverN(Mats1 \cup BaseMats \cup Mats3Few, {mt}, {4}, 0..2, {0}) }
    \cup { MkBlock(o) : o \in OptsOverN(Mats1 \cup Mats2 \cup Mats3Few, {mt}, {0}, {3}, {0}) }
    \cup { MkBlock(o) : o \in OptsOverN(Mats1 \cup BaseMats, {mt, 6}, {0}, 4..6, {0}) }
    \cup { MkBlock(o) : o \in OptsOverN(Mats1 \cup BaseMats, {mt}, {0}, 0..3, {1}) }
    \cup { MkBlock(o) : o \in OptsOverN(BaseMats, {1, 6}, {0}, 0..3, {0}) }
    \cup { MkBlock(o) : o \in ProfilesOver(Mats3Mid, {4}) }
    \cup { MkBlock(o) : o \in ProfilesOf(OwnNameProfiles, OwnNameMats, {mt, 1}) }
    \cup { MkBlock(o) : o \in ProfilesOf(MathProfiles, Mats1 \cup BaseMats, {mt, 6}) }
    \cup { MkBlock(o) : o \in ProfilesOf(RedProfiles, Mats1 \cup Mats2 \cup Mats3Few, {mt, 6}) }
    \cup { MkBlock(o) : o \in ProfilesOf(TolProfiles, Mats1 \cup BaseMats, {mt, 6}) }
    \cup { MkBlock(o) : o \in ProfilesOf(ParamProfiles, Mats1 \cup ParamMats \cup Mats3Few, {mt, 6}) }
    \cup { MkBlock(o) : o \in ProfilesOf(KProfiles, Mats1 \cup BaseMats \cup Mats3Few, {mt, 6}) }
    \cup { MkBlock(o) : o \in ProfilesOf(AxisProfiles, Mats0, {mt, 1, 6}) }
    \cup { MkBlock(o) : o \in ProfilesOf(ScaleProfiles, Mats1 \cup BaseMats \cup Mats3Few, {mt, 6}) }
    \cup { MkBlock(o) : o \in ProfilesOf(ExoProfiles, Mats1 \cup BaseMats \cup Mats3Few, {mt, 6}) }
    \cup { MkBlock(o) : o \in ProfilesOf(CommentProfiles, Mats1 \cup BaseMats, {mt, 6}) }
    \cup { MkBlock(o) : o \in ProfilesOf(PlaceholderProfiles, Mats1 \cup BaseMats, {mt}) }

(* a handful of blocks for the as-found counterexamples *)
BlocksTiny(mt) ==
    { MkBlock(o) : o \in ProfilesOver(BaseMats, {mt}) }
    \cup { MkBlock(o) : o \in ProfilesOf(OwnNameProfiles, Base2, {mt}) }
    \cup { MkBlock(o) : o \in ProfilesOf({ pr \in MathProfiles : pr.fn \in {0, 2, 10} }, Base2, {mt}) }
    \cup { MkBlock(o) : o \in ProfilesOf({ pr \in RedProfiles : pr.lag = 1 }, Base2, {mt}) }
    \cup { MkBlock(o) : o \in ProfilesOf({ pr \in KProfiles : pr.lag = 1 /\ pr.exo = 1 }, Base2, {mt}) }
    \cup { MkBlock(o) : o \in ProfilesOf(AxisProfiles, Mats0, {mt}) }
    \cup { MkBlock(o) : o \in ProfilesOf(PlaceholderProfiles, Base2, {mt}) }

(* second blocks of the two-block histories: the profile blocks on the 1x1, 2x2 base and designed 3x3 *)
(* matrices (quick) / on every matrix, the step-index and time-axis blocks (thorough)                  *)
MC_FirstBlocks == FirstBlocksAll
MC_SecondBlocks ==
    CASE Tier = "quick"    -> { MkBlock(o) : o \in ProfilesOver(Mats1 \cup Base2 \cup Mats3Few, {3}) }
                               \cup { MkBlock(o) : o \in ProfilesOf(AxisProfiles, Mats0, {3}) }
      [] Tier = "thorough" -> { MkBlock(o) : o \in ProfilesOver(Mats1 \cup Mats2 \cup Mats3Few, {3}) }
                               \cup { MkBlock(o) : o \in ProfilesOf(KProfiles, Mats1 \cup BaseMats, {3}) }
                               \cup { MkBlock(o) : o \in ProfilesOf(AxisProfiles, Mats0, {3, 6}) }
      [] Tier = "tiny"     -> { MkBlock(o) : o \in ProfilesOver(Base2, {2}) }

MC_Blocks == CASE Tier = "quick"    -> BlocksQuick(3)
               [] Tier = "thorough" -> BlocksThorough(3)
               [] Tier = "tiny"     -> BlocksTiny(2)

----------------------------------------------------------------------------
(* every maximal behaviour (= one block carried MaxGenerations times through generation, import and *)
(* run on one generator object) is printed once                                                    *)
Terminal == (phase = "done" /\ ngen = MaxGenerations) \/ phase = "rejected"
Emit == Terminal => PrintT(<< "BEH", ToJson([first |-> first, block |-> blk, steps |-> mod.STEP, status |-> mod.status, generations |-> ngen,
                                             rejected |-> phase = "rejected"]) >>)
=============================================================================
