SPECIFICATION Spec
CONSTANTS
  Vars <- MC_Vars
  Places <- MC_Places
  MaxRequests = 2
  AsFound_GlobalNotFixed = TRUE
INVARIANT C05_NoPlaceholder
INVARIANT C05_CanonicalAfterCodes
CHECK_DEADLOCK FALSE
