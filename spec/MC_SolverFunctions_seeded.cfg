SPECIFICATION Spec
CONSTANTS
  NameClasses <- MC_Classes
  Places <- MC_Places
  GlobalsOverFunctions = TRUE
INVARIANT TypeOK
INVARIANT C02_RegisteredFunctionAnswers

CHECK_DEADLOCK FALSE
